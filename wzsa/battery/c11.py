"""self-validation battery for C11."""
SH = "sansio/http.py"
HT = "http.py"
ET = "datastructures/etag.py"
RG = "datastructures/range.py"
RS = "wrappers/response.py"
UT = "utils.py"
IN = "_internal.py"
WS = "wsgi.py"

_DATE_BLOCK = "    if modified_since and last_modified and last_modified <= modified_since:\n        unmodified = True\n\n"
_ETAG_BLOCK = (
    "    if etag:\n"
    "        etag, _ = unquote_etag(etag)\n"
    "\n"
    "        if if_range is not None and if_range.etag is not None:\n"
    "            unmodified = parse_etags(if_range.etag).contains(etag)\n"
    "        else:\n"
    "            if_none_match = parse_etags(http_if_none_match)\n"
)


def _etag_block_guard_clause(ret: str) -> str:
    """the If-Range tag verdict as a guard clause that returns directly (rest of the block follows in a `if True:`-free
    way: the else arm keeps its indentation under a new `if` on the negated condition)"""
    return (
        "    if etag:\n"
        "        etag, _ = unquote_etag(etag)\n"
        "\n"
        "        if if_range is not None and if_range.etag is not None:\n"
        f"            {ret}\n"
        "        if if_range is None or if_range.etag is None:\n"
        "            if_none_match = parse_etags(http_if_none_match)\n"
    )


_IM_BLOCK = "            if if_match:\n                unmodified = not if_match.contains(etag)\n"
_INM_SET = "unmodified = if_none_match.contains_weak(etag)"
_IFR_SET = "unmodified = parse_etags(if_range.etag).contains(etag)"
_PE_APPEND = "        if is_weak:\n            weak.append(raw)\n        else:\n            strong.append(raw)\n"
_RFL_TAIL = "        if http.is_byte_range_valid(start, end, length):\n            return start, min(end, length)\n        return None\n"

MUTANTS = [
    # R11.1 comparison per validator
    {"name": "if-none-match-strong-only", "expect": "R11.1", "edits": [(SH, "unmodified = if_none_match.contains_weak(etag)", "unmodified = if_none_match.contains(etag)")]},
    {"name": "contains-weak-forgets-star", "expect": "R11.1", "edits": [(ET, "return self.is_weak(etag) or self.contains(etag)", "return self.is_weak(etag) or self.is_strong(etag)")]},
    {"name": "if-match-polarity", "expect": "R11.1", "edits": [(SH, "unmodified = not if_match.contains(etag)", "unmodified = if_match.contains(etag)")]},
    {"name": "if-match-ignores-star", "expect": "R11.1", "edits": [(SH, "unmodified = not if_match.contains(etag)", "unmodified = not if_match.is_strong(etag)")]},
    {"name": "wrapper-passes-wrong-header", "expect": "R11.1", "edits": [(HT, 'http_if_match=environ.get("HTTP_IF_MATCH"),', 'http_if_match=environ.get("HTTP_IF_NONE_MATCH"),')]},
    {"name": "parse-etags-lists-swapped", "expect": "R11.1", "edits": [(HT, "return ds.ETags(strong, weak)", "return ds.ETags(weak, strong)")]},
    {"name": "etag-compared-quoted", "expect": "R11.1", "edits": [(SH, "        etag, _ = unquote_etag(etag)\n", "        etag = etag.strip()\n")]},
    {"name": "if-range-guard-clause-polarity-lost", "expect": "R11.1", "edits": [(SH, _ETAG_BLOCK, _etag_block_guard_clause("return parse_etags(if_range.etag).contains(etag)"))]},
    {"name": "parse-etags-selector-inverted", "expect": "R11.1", "edits": [(HT, _PE_APPEND, "        tags = strong if is_weak else weak\n        tags.append(raw)\n")]},
    {"name": "parse-etags-alias-not-reset", "expect": "R11.1", "edits": [(HT, "    strong = []\n    weak = []\n", "    strong = []\n    weak = []\n    tags = strong\n"), (HT, _PE_APPEND, "        if is_weak:\n            tags = weak\n        tags.append(raw)\n")]},
    {"name": "parse-etags-weak-filed-before-flag", "expect": "R11.1", "edits": [(HT, "        is_weak, quoted, raw = match.groups()\n", "        weak.append(match.group(2))\n        is_weak, quoted, raw = match.groups()\n")]},
    # R11.2 precedence
    {"name": "if-range-guard-clause-keeps-date-verdict", "expect": "R11.2", "edits": [(SH, _ETAG_BLOCK, _etag_block_guard_clause("return not (unmodified or parse_etags(if_range.etag).contains(etag))"))]},
    {"name": "if-none-match-or-date", "expect": "R11.2", "edits": [(SH, "unmodified = if_none_match.contains_weak(etag)", "unmodified = unmodified or if_none_match.contains_weak(etag)")]},
    {"name": "date-check-after-etag", "expect": "R11.2", "edits": [(SH, _DATE_BLOCK, ""), (SH, "    return not unmodified\n\n\n_cookie_re", _DATE_BLOCK + "    return not unmodified\n\n\n_cookie_re")]},
    {"name": "if-none-match-only-when-date-failed", "expect": "R11.2", "edits": [(SH, "            if if_none_match:\n", "            if if_none_match and not unmodified:\n")]},
    # R11.3 date resolution
    {"name": "date-strictly-earlier", "expect": "R11.3", "edits": [(SH, "last_modified <= modified_since", "last_modified < modified_since")]},
    {"name": "microseconds-kept", "expect": "R11.3", "edits": [(SH, "_dt_as_utc(last_modified.replace(microsecond=0))", "_dt_as_utc(last_modified)")]},
    {"name": "aware-values-skip-normalisation", "expect": "R11.3", "edits": [(SH, "    if last_modified is not None:\n        last_modified = _dt_as_utc(", "    if last_modified is not None and last_modified.tzinfo is None:\n        last_modified = _dt_as_utc(")]},
    {"name": "dt-as-utc-relabels-aware", "expect": "R11.3", "edits": [(IN, "return dt.astimezone(timezone.utc)", "return dt.replace(tzinfo=timezone.utc)")]},
    {"name": "seconds-dropped-too", "expect": "R11.3", "edits": [(SH, "last_modified.replace(microsecond=0)", "last_modified.replace(second=0, microsecond=0)")]},
    # R11.4 gates
    {"name": "conditional-for-post", "expect": "R11.4", "edits": [(RS, 'if environ["REQUEST_METHOD"] in ("GET", "HEAD"):', 'if environ["REQUEST_METHOD"] in ("GET", "HEAD", "POST"):')]},
    {"name": "304-and-412-swapped", "expect": "R11.4", "edits": [(RS, "                    self.status_code = 412\n                else:\n                    self.status_code = 304", "                    self.status_code = 304\n                else:\n                    self.status_code = 412")]},
    {"name": "if-range-not-evaluated", "expect": "R11.4", "edits": [(RS, "                ignore_if_range=False,", "                ignore_if_range=True,")]},
    {"name": "processable-gate-dropped", "expect": "R11.4", "edits": [(RS, "            or complete_length == 0\n            or not self._is_range_request_processable(environ)\n", "            or complete_length == 0\n")]},
    {"name": "range-processing-before-method-test", "expect": "R11.4", "edits": [(RS, "        environ = _get_environ(request_or_environ)\n        if environ[\"REQUEST_METHOD\"]", "        environ = _get_environ(request_or_environ)\n        is206 = self._process_range_request(environ, complete_length, accept_ranges)\n        if environ[\"REQUEST_METHOD\"]"), (RS, "            is206 = self._process_range_request(environ, complete_length, accept_ranges)\n            if not is206", "            if not is206")]},
    # R11.5 one source
    {"name": "status-set-after-wrap", "expect": "R11.5", "edits": [(RS, "        self.status_code = 206\n        self._wrap_range_response(range_tuple[0], content_length)\n", "        self._wrap_range_response(range_tuple[0], content_length)\n        self.status_code = 206\n")]},
    {"name": "content-range-last-is-stop", "expect": "R11.5", "edits": [(RG, "{range[0]}-{range[1] - 1}/{length}", "{range[0]}-{range[1]}/{length}")]},
    {"name": "window-length-is-stop", "expect": "R11.5", "edits": [(RS, "self._wrap_range_response(range_tuple[0], content_length)", "self._wrap_range_response(range_tuple[0], range_tuple[1])")]},
    {"name": "wrapper-arguments-swapped", "expect": "R11.5", "edits": [(RS, "_RangeWrapper(self.response, start, length)", "_RangeWrapper(self.response, length, start)")]},
    # R11.6 416 on every failure
    {"name": "unparsable-range-ignored", "expect": "R11.6", "edits": [(RS, "        if parsed_range is None:\n            raise RequestedRangeNotSatisfiable(complete_length)", "        if parsed_range is None:\n            return False")]},
    {"name": "content-range-none-unchecked", "expect": "R11.6", "edits": [(RS, "if range_tuple is None or content_range_header is None:", "if range_tuple is None:")]},
    {"name": "send-file-leaks-on-416", "expect": "R11.6", "edits": [(UT, "        except RequestedRangeNotSatisfiable:\n            if file is not None:\n                file.close()\n\n            raise", "        except RequestedRangeNotSatisfiable:\n            raise")]},
    # R11.7 satisfiability gate
    {"name": "predicate-loses-lower-bound", "expect": "R11.7", "edits": [(HT, "    return 0 <= start < length", "    return start < length")]},
    {"name": "multi-range-first-served", "expect": "R11.7", "edits": [(RG, "or len(self.ranges) != 1:", "or not self.ranges:")]},
    {"name": "validity-checked-on-clamped-start", "expect": "R11.7", "edits": [(RG, "if http.is_byte_range_valid(start, end, length):", "if http.is_byte_range_valid(max(start, 0), end, length):")]},
    {"name": "suffix-applied-after-validation", "expect": "R11.7", "edits": [(RG, "        if end is None:\n            end = length\n            if start < 0:\n                start += length\n        if http.is_byte_range_valid(start, end, length):\n            return start, min(end, length)\n", "        if end is None:\n            end = length\n        if http.is_byte_range_valid(abs(start), end, length):\n            if start < 0:\n                start += length\n            return start, min(end, length)\n")]},
    {"name": "stop-not-clamped", "expect": "R11.7", "edits": [(RG, "return start, min(end, length)", "return start, end")]},
    # the same defects in the generalised shapes
    {"name": "date-verdict-expression-strict", "expect": "R11.3", "edits": [(SH, "    unmodified = False\n    if isinstance(last_modified, str):", "    if isinstance(last_modified, str):"), (SH, _DATE_BLOCK, "    unmodified = bool(\n        modified_since and last_modified and last_modified < modified_since\n    )\n\n")]},
    {"name": "date-verdict-expression-inverted", "expect": "R11.3", "edits": [(SH, "    unmodified = False\n    if isinstance(last_modified, str):", "    if isinstance(last_modified, str):"), (SH, _DATE_BLOCK, "    unmodified = not (\n        modified_since and last_modified and last_modified <= modified_since\n    )\n\n")]},
    {"name": "status-conditional-expression-swapped", "expect": "R11.4", "edits": [(RS, "                if parse_etags(environ.get(\"HTTP_IF_MATCH\")):\n                    self.status_code = 412\n                else:\n                    self.status_code = 304", "                if_match = parse_etags(environ.get(\"HTTP_IF_MATCH\"))\n                self.status_code = 304 if if_match else 412")]},
    {"name": "range-tuple-unpacked-window-is-stop", "expect": "R11.5", "edits": [(RS, "        content_length = range_tuple[1] - range_tuple[0]\n", "        first, stop = range_tuple\n        content_length = stop - first\n"), (RS, "self._wrap_range_response(range_tuple[0], content_length)", "self._wrap_range_response(first, stop)")]},
    {"name": "content-range-unpacked-last-is-stop", "expect": "R11.5", "edits": [(RG, "        range = self.range_for_length(length)\n        if range is not None:\n            return f\"{self.units} {range[0]}-{range[1] - 1}/{length}\"\n        return None\n", "        range = self.range_for_length(length)\n        if range is None:\n            return None\n        first, stop = range\n        return f\"{self.units} {first}-{stop}/{length}\"\n")]},
    {"name": "range-for-length-conditional-unchecked-start", "expect": "R11.7", "edits": [(RG, _RFL_TAIL, "        return (start, min(end, length)) if http.is_byte_range_valid(abs(start), end, length) else None\n")]},
    {"name": "dt-as-utc-conditional-relabels-aware", "expect": "R11.3", "edits": [(IN, "    if dt.tzinfo is None:\n        return dt.replace(tzinfo=timezone.utc)\n    elif dt.tzinfo != timezone.utc:\n        return dt.astimezone(timezone.utc)\n\n    return dt\n", "    return dt.astimezone(timezone.utc) if dt.tzinfo is None else dt.replace(tzinfo=timezone.utc)\n")]},
    {"name": "etags-contains-conditional-loses-star", "expect": "R11.1", "edits": [(ET, "        if self.star_tag:\n            return True\n        return self.is_strong(etag)", "        return False if self.star_tag else self.is_strong(etag)")]},
    {"name": "wrap-inlined-only-for-large-windows", "expect": "R11.5", "edits": [(RS, "        self._wrap_range_response(range_tuple[0], content_length)\n", "        if content_length > 1:\n            self.response = _RangeWrapper(self.response, range_tuple[0], content_length)  # type: ignore\n")]},
    {"name": "wrap-inlined-window-from-zero", "expect": "R11.5", "edits": [(RS, "        self._wrap_range_response(range_tuple[0], content_length)\n", "        self.response = _RangeWrapper(self.response, 0, content_length)  # type: ignore\n")]},
    {"name": "not-modified-local-polarity-lost", "expect": "R11.4", "edits": [(RS, "            if not is206 and not is_resource_modified(\n                environ,\n                self.headers.get(\"etag\"),\n                None,\n                self.headers.get(\"last-modified\"),\n            ):\n", "            changed = is_resource_modified(\n                environ,\n                self.headers.get(\"etag\"),\n                None,\n                self.headers.get(\"last-modified\"),\n            )\n            if changed and not is206:\n")]},
    {"name": "processable-local-polarity-lost", "expect": "R11.4", "edits": [(RS, "        return (\n            \"HTTP_IF_RANGE\" not in environ\n            or not is_resource_modified(\n                environ,\n                self.headers.get(\"etag\"),\n                None,\n                self.headers.get(\"last-modified\"),\n                ignore_if_range=False,\n            )\n        ) and \"HTTP_RANGE\" in environ\n", "        if \"HTTP_RANGE\" not in environ:\n            return False\n        if \"HTTP_IF_RANGE\" not in environ:\n            return True\n        changed = is_resource_modified(\n            environ,\n            self.headers.get(\"etag\"),\n            None,\n            self.headers.get(\"last-modified\"),\n            ignore_if_range=False,\n        )\n        return changed\n")]},
    {"name": "etags-union-without-star", "expect": "R11.1", "edits": [(ET, "return self.is_weak(etag) or self.contains(etag)", "return etag in (self._weak | self._strong)")]},
    {"name": "wrapper-local-holds-wrong-header", "expect": "R11.1", "edits": [(HT, "    return _sansio_http.is_resource_modified(\n        http_range=environ.get(\"HTTP_RANGE\"),\n        http_if_range=environ.get(\"HTTP_IF_RANGE\"),", "    if_range = environ.get(\"HTTP_IF_MODIFIED_SINCE\")\n    return _sansio_http.is_resource_modified(\n        http_range=environ.get(\"HTTP_RANGE\"),\n        http_if_range=if_range,")]},
    # R11.8 counter stays absolute across the seek
    {"name": "range-wrapper-counter-not-rebased", "expect": "R11.8", "edits": [(WS, "            self.read_length = self.iterable.tell()  # type: ignore\n            contextual_read_length = self.read_length\n", "            contextual_read_length = self.start_byte\n")]},
    {"name": "range-wrapper-counter-rebased-on-one-branch", "expect": "R11.8", "edits": [(WS, "            self.read_length = self.iterable.tell()  # type: ignore\n            contextual_read_length = self.read_length\n", "            contextual_read_length = self.iterable.tell()\n            if not contextual_read_length:\n                self.read_length = contextual_read_length\n")]},
    # R11.2 truth table of the whole function: the validator that is evaluated decides alone (no earlier verdict survives)
    {"name": "if-match-verdict-only-set-on-failure", "expect": "R11.2", "edits": [(SH, _IM_BLOCK, "            if if_match:\n                if not if_match.contains(etag):\n                    unmodified = True\n")]},
    {"name": "if-match-skipped-when-date-matched", "expect": "R11.2", "edits": [(SH, _IM_BLOCK, "            if if_match and not unmodified:\n                unmodified = not if_match.contains(etag)\n")]},
    {"name": "date-match-returns-before-if-match", "expect": "R11.2", "edits": [(SH, "            if_match = parse_etags(http_if_match)\n", "            if unmodified and not if_none_match:\n                return False\n            if_match = parse_etags(http_if_match)\n")]},
    {"name": "if-none-match-only-raises-verdict", "expect": "R11.2", "edits": [(SH, _INM_SET, "if if_none_match.contains_weak(etag):\n                    unmodified = True")]},
    {"name": "if-range-tag-only-raises-verdict", "expect": "R11.2", "edits": [(SH, _IFR_SET, "if parse_etags(if_range.etag).contains(etag):\n                unmodified = True")]},
    {"name": "if-match-absent-resets-verdict", "expect": "R11.2", "edits": [(SH, _IM_BLOCK, "            unmodified = bool(if_match) and not if_match.contains(etag)\n")]},
    {"name": "if-match-branches-polarity-inverted", "expect": "R11.2", "edits": [(SH, _IM_BLOCK, "            if if_match:\n                if if_match.contains(etag):\n                    unmodified = True\n                else:\n                    unmodified = False\n")]},
    {"name": "if-match-augmented-or", "expect": "R11.2", "edits": [(SH, _IM_BLOCK, "            if if_match:\n                unmodified |= not if_match.contains(etag)\n")]},
    {"name": "if-match-flag-local-date-survives", "expect": "R11.2", "edits": [(SH, _IM_BLOCK, "            if if_match:\n                rejected = not if_match.contains(etag)\n                unmodified = unmodified or rejected\n")]},
    {"name": "if-match-expression-keeps-verdict-on-admit", "expect": "R11.2", "edits": [(SH, _IM_BLOCK, "            unmodified = True if (if_match and not if_match.contains(etag)) else unmodified\n")]},
    {"name": "if-range-tag-asked-only-when-date-failed", "expect": "R11.2", "edits": [(SH, "            " + _IFR_SET + "\n", "            if not unmodified:\n                " + _IFR_SET + "\n")]},
]

TWINS = [
    {"name": "if-range-tag-through-local", "edits": [(SH, "        if if_range is not None and if_range.etag is not None:\n            unmodified = parse_etags(if_range.etag).contains(etag)\n", "        range_tag = if_range.etag if if_range is not None else None\n        if range_tag is not None:\n            unmodified = parse_etags(range_tag).contains(etag)\n")]},
    {"name": "wrapper-reads-header-into-local", "edits": [(HT, "    return _sansio_http.is_resource_modified(\n        http_range=environ.get(\"HTTP_RANGE\"),\n        http_if_range=environ.get(\"HTTP_IF_RANGE\"),", "    if_range = environ.get(\"HTTP_IF_RANGE\")\n    return _sansio_http.is_resource_modified(\n        http_range=environ.get(\"HTTP_RANGE\"),\n        http_if_range=if_range,")]},
    {"name": "not-modified-hoisted-into-local", "edits": [(RS, "            if not is206 and not is_resource_modified(\n                environ,\n                self.headers.get(\"etag\"),\n                None,\n                self.headers.get(\"last-modified\"),\n            ):\n", "            unchanged = not is_resource_modified(\n                environ,\n                self.headers.get(\"etag\"),\n                None,\n                self.headers.get(\"last-modified\"),\n            )\n            if unchanged and not is206:\n")]},
    {"name": "processable-through-local", "edits": [(RS, "        return (\n            \"HTTP_IF_RANGE\" not in environ\n            or not is_resource_modified(\n                environ,\n                self.headers.get(\"etag\"),\n                None,\n                self.headers.get(\"last-modified\"),\n                ignore_if_range=False,\n            )\n        ) and \"HTTP_RANGE\" in environ\n", "        if \"HTTP_RANGE\" not in environ:\n            return False\n        if \"HTTP_IF_RANGE\" not in environ:\n            return True\n        changed = is_resource_modified(\n            environ,\n            self.headers.get(\"etag\"),\n            None,\n            self.headers.get(\"last-modified\"),\n            ignore_if_range=False,\n        )\n        return not changed\n")]},
    {"name": "range-for-length-suffix-as-expression", "edits": [(RG, "            if start < 0:\n                start += length\n", "            start = start + length if start < 0 else start\n")]},
    {"name": "etags-contains-weak-on-union", "edits": [(ET, "return self.is_weak(etag) or self.contains(etag)", "return self.star_tag or etag in (self._weak | self._strong)")]},
    {"name": "wrap-inlined-before-status", "edits": [(RS, "        self.status_code = 206\n        self._wrap_range_response(range_tuple[0], content_length)\n", "        self.response = _RangeWrapper(self.response, range_tuple[0], content_length)  # type: ignore\n        self.status_code = 206\n")]},
    {"name": "wrap-helper-inlined", "edits": [(RS, "        self._wrap_range_response(range_tuple[0], content_length)\n", "        self.response = _RangeWrapper(self.response, range_tuple[0], content_length)  # type: ignore\n")]},
    {"name": "content-length-through-header-property", "edits": [(RS, "        self.headers[\"Content-Length\"] = str(content_length)\n", "        self.content_length = content_length\n")]},
    # shapes the rules were generalised for (conditional expressions, tuple unpacking, walrus, flag-from-expression)
    {"name": "date-verdict-from-boolean-expression", "edits": [(SH, "    unmodified = False\n    if isinstance(last_modified, str):", "    if isinstance(last_modified, str):"), (SH, _DATE_BLOCK, "    unmodified = bool(\n        modified_since and last_modified and last_modified <= modified_since\n    )\n\n")]},
    {"name": "date-verdict-de-morgan", "edits": [(SH, "    unmodified = False\n    if isinstance(last_modified, str):", "    if isinstance(last_modified, str):"), (SH, _DATE_BLOCK, "    unmodified = not (\n        not modified_since or not last_modified or last_modified > modified_since\n    )\n\n")]},
    {"name": "if-none-match-walrus", "edits": [(SH, "            if_none_match = parse_etags(http_if_none_match)\n            if if_none_match:\n", "            if if_none_match := parse_etags(http_if_none_match):\n")]},
    {"name": "unquote-etag-subscript", "edits": [(SH, "        etag, _ = unquote_etag(etag)\n", "        etag = unquote_etag(etag)[0]\n")]},
    {"name": "status-conditional-expression", "edits": [(RS, "                if parse_etags(environ.get(\"HTTP_IF_MATCH\")):\n                    self.status_code = 412\n                else:\n                    self.status_code = 304", "                if_match = parse_etags(environ.get(\"HTTP_IF_MATCH\"))\n                self.status_code = 304 if not if_match else 412")]},
    {"name": "method-local", "edits": [(RS, "        if environ[\"REQUEST_METHOD\"] in (\"GET\", \"HEAD\"):\n            # if the date", "        method = environ[\"REQUEST_METHOD\"]\n        if method in (\"GET\", \"HEAD\"):\n            # if the date")]},
    {"name": "range-tuple-unpacked", "edits": [(RS, "        content_length = range_tuple[1] - range_tuple[0]\n", "        first, stop = range_tuple\n        content_length = stop - first\n"), (RS, "self._wrap_range_response(range_tuple[0], content_length)", "self._wrap_range_response(first, content_length)")]},
    {"name": "content-range-unpacked-conditional", "edits": [(RG, "        range = self.range_for_length(length)\n        if range is not None:\n            return f\"{self.units} {range[0]}-{range[1] - 1}/{length}\"\n        return None\n", "        range = self.range_for_length(length)\n        if range is None:\n            return None\n        first, stop = range\n        return f\"{self.units} {first}-{stop - 1}/{length}\"\n")]},
    {"name": "content-range-conditional-expression", "edits": [(RG, "        if range is not None:\n            return f\"{self.units} {range[0]}-{range[1] - 1}/{length}\"\n        return None\n", "        return None if range is None else f\"{self.units} {range[0]}-{range[1] - 1}/{length}\"\n")]},
    {"name": "range-for-length-conditional-expression", "edits": [(RG, _RFL_TAIL, "        return (start, min(end, length)) if http.is_byte_range_valid(start, end, length) else None\n")]},
    {"name": "dt-as-utc-conditional-expression", "edits": [(IN, "    if dt.tzinfo is None:\n        return dt.replace(tzinfo=timezone.utc)\n    elif dt.tzinfo != timezone.utc:\n        return dt.astimezone(timezone.utc)\n\n    return dt\n", "    return dt.replace(tzinfo=timezone.utc) if dt.tzinfo is None else dt.astimezone(timezone.utc)\n")]},
    {"name": "etags-contains-conditional-expression", "edits": [(ET, "        if self.star_tag:\n            return True\n        return self.is_strong(etag)", "        return True if self.star_tag else self.is_strong(etag)")]},
    {"name": "range-wrapper-position-local", "edits": [(WS, "            self.read_length = self.iterable.tell()  # type: ignore\n            contextual_read_length = self.read_length\n", "            position = self.iterable.tell()\n            self.read_length = position\n            contextual_read_length = position\n")]},
    {"name": "range-wrapper-sync-helper", "edits": [(WS, "    def _first_iteration(self)", "    def _sync_position(self) -> None:\n        self.read_length = self.iterable.tell()  # type: ignore\n\n    def _first_iteration(self)"), (WS, "            self.read_length = self.iterable.tell()  # type: ignore\n            contextual_read_length = self.read_length\n", "            self._sync_position()\n            contextual_read_length = self.read_length\n")]},
    {"name": "if-range-tag-guard-clause-returns", "edits": [(SH, _ETAG_BLOCK, _etag_block_guard_clause("return not parse_etags(if_range.etag).contains(etag)"))]},
    {"name": "parse-etags-list-selected-by-flag", "edits": [(HT, _PE_APPEND, "        tags = weak if is_weak else strong\n        tags.append(raw)\n")]},
    {"name": "parse-etags-receiver-is-conditional", "edits": [(HT, _PE_APPEND, "        (strong if not is_weak else weak).append(raw)\n")]},
    {"name": "parse-etags-default-strong-alias", "edits": [(HT, _PE_APPEND, "        tags = strong\n        if is_weak:\n            tags = weak\n        tags.append(raw)\n")]},
    {"name": "parse-etags-flag-tested-for-none", "edits": [(HT, _PE_APPEND, "        if is_weak is None:\n            strong.append(raw)\n            pos = match.end()\n            continue\n        weak.append(raw)\n")]},
    {"name": "parse-etags-group-accessors", "edits": [(HT, "        is_weak, quoted, raw = match.groups()\n", "        is_weak = match.group(1)\n        quoted = match.group(2)\n        raw = match.group(3)\n")]},
    {"name": "normalisation-helper-extracted", "edits": [(SH, "def is_resource_modified(\n", "def _http_instant(dt: datetime) -> datetime:\n    return _dt_as_utc(dt.replace(microsecond=0))\n\n\ndef is_resource_modified(\n"), (SH, "        last_modified = _dt_as_utc(last_modified.replace(microsecond=0))\n", "        last_modified = _http_instant(last_modified)\n")]},
    {"name": "satisfiability-helper-extracted", "edits": [(RG, "class Range:\n", "def _satisfiable(first: int, stop: int, size: int) -> bool:\n    return http.is_byte_range_valid(first, stop, size)\n\n\nclass Range:\n"), (RG, "if http.is_byte_range_valid(start, end, length):", "if _satisfiable(start, end, length):")]},
    {"name": "range-for-length-early-return", "edits": [(RG, _RFL_TAIL, "        if not http.is_byte_range_valid(start, end, length):\n            return None\n        return start, min(end, length)\n")]},
    {"name": "range-for-length-inline-checks", "edits": [(RG, _RFL_TAIL, "        if 0 <= start < end and start < length:\n            return start, min(end, length)\n        return None\n")]},
    {"name": "range-for-length-renamed-locals", "edits": [(RG, "        start, end = self.ranges[0]\n        if end is None:\n            end = length\n            if start < 0:\n                start += length\n        if http.is_byte_range_valid(start, end, length):\n            return start, min(end, length)\n", "        first, stop = self.ranges[0]\n        if stop is None:\n            stop = length\n            if first < 0:\n                first += length\n        if http.is_byte_range_valid(first, stop, length):\n            stop = min(stop, length)\n            return first, stop\n")]},
    {"name": "normalisation-in-two-statements", "edits": [(SH, "        last_modified = _dt_as_utc(last_modified.replace(microsecond=0))\n", "        last_modified = last_modified.replace(microsecond=0)\n        last_modified = _dt_as_utc(last_modified)\n")]},
    {"name": "date-comparison-mirrored", "edits": [(SH, "last_modified <= modified_since", "modified_since >= last_modified")]},
    {"name": "status-if-else-flipped", "edits": [(RS, "                if parse_etags(environ.get(\"HTTP_IF_MATCH\")):\n                    self.status_code = 412\n                else:\n                    self.status_code = 304", "                if not parse_etags(environ.get(\"HTTP_IF_MATCH\")):\n                    self.status_code = 304\n                else:\n                    self.status_code = 412")]},
    {"name": "processable-as-statements", "edits": [(RS, "        return (\n            \"HTTP_IF_RANGE\" not in environ\n            or not is_resource_modified(\n                environ,\n                self.headers.get(\"etag\"),\n                None,\n                self.headers.get(\"last-modified\"),\n                ignore_if_range=False,\n            )\n        ) and \"HTTP_RANGE\" in environ\n", "        if \"HTTP_RANGE\" not in environ:\n            return False\n        if \"HTTP_IF_RANGE\" not in environ:\n            return True\n        return not is_resource_modified(\n            environ,\n            etag=self.headers.get(\"etag\"),\n            last_modified=self.headers.get(\"last-modified\"),\n            ignore_if_range=False,\n        )\n")]},
    {"name": "206-headers-reordered-and-renamed", "edits": [(RS, "        content_length = range_tuple[1] - range_tuple[0]\n        self.headers[\"Content-Length\"] = str(content_length)\n        self.headers[\"Accept-Ranges\"] = accept_ranges\n        self.content_range = content_range_header  # type: ignore\n        self.status_code = 206\n        self._wrap_range_response(range_tuple[0], content_length)\n", "        size = range_tuple[1] - range_tuple[0]\n        self.status_code = 206\n        self.content_range = content_range_header  # type: ignore\n        self.headers[\"Accept-Ranges\"] = accept_ranges\n        self.headers[\"Content-Length\"] = str(size)\n        self._wrap_range_response(start=range_tuple[0], length=size)\n")]},
    {"name": "none-checks-split", "edits": [(RS, "        if range_tuple is None or content_range_header is None:\n            raise RequestedRangeNotSatisfiable(complete_length)\n", "        if range_tuple is None:\n            raise RequestedRangeNotSatisfiable(complete_length)\n        if content_range_header is None:\n            raise RequestedRangeNotSatisfiable(complete_length)\n")]},
    {"name": "etag-verdict-early-return-style", "edits": [(ET, "        if self.star_tag:\n            return True\n        return self.is_strong(etag)", "        return self.star_tag or self.is_strong(etag)")]},
    {"name": "dt-as-utc-simplified", "edits": [(IN, "    elif dt.tzinfo != timezone.utc:\n        return dt.astimezone(timezone.utc)\n\n    return dt\n", "\n    return dt.astimezone(timezone.utc)\n")]},
    {"name": "send-file-wider-handler", "edits": [(UT, "        except RequestedRangeNotSatisfiable:\n            if file is not None:\n                file.close()\n\n            raise", "        except Exception:\n            if file is not None:\n                file.close()\n            raise")]},
    # verdict by control flow instead of one assignment (decided by the R11.2 truth table)
    {"name": "if-match-verdict-by-branches", "edits": [(SH, _IM_BLOCK, "            if if_match:\n                if if_match.contains(etag):\n                    unmodified = False\n                else:\n                    unmodified = True\n")]},
    {"name": "if-match-verdict-conditional-expression", "edits": [(SH, _IM_BLOCK, "            if if_match:\n                unmodified = False if if_match.contains(etag) else True\n")]},
    {"name": "if-none-match-verdict-by-branches", "edits": [(SH, _INM_SET, "if if_none_match.contains_weak(etag):\n                    unmodified = True\n                else:\n                    unmodified = False")]},
    {"name": "if-match-returns-directly", "edits": [(SH, _IM_BLOCK, "            if if_match:\n                return if_match.contains(etag)\n")]},
    {"name": "if-match-constant-returns", "edits": [(SH, _IM_BLOCK, "            if if_match:\n                if not if_match.contains(etag):\n                    return False\n                return True\n")]},
    {"name": "if-match-gated-on-header-too", "edits": [(SH, "            if if_match:\n", "            if http_if_match and if_match:\n")]},
    {"name": "if-match-reset-then-raised", "edits": [(SH, _IM_BLOCK, "            if if_match:\n                unmodified = False\n                if not if_match.contains(etag):\n                    unmodified = True\n")]},
    {"name": "if-range-tag-verdict-conditional-expression", "edits": [(SH, _IFR_SET, "unmodified = True if parse_etags(if_range.etag).contains(etag) else False")]},
    {"name": "if-match-admitted-flag-local", "edits": [(SH, _IM_BLOCK, "            if if_match:\n                admitted = if_match.contains(etag)\n                unmodified = not admitted\n")]},
    {"name": "if-none-match-only-without-if-match", "edits": [(SH, "            if_none_match = parse_etags(http_if_none_match)\n            if if_none_match:\n", "            if_match = parse_etags(http_if_match)\n            if_none_match = parse_etags(http_if_none_match)\n            if if_none_match and not if_match:\n"), (SH, "            if_match = parse_etags(http_if_match)\n            if if_match:\n", "            if if_match:\n")]},
    {"name": "if-match-if-elif", "edits": [(SH, _IM_BLOCK, "            if if_match and if_match.contains(etag):\n                unmodified = False\n            elif if_match:\n                unmodified = True\n")]},
    {"name": "if-none-match-expression-keeps-verdict-when-absent", "edits": [(SH, "            if if_none_match:\n", "            if True:\n"), (SH, _INM_SET, "unmodified = if_none_match.contains_weak(etag) if if_none_match else unmodified")]},
    {"name": "if-range-gate-through-inverted-flag", "edits": [(SH, "    if not ignore_if_range and http_range is not None:", "    skip_if_range = ignore_if_range or http_range is None\n    if not skip_if_range:")]},
    {"name": "if-range-object-truthiness", "edits": [(SH, "        if if_range is not None and if_range.etag is not None:", "        if if_range and if_range.etag is not None:")]},
]

# ---- round 3: member loop in a generator helper, lists in a table indexed by the flag, status / keyword tables ----
_PE_BODY = (
    "    strong = []\n    weak = []\n    end = len(value)\n    pos = 0\n    while pos < end:\n        match = _etag_re.match(value, pos)\n"
    "        if match is None:\n            break\n        is_weak, quoted, raw = match.groups()\n        if raw == \"*\":\n"
    "            return ds.ETags(star_tag=True)\n        elif quoted:\n            raw = quoted\n        if is_weak:\n            weak.append(raw)\n"
    "        else:\n            strong.append(raw)\n        pos = match.end()\n    return ds.ETags(strong, weak)\n"
)
_PE_GEN = (
    "\n\ndef _iter_etag_groups(value: str) -> t.Iterator[tuple[str | None, ...]]:\n    pos = 0\n    end = len(value)\n    while pos < end:\n"
    "        match = _etag_re.match(value, pos)\n        if match is None:\n            break\n        yield match.groups()\n        pos = match.end()\n"
)


def _pe_table(table: str, select: str, strong: str, weak: str) -> list:
    """parse_etags with the member loop in a generator helper and the two lists in a table"""
    return [(HT, _PE_BODY, (
        f"    tags = {table}\n    for is_weak, quoted, raw in _iter_etag_groups(value):\n        if raw == \"*\":\n            return ds.ETags(star_tag=True)\n"
        f"        tags[{select}].append(quoted or raw)\n    return ds.ETags({strong}, {weak})\n" + _PE_GEN))]


def _pe_comprehensions(strong_if: str, weak_if: str) -> list:
    return [(HT, _PE_BODY, (
        "    parts = list(_iter_etag_groups(value))\n    if any(raw == \"*\" for _, _, raw in parts):\n        return ds.ETags(star_tag=True)\n"
        f"    strong = [quoted or raw for is_weak, quoted, raw in parts if {strong_if}]\n"
        f"    weak = [quoted or raw for is_weak, quoted, raw in parts if {weak_if}]\n    return ds.ETags(strong, weak)\n" + _PE_GEN))]


_PE_CLASSIFYING_GEN = (
    "    strong = []\n    weak = []\n    for star, weak_tag, tag in _iter_etag_items(value):\n        if star:\n            return ds.ETags(star_tag=True)\n"
    "        (weak if weak_tag else strong).append(tag)\n    return ds.ETags(strong, weak)\n\n\n"
    "def _iter_etag_items(value: str) -> t.Iterator[tuple[bool, bool, str | None]]:\n    pos = 0\n    while pos < len(value):\n"
    "        match = _etag_re.match(value, pos)\n        if match is None:\n            return\n        is_weak, quoted, raw = match.groups()\n"
    "        if raw == \"*\":\n            yield True, False, None\n            return\n        yield False, FLAG, quoted or raw\n        pos = match.end()\n"
)
_MC_STATUS = "                if parse_etags(environ.get(\"HTTP_IF_MATCH\")):\n                    self.status_code = 412\n                else:\n                    self.status_code = 304\n"
_MC_IRM = "            if not is206 and not is_resource_modified(\n                environ,\n                self.headers.get(\"etag\"),\n                None,\n                self.headers.get(\"last-modified\"),\n            ):\n"
_WRAP_CALL = (
    "    return _sansio_http.is_resource_modified(\n        http_range=environ.get(\"HTTP_RANGE\"),\n        http_if_range=environ.get(\"HTTP_IF_RANGE\"),\n"
    "        http_if_modified_since=environ.get(\"HTTP_IF_MODIFIED_SINCE\"),\n        http_if_none_match=environ.get(\"HTTP_IF_NONE_MATCH\"),\n"
    "        http_if_match=environ.get(\"HTTP_IF_MATCH\"),\n        etag=etag,\n        data=data,\n        last_modified=last_modified,\n        ignore_if_range=ignore_if_range,\n    )\n"
)


def _wrap_table(names: str) -> str:
    return (
        "    request_headers = {\n        f\"http_{param}\": environ.get(f\"HTTP_{header.upper()}\")\n"
        f"        for param, header in ({names})\n    }}\n"
        "    return _sansio_http.is_resource_modified(\n        etag=etag,\n        data=data,\n        last_modified=last_modified,\n        ignore_if_range=ignore_if_range,\n        **request_headers,\n    )\n"
    )


_WRAP_NAMES = '("range", "range"), ("if_range", "if_range"), ("if_modified_since", "if_modified_since"), ("if_none_match", "if_none_match"), ("if_match", "if_match")'

TWINS += [
    {"name": "shape:parse-etags-generator-dict-table", "edits": _pe_table("{False: [], True: []}", "bool(is_weak)", "tags[False]", "tags[True]")},
    {"name": "shape:parse-etags-generator-pair-table", "edits": _pe_table("([], [])", "is_weak is not None", "tags[0]", "tags[1]")},
    {"name": "shape:parse-etags-generator-keyword-lists", "edits": _pe_table("{True: [], False: []}", "not not is_weak", "weak_etags=tags[True]", "strong_etags=tags[False]")},
    {"name": "shape:parse-etags-generator-comprehensions", "edits": _pe_comprehensions("not is_weak", "is_weak")},
    {"name": "shape:parse-etags-classifying-generator", "edits": [(HT, _PE_BODY, _PE_CLASSIFYING_GEN.replace("FLAG", "bool(is_weak)"))]},
    {"name": "shape:status-dict-table", "edits": [(RS, _MC_STATUS, "                self.status_code = {True: 412, False: 304}[bool(parse_etags(environ.get(\"HTTP_IF_MATCH\")))]\n")]},
    {"name": "shape:status-pair-table-through-local", "edits": [(RS, _MC_STATUS, "                if_match = parse_etags(environ.get(\"HTTP_IF_MATCH\"))\n                codes = (304, 412)\n                self.status_code = codes[bool(if_match)]\n")]},
    {"name": "shape:status-module-table", "edits": [(RS, _MC_STATUS, "                self.status_code = _CONDITIONAL_STATUS[not parse_etags(environ.get(\"HTTP_IF_MATCH\"))]\n"), (RS, "class Response(_SansIOResponse):\n", "_CONDITIONAL_STATUS = {True: 304, False: 412}\n\n\nclass Response(_SansIOResponse):\n")]},
    {"name": "shape:status-through-local", "edits": [(RS, _MC_STATUS, "                code = 412 if parse_etags(environ.get(\"HTTP_IF_MATCH\")) else 304\n                self.status_code = code\n")]},
    {"name": "shape:validators-keyword-table", "edits": [(RS, _MC_IRM, "            validators = {\"etag\": self.headers.get(\"etag\"), \"data\": None, \"last_modified\": self.headers.get(\"last-modified\")}\n            if not is206 and not is_resource_modified(environ, **validators):\n")]},
    {"name": "shape:validators-positional-table", "edits": [(RS, _MC_IRM, "            validators = (self.headers.get(\"etag\"), None, self.headers.get(\"last-modified\"))\n            if not is206 and not is_resource_modified(environ, *validators):\n")]},
    {"name": "shape:request-headers-keyword-table-comprehension", "edits": [(HT, _WRAP_CALL, _wrap_table(_WRAP_NAMES))]},
]
MUTANTS += [
    {"name": "shape:parse-etags-generator-dict-table-selector-inverted", "expect": "R11.1", "edits": _pe_table("{False: [], True: []}", "not is_weak", "tags[False]", "tags[True]")},
    {"name": "shape:parse-etags-generator-dict-table-lists-swapped", "expect": "R11.1", "edits": _pe_table("{False: [], True: []}", "bool(is_weak)", "tags[True]", "tags[False]")},
    {"name": "shape:parse-etags-generator-pair-table-selected-by-quoted", "expect": "R11.1", "edits": _pe_table("([], [])", "quoted is not None", "tags[0]", "tags[1]")},
    {"name": "shape:parse-etags-generator-comprehensions-same-filter", "expect": "R11.1", "edits": _pe_comprehensions("not is_weak", "not is_weak")},
    {"name": "shape:parse-etags-classifying-generator-flag-negated", "expect": "R11.1", "edits": [(HT, _PE_BODY, _PE_CLASSIFYING_GEN.replace("FLAG", "not is_weak"))]},
    {"name": "shape:status-dict-table-swapped", "expect": "R11.4", "edits": [(RS, _MC_STATUS, "                self.status_code = {True: 304, False: 412}[bool(parse_etags(environ.get(\"HTTP_IF_MATCH\")))]\n")]},
    {"name": "shape:status-pair-table-swapped", "expect": "R11.4", "edits": [(RS, _MC_STATUS, "                if_match = parse_etags(environ.get(\"HTTP_IF_MATCH\"))\n                codes = (412, 304)\n                self.status_code = codes[bool(if_match)]\n")]},
    {"name": "shape:validators-keyword-table-etag-from-request", "expect": "R11.4", "edits": [(RS, _MC_IRM, "            validators = {\"etag\": environ.get(\"HTTP_IF_NONE_MATCH\"), \"data\": None, \"last_modified\": self.headers.get(\"last-modified\")}\n            if not is206 and not is_resource_modified(environ, **validators):\n")]},
    {"name": "shape:request-headers-keyword-table-crossed", "expect": "R11.1", "edits": [(HT, _WRAP_CALL, _wrap_table(_WRAP_NAMES.replace('("if_match", "if_match")', '("if_match", "if_none_match")')))]},
]

# ---- round 3b: flags holding the truth of a test (bound before / between the nested ifs), guards split and merged ----
_MC_206 = "            is206 = self._process_range_request(environ, complete_length, accept_ranges)\n"
_MC_BLOCK = _MC_206 + _MC_IRM + _MC_STATUS
_MC_GATE = "        if environ[\"REQUEST_METHOD\"] in (\"GET\", \"HEAD\"):\n            # if the date"
_PR_GUARD = (
    "        if (\n            not accept_ranges\n            or complete_length is None\n            or complete_length == 0\n"
    "            or not self._is_range_request_processable(environ)\n        ):\n            return False\n"
)
_IRM_ARGS = "                environ,\n                self.headers.get(\"etag\"),\n                None,\n                self.headers.get(\"last-modified\"),\n"


def _mc_flags(not_modified: str, if_match: str, test: str, store: str) -> list:
    """all three verdicts computed into locals first, one test, the status picked by a conditional expression"""
    return [(RS, _MC_BLOCK, (
        _MC_206
        + f"            not_modified = {not_modified}(\n" + _IRM_ARGS + "            )\n"
        + f"            if_match_sent = {if_match}\n"
        + f"            if {test}:\n                self.status_code = {store}\n"))]


def _mc_nested(unmodified: str, inner: str) -> list:
    """range processing tested directly, then nested ifs with locals bound between them"""
    return [(RS, _MC_BLOCK, (
        "            if not self._process_range_request(environ, complete_length, accept_ranges):\n"
        f"                unmodified = {unmodified}(\n" + "".join("    " + ln + "\n" for ln in _IRM_ARGS.splitlines()) + "                )\n"
        "                if unmodified:\n" + inner))]


TWINS += [
    {"name": "shape:verdict-flags-before-one-test", "edits": _mc_flags("not is_resource_modified", "bool(parse_etags(environ.get(\"HTTP_IF_MATCH\")))", "not is206 and not_modified", "412 if if_match_sent else 304")},
    {"name": "shape:verdict-flags-negated-if-match", "edits": _mc_flags("not is_resource_modified", "not parse_etags(environ.get(\"HTTP_IF_MATCH\"))", "not_modified and not is206", "304 if if_match_sent else 412")},
    {"name": "shape:verdict-flags-true-if-else-false", "edits": _mc_flags("not is_resource_modified", "True if parse_etags(environ.get(\"HTTP_IF_MATCH\")) else False", "not (is206 or not not_modified)", "412 if if_match_sent else 304")},
    {"name": "shape:nested-ifs-flag-between", "edits": _mc_nested("not is_resource_modified", "                    precondition_failed = bool(parse_etags(environ.get(\"HTTP_IF_MATCH\")))\n                    if precondition_failed:\n                        self.status_code = 412\n                    else:\n                        self.status_code = 304\n")},
    {"name": "shape:nested-ifs-header-through-local-walrus", "edits": _mc_nested("not is_resource_modified", "                    raw_if_match = environ.get(\"HTTP_IF_MATCH\")\n                    if (if_match := parse_etags(raw_if_match)):\n                        self.status_code = 412\n                    if not if_match:\n                        self.status_code = 304\n")},
    {"name": "shape:combined-precondition-flag", "edits": [(RS, _MC_IRM, "            revalidated = not is206 and not is_resource_modified(\n" + _IRM_ARGS + "            )\n            if revalidated:\n")]},
    {"name": "shape:method-gate-flag", "edits": [(RS, _MC_GATE, "        safe_method = environ[\"REQUEST_METHOD\"] in (\"GET\", \"HEAD\")\n        if safe_method:\n            # if the date")]},
    {"name": "shape:method-gate-negated-flag-early-exit", "edits": [(RS, _MC_GATE, "        other_method = environ[\"REQUEST_METHOD\"] not in {\"HEAD\", \"GET\"}\n        if not other_method:\n            # if the date")]},
    {"name": "shape:processable-flag-first", "edits": [(RS, _PR_GUARD, "        processable = self._is_range_request_processable(environ)\n        if not accept_ranges or complete_length is None or complete_length == 0:\n            return False\n        if not processable:\n            return False\n")]},
    {"name": "shape:processable-positive-nesting-flag", "edits": [(RS, _PR_GUARD, "        sized = bool(accept_ranges) and complete_length is not None and complete_length != 0\n        if not (sized and self._is_range_request_processable(environ)):\n            return False\n")]},
]
MUTANTS += [
    {"name": "shape:verdict-flags-status-swapped", "expect": "R11.4", "edits": _mc_flags("not is_resource_modified", "bool(parse_etags(environ.get(\"HTTP_IF_MATCH\")))", "not is206 and not_modified", "304 if if_match_sent else 412")},
    {"name": "shape:verdict-flags-negation-not-followed", "expect": "R11.4", "edits": _mc_flags("not is_resource_modified", "not parse_etags(environ.get(\"HTTP_IF_MATCH\"))", "not_modified and not is206", "412 if if_match_sent else 304")},
    {"name": "shape:verdict-flags-false-if-else-true", "expect": "R11.4", "edits": _mc_flags("not is_resource_modified", "False if parse_etags(environ.get(\"HTTP_IF_MATCH\")) else True", "not is206 and not_modified", "412 if if_match_sent else 304")},
    {"name": "shape:verdict-flags-modified-polarity-lost", "expect": "R11.4", "edits": _mc_flags("is_resource_modified", "bool(parse_etags(environ.get(\"HTTP_IF_MATCH\")))", "not is206 and not_modified", "412 if if_match_sent else 304")},
    {"name": "shape:verdict-flags-if-none-match-header", "expect": "R11.4", "edits": _mc_flags("not is_resource_modified", "bool(parse_etags(environ.get(\"HTTP_IF_NONE_MATCH\")))", "not is206 and not_modified", "412 if if_match_sent else 304")},
    {"name": "shape:nested-ifs-unmodified-polarity-lost", "expect": "R11.4", "edits": _mc_nested("is_resource_modified", "                    precondition_failed = bool(parse_etags(environ.get(\"HTTP_IF_MATCH\")))\n                    if precondition_failed:\n                        self.status_code = 412\n                    else:\n                        self.status_code = 304\n")},
    {"name": "shape:nested-ifs-flag-sides-swapped", "expect": "R11.4", "edits": _mc_nested("not is_resource_modified", "                    precondition_failed = bool(parse_etags(environ.get(\"HTTP_IF_MATCH\")))\n                    if not precondition_failed:\n                        self.status_code = 412\n                    else:\n                        self.status_code = 304\n")},
    {"name": "shape:combined-precondition-flag-or", "expect": "R11.4", "edits": [(RS, _MC_IRM, "            revalidated = not is206 or not is_resource_modified(\n" + _IRM_ARGS + "            )\n            if revalidated:\n")]},
    {"name": "shape:method-gate-flag-admits-post", "expect": "R11.4", "edits": [(RS, _MC_GATE, "        safe_method = environ[\"REQUEST_METHOD\"] in (\"GET\", \"HEAD\", \"POST\")\n        if safe_method:\n            # if the date")]},
    {"name": "shape:method-gate-negated-flag-polarity-lost", "expect": "R11.4", "edits": [(RS, _MC_GATE, "        other_method = environ[\"REQUEST_METHOD\"] not in {\"HEAD\", \"GET\"}\n        if other_method:\n            # if the date")]},
    {"name": "shape:processable-flag-computed-not-tested", "expect": "R11.4", "edits": [(RS, _PR_GUARD, "        processable = self._is_range_request_processable(environ)\n        if not accept_ranges or complete_length is None or complete_length == 0:\n            return False\n")]},
    {"name": "shape:processable-flag-polarity-lost", "expect": "R11.4", "edits": [(RS, _PR_GUARD, "        processable = self._is_range_request_processable(environ)\n        if not accept_ranges or complete_length is None or complete_length == 0:\n            return False\n        if processable:\n            return False\n")]},
]

TWINS += [
    {"name": "shape:none-results-flag", "edits": [(RS, "        if range_tuple is None or content_range_header is None:\n", "        unsatisfiable = range_tuple is None or content_range_header is None\n        if unsatisfiable:\n")]},
    {"name": "shape:parsed-range-flag-is-not-none", "edits": [(RS, "        if parsed_range is None:\n", "        parsed = parsed_range is not None\n        if not parsed:\n")]},
]
MUTANTS += [
    {"name": "shape:none-results-flag-misses-content-range", "expect": "R11.6", "edits": [(RS, "        if range_tuple is None or content_range_header is None:\n", "        unsatisfiable = range_tuple is None\n        if unsatisfiable:\n")]},
    {"name": "shape:parsed-range-flag-polarity-lost", "expect": "R11.6", "edits": [(RS, "        if parsed_range is None:\n", "        parsed = parsed_range is not None\n        if parsed:\n")]},
]

_FLAGS = [
    {"name": "shape:flag:rfl-valid-flag", "edits": [(RG, _RFL_TAIL, "        valid = http.is_byte_range_valid(start, end, length)\n        if valid:\n            return start, min(end, length)\n        return None\n")]},
    {"name": "shape:flag:wrap-partial-flag", "edits": [(RS, "        if self.status_code == 206:\n            self.response = _RangeWrapper", "        partial = self.status_code == 206\n        if partial:\n            self.response = _RangeWrapper")]},
    {"name": "shape:flag:rfl-single-flag", "edits": [(RG, "        if self.units != \"bytes\" or length is None or len(self.ranges) != 1:\n", "        single = len(self.ranges) == 1\n        known = length is not None\n        if self.units != \"bytes\" or not known or not single:\n")]},
    {"name": "shape:flag:rfl-open-ended-flag", "edits": [(RG, "        if end is None:\n            end = length\n", "        open_ended = end is None\n        if open_ended:\n            end = length\n")]},
    {"name": "shape:flag:ibrv-flags", "edits": [(HT, "    elif start >= stop:  # type: ignore\n        return False\n    return 0 <= start < length\n", "    empty = start >= stop  # type: ignore\n    if empty:\n        return False\n    return 0 <= start < length\n")]},
    {"name": "shape:flag:inm-flag", "edits": [(SH, "            if if_none_match:\n", "            has_inm = bool(if_none_match)\n            if has_inm:\n")]},
    {"name": "shape:flag:etag-flag", "edits": [(SH, "    if etag:\n        etag, _ = unquote_etag(etag)\n", "    has_etag = bool(etag)\n    if has_etag:\n        etag, _ = unquote_etag(etag)\n")]},
    {"name": "shape:flag:date-flag", "edits": [(SH, "    if modified_since and last_modified and last_modified <= modified_since:\n", "    not_newer = bool(modified_since and last_modified and last_modified <= modified_since)\n    if not_newer:\n")]},
    {"name": "shape:flag:lm-not-none-flag", "edits": [(SH, "    if last_modified is not None:\n        last_modified = _dt_as_utc(", "    has_lm = last_modified is not None\n    if has_lm:\n        last_modified = _dt_as_utc(")]},
]
TWINS += _FLAGS
MUTANTS += [
    {"name": "shape:flag:rfl-valid-flag-on-clamped-start", "expect": "R11.7", "edits": [(RG, _RFL_TAIL, "        valid = http.is_byte_range_valid(abs(start), end, length)\n        if valid:\n            return start, min(end, length)\n        return None\n")]},
    {"name": "shape:flag:rfl-valid-flag-ignored", "expect": "R11.7", "edits": [(RG, _RFL_TAIL, "        valid = http.is_byte_range_valid(start, end, length)\n        if valid or end:\n            return start, min(end, length)\n        return None\n")]},
    {"name": "shape:flag:wrap-partial-flag-any-status-but-416", "expect": "R11.5", "edits": [(RS, "        if self.status_code == 206:\n            self.response = _RangeWrapper", "        partial = self.status_code != 416\n        if partial:\n            self.response = _RangeWrapper")]},
    {"name": "shape:flag:rfl-single-flag-admits-several", "expect": "R11.7", "edits": [(RG, "        if self.units != \"bytes\" or length is None or len(self.ranges) != 1:\n", "        single = len(self.ranges) >= 1\n        known = length is not None\n        if self.units != \"bytes\" or not known or not single:\n")]},
    {"name": "shape:flag:rfl-known-flag-not-tested", "expect": "R11.7", "edits": [(RG, "        if self.units != \"bytes\" or length is None or len(self.ranges) != 1:\n", "        single = len(self.ranges) == 1\n        known = length is not None\n        if self.units != \"bytes\" or not single:\n")]},
    {"name": "shape:flag:ibrv-empty-flag-admits-equal", "expect": "R11.7", "edits": [(HT, "    elif start >= stop:  # type: ignore\n        return False\n    return 0 <= start < length\n", "    empty = start > stop  # type: ignore\n    if empty:\n        return False\n    return 0 <= start < length\n")]},
    {"name": "shape:flag:date-flag-strict", "expect": "R11.3", "edits": [(SH, "    if modified_since and last_modified and last_modified <= modified_since:\n", "    not_newer = bool(modified_since and last_modified and last_modified < modified_since)\n    if not_newer:\n")]},
    {"name": "shape:flag:date-flag-side-swapped", "expect": "R11.3", "edits": [(SH, "    if modified_since and last_modified and last_modified <= modified_since:\n", "    newer = bool(modified_since and last_modified and last_modified > modified_since)\n    if newer:\n")]},
    {"name": "shape:flag:date-flag-also-needs-etag", "expect": "R11.3", "edits": [(SH, "    if modified_since and last_modified and last_modified <= modified_since:\n", "    not_newer = bool(modified_since and last_modified and last_modified <= modified_since and not etag)\n    if not_newer:\n")]},
    {"name": "shape:flag:lm-flag-skips-aware-values", "expect": "R11.3", "edits": [(SH, "    if last_modified is not None:\n        last_modified = _dt_as_utc(", "    has_naive_lm = last_modified is not None and last_modified.tzinfo is None\n    if has_naive_lm:\n        last_modified = _dt_as_utc(")]},
]

# ---- round 4: the is_resource_modified call behind a wrapper (method / module function) shared by the two uses ----
_PROC_DEF = "    def _is_range_request_processable(self, environ: WSGIEnvironment) -> bool:\n"
_PROC_IRM = (
    "            or not is_resource_modified(\n                environ,\n                self.headers.get(\"etag\"),\n                None,\n"
    "                self.headers.get(\"last-modified\"),\n                ignore_if_range=False,\n            )\n"
)
_HLP_BODY = "        return {neg}is_resource_modified(\n            environ,\n            self.headers.get(\"etag\"),\n            None,\n            self.headers.get(\"last-modified\"),\n{flag}        )\n\n"


def _irm_helper(sig: str, flag: str, mc_use: str, proc_use: str, neg: str = "") -> list:
    """both uses of is_resource_modified go through one method `sig`; `flag` = the ignore_if_range argument line of the
    wrapped call ("" = not passed), `mc_use` / `proc_use` = the expressions standing where the calls stood"""
    helper = f"    def {sig} -> bool:\n        \"\"\"Check the request's validators against this response's headers.\"\"\"\n" + _HLP_BODY.format(neg=neg, flag=flag)
    return [
        (RS, _PROC_DEF, helper + _PROC_DEF),
        (RS, _PROC_IRM, f"            or {proc_use}\n"),
        (RS, _MC_IRM, f"            if not is206 and {mc_use}:\n"),
    ]


_FLAG_PASSED = "            ignore_if_range=ignore_if_range,\n"
_MOD_HELPER = (
    "def _validators_changed(response: Response, environ: WSGIEnvironment, ignore_if_range: bool = FLAGDEFAULT) -> bool:\n"
    "    etag = response.headers.get(\"etag\")\n    last_modified = response.headers.get(\"last-modified\")\n"
    "    return is_resource_modified(environ, etag, None, last_modified, ignore_if_range=ignore_if_range)\n\n\n"
)


def _irm_module_helper(default: str, mc_use: str, proc_use: str) -> list:
    return [
        (RS, "class Response(_SansIOResponse):\n", _MOD_HELPER.replace("FLAGDEFAULT", default) + "class Response(_SansIOResponse):\n"),
        (RS, _PROC_IRM, f"            or {proc_use}\n"),
        (RS, _MC_IRM, f"            if not is206 and {mc_use}:\n"),
    ]


TWINS += [
    {"name": "shape:irm-helper-flag-parameter-default-ignores", "edits": _irm_helper("_is_modified(self, environ: WSGIEnvironment, ignore_if_range: bool = True)", _FLAG_PASSED, "not self._is_modified(environ)", "not self._is_modified(environ, ignore_if_range=False)")},
    {"name": "shape:irm-helper-flag-positional-no-default", "edits": _irm_helper("_validators_changed(self, environ: WSGIEnvironment, ignore_if_range: bool)", _FLAG_PASSED, "not self._validators_changed(environ, True)", "not self._validators_changed(environ, False)")},
    {"name": "shape:irm-helper-returns-unmodified", "edits": _irm_helper("_is_unmodified(self, environ: WSGIEnvironment, ignore_if_range: bool = True)", _FLAG_PASSED, "self._is_unmodified(environ)", "self._is_unmodified(environ, False)", neg="not ")},
    {"name": "shape:irm-module-helper-with-locals", "edits": _irm_module_helper("True", "not _validators_changed(self, environ)", "not _validators_changed(self, environ, ignore_if_range=False)")},
    {"name": "shape:irm-helper-only-for-the-304-decision", "edits": [(RS, _PROC_DEF, "    def _is_modified(self, environ: WSGIEnvironment) -> bool:\n" + _HLP_BODY.format(neg="", flag="") + _PROC_DEF), (RS, _MC_IRM, "            if not is206 and not self._is_modified(environ):\n")]},
    {"name": "shape:irm-helper-only-for-if-range", "edits": [(RS, _PROC_DEF, "    def _if_range_failed(self, environ: WSGIEnvironment) -> bool:\n" + _HLP_BODY.format(neg="", flag="            ignore_if_range=False,\n") + _PROC_DEF), (RS, _PROC_IRM, "            or not self._if_range_failed(environ)\n")]},
]
MUTANTS += [
    {"name": "shape:irm-helper-shared-keeps-if-range-flag", "expect": "R11.4", "edits": _irm_helper("_is_modified(self, environ: WSGIEnvironment)", "            ignore_if_range=False,\n", "not self._is_modified(environ)", "not self._is_modified(environ)")},
    {"name": "shape:irm-helper-shared-drops-if-range-flag", "expect": "R11.4", "edits": _irm_helper("_is_modified(self, environ: WSGIEnvironment)", "", "not self._is_modified(environ)", "not self._is_modified(environ)")},
    {"name": "shape:irm-helper-flag-default-evaluates-if-range", "expect": "R11.4", "edits": _irm_helper("_is_modified(self, environ: WSGIEnvironment, ignore_if_range: bool = False)", _FLAG_PASSED, "not self._is_modified(environ)", "not self._is_modified(environ)")},
    {"name": "shape:irm-helper-processable-passes-ignore", "expect": "R11.4", "edits": _irm_helper("_validators_changed(self, environ: WSGIEnvironment, ignore_if_range: bool)", _FLAG_PASSED, "not self._validators_changed(environ, True)", "not self._validators_changed(environ, True)")},
    {"name": "shape:irm-helper-unmodified-polarity-lost", "expect": "R11.4", "edits": _irm_helper("_is_unmodified(self, environ: WSGIEnvironment, ignore_if_range: bool = True)", _FLAG_PASSED, "not self._is_unmodified(environ)", "self._is_unmodified(environ, False)", neg="not ")},
    {"name": "shape:irm-module-helper-flag-never-passed", "expect": "R11.4", "edits": _irm_module_helper("False", "not _validators_changed(self, environ)", "not _validators_changed(self, environ)")},
    {"name": "shape:irm-helper-flag-parameter-ignored", "expect": "R11.4", "edits": _irm_helper("_is_modified(self, environ: WSGIEnvironment, ignore_if_range: bool = True)", "            ignore_if_range=False,\n", "not self._is_modified(environ)", "not self._is_modified(environ, ignore_if_range=False)")},
]

# ---- round 4: which Range headers parse_range_header reads (R11.9, evaluated on a finite family) ----
_PR_SUFFIX = "                begin = _plain_int(item)\n"
_PR_SPLIT = "            begin_str, end_str = item.split(\"-\", 1)\n"
_PR_EMPTY = "                if begin >= end:\n                    return None\n"

MUTANTS += [
    {"name": "range-suffix-length-parsed-after-the-dash", "expect": "R11.9", "edits": [(HT, _PR_SUFFIX, "                begin = -_plain_int(item[1:])\n")]},
    {"name": "range-plain-int-accepts-plus", "expect": "R11.9", "edits": [(IN, '_plain_int_re = re.compile(r"-?\\d+", re.ASCII)', '_plain_int_re = re.compile(r"[-+]?\\d+", re.ASCII)')]},
    {"name": "range-first-position-through-int", "expect": "R11.9", "edits": [(HT, "                begin = _plain_int(begin_str)\n", "                begin = int(begin_str)\n")]},
    {"name": "range-empty-span-admitted", "expect": "R11.9", "edits": [(HT, _PR_EMPTY, "                if begin > end:\n                    return None\n")]},
    {"name": "range-suffix-sign-lost", "expect": "R11.9", "edits": [(HT, _PR_SUFFIX, "                begin = abs(_plain_int(item))\n")]},
    {"name": "range-dashes-stripped-from-last", "expect": "R11.9", "edits": [(HT, "            end_str = end_str.strip()\n", "            end_str = end_str.strip(\" -\")\n")]},
    {"name": "range-unparsable-last-means-open-ended", "expect": "R11.9", "edits": [(HT, "                    end = _plain_int(end_str) + 1\n                except ValueError:\n                    return None\n", "                    end = _plain_int(end_str) + 1\n                except ValueError:\n                    end = None\n")]},
]
TWINS += [
    {"name": "range-suffix-tested-by-first-character", "edits": [(HT, "        if item.startswith(\"-\"):\n            if last_end < 0:", "        if item[:1] == \"-\":\n            if last_end < 0:")]},
    {"name": "range-split-by-partition", "edits": [(HT, _PR_SPLIT, "            begin_str, _, end_str = item.partition(\"-\")\n")]},
    {"name": "range-suffix-length-checked-as-digits", "edits": [(HT, _PR_SUFFIX, "                if not item[1:].strip().isascii() or not item[1:].strip().isdigit():\n                    raise ValueError\n                begin = -int(item[1:])\n")]},
    {"name": "range-positions-parsed-in-one-try", "edits": [(HT, "            try:\n                begin = _plain_int(begin_str)\n            except ValueError:\n                return None\n\n            if begin < last_end or last_end < 0:\n                return None\n", "            try:\n                begin = _plain_int(begin_str)\n                last = _plain_int(end_str) if end_str else None\n            except ValueError:\n                return None\n\n            if begin < last_end or last_end < 0:\n                return None\n")]},
    {"name": "range-empty-span-test-mirrored", "edits": [(HT, _PR_EMPTY, "                if end <= begin:\n                    return None\n")]},
]

# ---- the fix 1675685 (a last position has no sign) reverted / weakened ----
_PR_SIGN_FIX = "                if end_str.startswith(\"-\"):\n                    # _plain_int accepts a sign, a position does not have one\n                    return None\n\n"
MUTANTS += [
    {"name": "range-signed-last-position-fix-reverted", "expect": "R11.9", "edits": [(HT, _PR_SIGN_FIX, "")]},
    {"name": "range-signed-last-position-only-plus-rejected", "expect": "R11.9", "edits": [(HT, "                if end_str.startswith(\"-\"):\n", "                if end_str.startswith(\"+\"):\n")]},
]
TWINS += [
    {"name": "range-signed-last-position-tested-by-first-character", "edits": [(HT, "                if end_str.startswith(\"-\"):\n", "                if end_str[0] == \"-\":\n")]},
]

# ---------------------------------------------------------------------
# stress round (fresh refactorings in ordinary maintainer style that tripped a rule at first, and a defect in each shape)
TWINS += [
    {"name": 'stress-a04-extract-helper', "edits": [
        ('sansio/http.py', '    if etag:\n        etag, _ = unquote_etag(etag)\n\n        if if_range is not None and if_range.etag is not None:\n            unmodified = parse_etags(if_range.etag).contains(etag)\n        else:\n            if_none_match = parse_etags(http_if_none_match)\n            if if_none_match:\n                # https://tools.ietf.org/html/rfc7232#section-3.2\n                # "A recipient MUST use the weak comparison function when comparing\n                # entity-tags for If-None-Match"\n                unmodified = if_none_match.contains_weak(etag)\n\n            # https://tools.ietf.org/html/rfc7232#section-3.1\n            # "Origin server MUST use the strong comparison function when\n            # comparing entity-tags for If-Match"\n            if_match = parse_etags(http_if_match)\n            if if_match:\n                unmodified = not if_match.contains(etag)\n\n    return not unmodified\n', '    if etag:\n        etag, _ = unquote_etag(etag)\n\n        if if_range is not None and if_range.etag is not None:\n            unmodified = parse_etags(if_range.etag).contains(etag)\n        else:\n            unmodified = _etags_unmodified(\n                etag, http_if_none_match, http_if_match, unmodified\n            )\n\n    return not unmodified\n\n\ndef _etags_unmodified(\n    etag: str, http_if_none_match: str | None, http_if_match: str | None, default: bool\n) -> bool:\n    unmodified = default\n    if_none_match = parse_etags(http_if_none_match)\n    if if_none_match:\n        unmodified = if_none_match.contains_weak(etag)\n\n    if_match = parse_etags(http_if_match)\n    if if_match:\n        unmodified = not if_match.contains(etag)\n    return unmodified\n'),
    ]},
    {"name": 'stress-a16-return-expr', "edits": [
        ('sansio/http.py', '    if etag:\n        etag, _ = unquote_etag(etag)\n\n        if if_range is not None and if_range.etag is not None:\n            unmodified = parse_etags(if_range.etag).contains(etag)\n        else:\n            if_none_match = parse_etags(http_if_none_match)\n            if if_none_match:\n                # https://tools.ietf.org/html/rfc7232#section-3.2\n                # "A recipient MUST use the weak comparison function when comparing\n                # entity-tags for If-None-Match"\n                unmodified = if_none_match.contains_weak(etag)\n\n            # https://tools.ietf.org/html/rfc7232#section-3.1\n            # "Origin server MUST use the strong comparison function when\n            # comparing entity-tags for If-Match"\n            if_match = parse_etags(http_if_match)\n            if if_match:\n                unmodified = not if_match.contains(etag)\n\n    return not unmodified\n', '    if etag:\n        etag, _ = unquote_etag(etag)\n\n        if if_range is not None and if_range.etag is not None:\n            unmodified = parse_etags(if_range.etag).contains(etag)\n        else:\n            if_none_match = parse_etags(http_if_none_match)\n            if if_none_match:\n                unmodified = if_none_match.contains_weak(etag)\n\n            if_match = parse_etags(http_if_match)\n            if if_match:\n                unmodified = not if_match.contains(etag)\n\n    modified = not unmodified\n    return modified\n'),
    ]},
    {"name": 'stress-b10-inline-processable', "edits": [
        ('wrappers/response.py', '        if (\n            not accept_ranges\n            or complete_length is None\n            or complete_length == 0\n            or not self._is_range_request_processable(environ)\n        ):\n            return False\n', '        if not accept_ranges or complete_length is None or complete_length == 0:\n            return False\n\n        if "HTTP_RANGE" not in environ:\n            return False\n\n        # ignore the range if the resource changed since the If-Range validator\n        if "HTTP_IF_RANGE" in environ and is_resource_modified(\n            environ,\n            self.headers.get("etag"),\n            None,\n            self.headers.get("last-modified"),\n            ignore_if_range=False,\n        ):\n            return False\n'),
    ]},
    {"name": 'stress-b11-wrapper-get-local', "edits": [
        ('http.py', '    return _sansio_http.is_resource_modified(\n        http_range=environ.get("HTTP_RANGE"),\n        http_if_range=environ.get("HTTP_IF_RANGE"),\n        http_if_modified_since=environ.get("HTTP_IF_MODIFIED_SINCE"),\n        http_if_none_match=environ.get("HTTP_IF_NONE_MATCH"),\n        http_if_match=environ.get("HTTP_IF_MATCH"),\n        etag=etag,\n        data=data,\n        last_modified=last_modified,\n        ignore_if_range=ignore_if_range,\n    )\n', '    get = environ.get\n    return _sansio_http.is_resource_modified(\n        http_range=get("HTTP_RANGE"),\n        http_if_range=get("HTTP_IF_RANGE"),\n        http_if_modified_since=get("HTTP_IF_MODIFIED_SINCE"),\n        http_if_none_match=get("HTTP_IF_NONE_MATCH"),\n        http_if_match=get("HTTP_IF_MATCH"),\n        etag=etag,\n        data=data,\n        last_modified=last_modified,\n        ignore_if_range=ignore_if_range,\n    )\n'),
    ]},
    {"name": 'stress-b13-validator-locals', "edits": [
        ('wrappers/response.py', '            is206 = self._process_range_request(environ, complete_length, accept_ranges)\n            if not is206 and not is_resource_modified(\n                environ,\n                self.headers.get("etag"),\n                None,\n                self.headers.get("last-modified"),\n            ):\n                if parse_etags(environ.get("HTTP_IF_MATCH")):\n                    self.status_code = 412\n                else:\n                    self.status_code = 304\n', '            is206 = self._process_range_request(environ, complete_length, accept_ranges)\n            etag = self.headers.get("etag")\n            last_modified = self.headers.get("last-modified")\n            if not is206 and not is_resource_modified(\n                environ, etag, None, last_modified\n            ):\n                if parse_etags(environ.get("HTTP_IF_MATCH")):\n                    self.status_code = 412\n                else:\n                    self.status_code = 304\n'),
    ]},
    {"name": 'stress-b20-status-helper', "edits": [
        ('wrappers/response.py', '            is206 = self._process_range_request(environ, complete_length, accept_ranges)\n            if not is206 and not is_resource_modified(\n                environ,\n                self.headers.get("etag"),\n                None,\n                self.headers.get("last-modified"),\n            ):\n                if parse_etags(environ.get("HTTP_IF_MATCH")):\n                    self.status_code = 412\n                else:\n                    self.status_code = 304\n', '            is206 = self._process_range_request(environ, complete_length, accept_ranges)\n            if not is206 and not is_resource_modified(\n                environ,\n                self.headers.get("etag"),\n                None,\n                self.headers.get("last-modified"),\n            ):\n                self.status_code = self._precondition_status(environ)\n'),
        ('wrappers/response.py', '    def _is_range_request_processable(self, environ: WSGIEnvironment) -> bool:', '    @staticmethod\n    def _precondition_status(environ: WSGIEnvironment) -> int:\n        if parse_etags(environ.get("HTTP_IF_MATCH")):\n            return 412\n        return 304\n\n    def _is_range_request_processable(self, environ: WSGIEnvironment) -> bool:'),
    ]},
    {"name": 'stress-c08-end-local', "edits": [
        ('wsgi.py', '        if self.end_byte is not None and self.read_length >= self.end_byte:\n            self.end_reached = True\n            return chunk[: self.end_byte - contextual_read_length]\n        return chunk\n', '        end = self.end_byte\n        if end is not None and self.read_length >= end:\n            self.end_reached = True\n            return chunk[: end - contextual_read_length]\n        return chunk\n'),
    ]},
    {"name": 'stress-c09-body-local', "edits": [
        ('wsgi.py', '    def _first_iteration(self) -> tuple[bytes | None, int]:\n        chunk = None\n        if self.seekable:\n            self.iterable.seek(self.start_byte)  # type: ignore\n            self.read_length = self.iterable.tell()  # type: ignore\n            contextual_read_length = self.read_length\n        else:\n            while self.read_length <= self.start_byte:\n                chunk = self._next_chunk()\n            if chunk is not None:\n                chunk = chunk[self.start_byte - self.read_length :]\n            contextual_read_length = self.start_byte\n        return chunk, contextual_read_length\n', '    def _first_iteration(self) -> tuple[bytes | None, int]:\n        chunk = None\n        if self.seekable:\n            body = self.iterable\n            body.seek(self.start_byte)  # type: ignore\n            self.read_length = body.tell()  # type: ignore\n            contextual_read_length = self.read_length\n        else:\n            while self.read_length <= self.start_byte:\n                chunk = self._next_chunk()\n            if chunk is not None:\n                chunk = chunk[self.start_byte - self.read_length :]\n            contextual_read_length = self.start_byte\n        return chunk, contextual_read_length\n'),
    ]},
    {"name": 'stress-g01-etag-section-helper', "edits": [
        ('sansio/http.py', '    if etag:\n        etag, _ = unquote_etag(etag)\n\n        if if_range is not None and if_range.etag is not None:\n            unmodified = parse_etags(if_range.etag).contains(etag)\n        else:\n            if_none_match = parse_etags(http_if_none_match)\n            if if_none_match:\n                # https://tools.ietf.org/html/rfc7232#section-3.2\n                # "A recipient MUST use the weak comparison function when comparing\n                # entity-tags for If-None-Match"\n                unmodified = if_none_match.contains_weak(etag)\n\n            # https://tools.ietf.org/html/rfc7232#section-3.1\n            # "Origin server MUST use the strong comparison function when\n            # comparing entity-tags for If-Match"\n            if_match = parse_etags(http_if_match)\n            if if_match:\n                unmodified = not if_match.contains(etag)\n\n    return not unmodified\n', '    if etag:\n        unmodified = _validators_unmodified(\n            etag, if_range, http_if_none_match, http_if_match, unmodified\n        )\n\n    return not unmodified\n\n\ndef _validators_unmodified(\n    etag: str,\n    if_range: t.Any,\n    http_if_none_match: str | None,\n    http_if_match: str | None,\n    unmodified: bool,\n) -> bool:\n    etag, _ = unquote_etag(etag)\n\n    if if_range is not None and if_range.etag is not None:\n        return parse_etags(if_range.etag).contains(etag)\n\n    if_none_match = parse_etags(http_if_none_match)\n    if if_none_match:\n        unmodified = if_none_match.contains_weak(etag)\n\n    if_match = parse_etags(http_if_match)\n    if if_match:\n        unmodified = not if_match.contains(etag)\n\n    return unmodified\n'),
    ]},
    {"name": 'stress-g04-return-not-helper', "edits": [
        ('sansio/http.py', '    if etag:\n        etag, _ = unquote_etag(etag)\n\n        if if_range is not None and if_range.etag is not None:\n            unmodified = parse_etags(if_range.etag).contains(etag)\n        else:\n            if_none_match = parse_etags(http_if_none_match)\n            if if_none_match:\n                # https://tools.ietf.org/html/rfc7232#section-3.2\n                # "A recipient MUST use the weak comparison function when comparing\n                # entity-tags for If-None-Match"\n                unmodified = if_none_match.contains_weak(etag)\n\n            # https://tools.ietf.org/html/rfc7232#section-3.1\n            # "Origin server MUST use the strong comparison function when\n            # comparing entity-tags for If-Match"\n            if_match = parse_etags(http_if_match)\n            if if_match:\n                unmodified = not if_match.contains(etag)\n\n    return not unmodified\n', '    if not etag:\n        return not unmodified\n\n    return not _validators_unmodified(\n        etag, if_range, http_if_none_match, http_if_match, unmodified\n    )\n\n\ndef _validators_unmodified(\n    etag: str,\n    if_range: t.Any,\n    http_if_none_match: str | None,\n    http_if_match: str | None,\n    unmodified: bool,\n) -> bool:\n    etag, _ = unquote_etag(etag)\n\n    if if_range is not None and if_range.etag is not None:\n        return parse_etags(if_range.etag).contains(etag)\n\n    if_none_match = parse_etags(http_if_none_match)\n    if if_none_match:\n        unmodified = if_none_match.contains_weak(etag)\n\n    if_match = parse_etags(http_if_match)\n    if if_match:\n        unmodified = not if_match.contains(etag)\n\n    return unmodified\n'),
    ]},
    {"name": 'stress-e01-headers-alias', "edits": [
        ('wrappers/response.py', '            is206 = self._process_range_request(environ, complete_length, accept_ranges)\n            if not is206 and not is_resource_modified(\n                environ,\n                self.headers.get("etag"),\n                None,\n                self.headers.get("last-modified"),\n            ):\n                if parse_etags(environ.get("HTTP_IF_MATCH")):\n                    self.status_code = 412\n                else:\n                    self.status_code = 304\n', '            is206 = self._process_range_request(environ, complete_length, accept_ranges)\n            headers = self.headers\n            if not is206 and not is_resource_modified(\n                environ,\n                headers.get("etag"),\n                None,\n                headers.get("last-modified"),\n            ):\n                if parse_etags(environ.get("HTTP_IF_MATCH")):\n                    self.status_code = 412\n                else:\n                    self.status_code = 304\n'),
    ]},
    {"name": 'stress-e03-processable-locals', "edits": [
        ('wrappers/response.py', '        return (\n            "HTTP_IF_RANGE" not in environ\n            or not is_resource_modified(\n                environ,\n                self.headers.get("etag"),\n                None,\n                self.headers.get("last-modified"),\n                ignore_if_range=False,\n            )\n        ) and "HTTP_RANGE" in environ\n', '        etag = self.headers.get("etag")\n        last_modified = self.headers.get("last-modified")\n        return (\n            "HTTP_IF_RANGE" not in environ\n            or not is_resource_modified(\n                environ, etag, None, last_modified, ignore_if_range=False\n            )\n        ) and "HTTP_RANGE" in environ\n'),
    ]},
    {"name": 'stress-e04-status-local', "edits": [
        ('wrappers/response.py', '            is206 = self._process_range_request(environ, complete_length, accept_ranges)\n            if not is206 and not is_resource_modified(\n                environ,\n                self.headers.get("etag"),\n                None,\n                self.headers.get("last-modified"),\n            ):\n                if parse_etags(environ.get("HTTP_IF_MATCH")):\n                    self.status_code = 412\n                else:\n                    self.status_code = 304\n', '            is206 = self._process_range_request(environ, complete_length, accept_ranges)\n            if not is206 and not is_resource_modified(\n                environ,\n                self.headers.get("etag"),\n                None,\n                self.headers.get("last-modified"),\n            ):\n                if parse_etags(environ.get("HTTP_IF_MATCH")):\n                    status = 412\n                else:\n                    status = 304\n                self.status_code = status\n'),
    ]},
    {"name": 'stress-e12-range-header-local', "edits": [
        ('wrappers/response.py', '        parsed_range = parse_range_header(environ.get("HTTP_RANGE"))\n', '        range_header = environ.get("HTTP_RANGE")\n        parsed_range = parse_range_header(range_header)\n'),
    ]},
    {"name": 'stress-e22-end-local-init', "edits": [
        ('wsgi.py', '        self.end_byte = None\n\n        if byte_range is not None:\n            self.end_byte = start_byte + byte_range\n', '        end_byte = None\n        if byte_range is not None:\n            end_byte = start_byte + byte_range\n        self.end_byte = end_byte\n'),
    ]},
    {"name": 'stress-e24-processable-headers-alias', "edits": [
        ('wrappers/response.py', '        return (\n            "HTTP_IF_RANGE" not in environ\n            or not is_resource_modified(\n                environ,\n                self.headers.get("etag"),\n                None,\n                self.headers.get("last-modified"),\n                ignore_if_range=False,\n            )\n        ) and "HTTP_RANGE" in environ\n', '        headers = self.headers\n        return (\n            "HTTP_IF_RANGE" not in environ\n            or not is_resource_modified(\n                environ,\n                headers.get("etag"),\n                None,\n                headers.get("last-modified"),\n                ignore_if_range=False,\n            )\n        ) and "HTTP_RANGE" in environ\n'),
    ]},
    {"name": 'stress-agent1-r03', "edits": [
        ('sansio/http.py', '_etag_re = re.compile(r\'([Ww]/)?(?:"(.*?)"|(.*?))(?:\\s*,\\s*|$)\')\n\n\ndef is_resource_modified(\n    http_range: str | None = None,\n    http_if_range: str | None = None,\n', '_etag_re = re.compile(r\'([Ww]/)?(?:"(.*?)"|(.*?))(?:\\s*,\\s*|$)\')\n\n\ndef _normalize_last_modified(value: datetime | str | None) -> datetime | None:\n    if isinstance(value, str):\n        value = parse_date(value)\n\n    if value is None:\n        return None\n\n    # HTTP doesn\'t use microsecond, remove it to avoid false positive\n    # comparisons. Mark naive datetimes as UTC.\n    return _dt_as_utc(value.replace(microsecond=0))\n\n\ndef is_resource_modified(\n    http_range: str | None = None,\n    http_if_range: str | None = None,\n'),
        ('sansio/http.py', '\n    .. versionadded:: 2.2\n    """\n    if etag is None and data is not None:\n        etag = generate_etag(data)\n    elif data is not None:\n        raise TypeError("both data and etag given")\n\n    unmodified = False\n    if isinstance(last_modified, str):\n        last_modified = parse_date(last_modified)\n\n    # HTTP doesn\'t use microsecond, remove it to avoid false positive\n    # comparisons. Mark naive datetimes as UTC.\n    if last_modified is not None:\n        last_modified = _dt_as_utc(last_modified.replace(microsecond=0))\n\n    if_range = None\n    if not ignore_if_range and http_range is not None:\n        # https://tools.ietf.org/html/rfc7233#section-3.2\n        # A server MUST ignore an If-Range header field received in a request\n        # that does not contain a Range header field.\n        if_range = parse_if_range_header(http_if_range)\n\n    if if_range is not None and if_range.date is not None:\n        modified_since: datetime | None = if_range.date\n', '\n    .. versionadded:: 2.2\n    """\n    if data is not None:\n        if etag is not None:\n            raise TypeError("both data and etag given")\n\n        etag = generate_etag(data)\n\n    unmodified = False\n    last_modified = _normalize_last_modified(last_modified)\n\n    # https://tools.ietf.org/html/rfc7233#section-3.2\n    # A server MUST ignore an If-Range header field received in a request\n    # that does not contain a Range header field.\n    if_range = (\n        parse_if_range_header(http_if_range)\n        if not ignore_if_range and http_range is not None\n        else None\n    )\n\n    if if_range is not None and if_range.date is not None:\n        modified_since: datetime | None = if_range.date\n'),
    ]},
    {"name": 'stress-agent1-r05', "edits": [
        ('http.py', '    return str(age)\n\n\ndef is_resource_modified(\n    environ: WSGIEnvironment,\n    etag: str | None = None,\n', '    return str(age)\n\n\n#: Keyword arguments of the sans-IO ``is_resource_modified`` and the WSGI\n#: environ key each one is read from.\n_conditional_environ_keys = {\n    "http_range": "HTTP_RANGE",\n    "http_if_range": "HTTP_IF_RANGE",\n    "http_if_modified_since": "HTTP_IF_MODIFIED_SINCE",\n    "http_if_none_match": "HTTP_IF_NONE_MATCH",\n    "http_if_match": "HTTP_IF_MATCH",\n}\n\n\ndef is_resource_modified(\n    environ: WSGIEnvironment,\n    etag: str | None = None,\n'),
        ('http.py', '    .. versionchanged:: 1.0.0\n        The check is run for methods other than ``GET`` and ``HEAD``.\n    """\n    return _sansio_http.is_resource_modified(\n        http_range=environ.get("HTTP_RANGE"),\n        http_if_range=environ.get("HTTP_IF_RANGE"),\n        http_if_modified_since=environ.get("HTTP_IF_MODIFIED_SINCE"),\n        http_if_none_match=environ.get("HTTP_IF_NONE_MATCH"),\n        http_if_match=environ.get("HTTP_IF_MATCH"),\n        etag=etag,\n        data=data,\n        last_modified=last_modified,\n', '    .. versionchanged:: 1.0.0\n        The check is run for methods other than ``GET`` and ``HEAD``.\n    """\n    request_headers = {\n        name: environ.get(key) for name, key in _conditional_environ_keys.items()\n    }\n    return _sansio_http.is_resource_modified(\n        **request_headers,\n        etag=etag,\n        data=data,\n        last_modified=last_modified,\n'),
        ('wrappers/response.py', '        """Return ``True`` if `Range` header is present and if underlying\n        resource is considered unchanged when compared with `If-Range` header.\n        """\n        return (\n            "HTTP_IF_RANGE" not in environ\n            or not is_resource_modified(\n                environ,\n                self.headers.get("etag"),\n                None,\n                self.headers.get("last-modified"),\n                ignore_if_range=False,\n            )\n        ) and "HTTP_RANGE" in environ\n\n    def _process_range_request(\n        self,\n', '        """Return ``True`` if `Range` header is present and if underlying\n        resource is considered unchanged when compared with `If-Range` header.\n        """\n        if "HTTP_IF_RANGE" in environ and is_resource_modified(\n            environ,\n            self.headers.get("etag"),\n            None,\n            self.headers.get("last-modified"),\n            ignore_if_range=False,\n        ):\n            # The validator in If-Range no longer matches the resource.\n            return False\n\n        return "HTTP_RANGE" in environ\n\n    def _process_range_request(\n        self,\n'),
    ]},
    {"name": 'stress-agent1-r06', "edits": [
        ('wrappers/response.py', '        """\n        from ..exceptions import RequestedRangeNotSatisfiable\n\n        if (\n            not accept_ranges\n            or complete_length is None\n            or complete_length == 0\n            or not self._is_range_request_processable(environ)\n        ):\n            return False\n\n        if accept_ranges is True:\n            accept_ranges = "bytes"\n\n        parsed_range = parse_range_header(environ.get("HTTP_RANGE"))\n\n        if parsed_range is None:\n            raise RequestedRangeNotSatisfiable(complete_length)\n\n        range_tuple = parsed_range.range_for_length(complete_length)\n        content_range_header = parsed_range.to_content_range_header(complete_length)\n\n        if range_tuple is None or content_range_header is None:\n            raise RequestedRangeNotSatisfiable(complete_length)\n\n        content_length = range_tuple[1] - range_tuple[0]\n        self.headers["Content-Length"] = str(content_length)\n        self.headers["Accept-Ranges"] = accept_ranges\n        self.content_range = content_range_header  # type: ignore\n        self.status_code = 206\n        self._wrap_range_response(range_tuple[0], content_length)\n        return True\n\n    def make_conditional(\n', '        """\n        from ..exceptions import RequestedRangeNotSatisfiable\n\n        # Ranges are not enabled, or there is no (known) content to slice.\n        if not accept_ranges or complete_length in (None, 0):\n            return False\n\n        if not self._is_range_request_processable(environ):\n            return False\n\n        if (parsed_range := parse_range_header(environ.get("HTTP_RANGE"))) is None:\n            raise RequestedRangeNotSatisfiable(complete_length)\n\n        byte_range = parsed_range.range_for_length(complete_length)\n        content_range_header = parsed_range.to_content_range_header(complete_length)\n\n        if byte_range is None or content_range_header is None:\n            raise RequestedRangeNotSatisfiable(complete_length)\n\n        start, stop = byte_range\n        content_length = stop - start\n        self.headers["Content-Length"] = str(content_length)\n        self.headers["Accept-Ranges"] = (\n            "bytes" if accept_ranges is True else accept_ranges\n        )\n        self.content_range = content_range_header  # type: ignore\n        self.status_code = 206\n        self._wrap_range_response(start, content_length)\n        return True\n\n    def make_conditional(\n'),
    ]},
    {"name": 'stress-agent2-s04', "edits": [
        ('wrappers/response.py', '            # wsgiref.\n            if "date" not in self.headers:\n                self.headers["Date"] = http_date()\n            is206 = self._process_range_request(environ, complete_length, accept_ranges)\n            if not is206 and not is_resource_modified(\n                environ,\n                self.headers.get("etag"),\n                None,\n                self.headers.get("last-modified"),\n            ):\n                if parse_etags(environ.get("HTTP_IF_MATCH")):\n                    self.status_code = 412\n                else:\n                    self.status_code = 304\n            if (\n                self.automatically_set_content_length\n                and "content-length" not in self.headers\n', '            # wsgiref.\n            if "date" not in self.headers:\n                self.headers["Date"] = http_date()\n            if not self._process_range_request(environ, complete_length, accept_ranges):\n                self._apply_preconditions(environ)\n            if (\n                self.automatically_set_content_length\n                and "content-length" not in self.headers\n'),
        ('wrappers/response.py', '                    self.headers["Content-Length"] = str(length)\n        return self\n\n    def add_etag(self, overwrite: bool = False, weak: bool = False) -> None:\n        """Add an etag for the current response if there is none yet.\n\n', '                    self.headers["Content-Length"] = str(length)\n        return self\n\n    def _apply_preconditions(self, environ: WSGIEnvironment) -> None:\n        """Set the status to 412 or 304 if the conditional headers of the\n        request say that the client\'s view of the resource is still current.\n        """\n        etag = self.headers.get("etag")\n        last_modified = self.headers.get("last-modified")\n\n        if is_resource_modified(environ, etag, None, last_modified):\n            return\n\n        if parse_etags(environ.get("HTTP_IF_MATCH")):\n            self.status_code = 412\n        else:\n            self.status_code = 304\n\n    def add_etag(self, overwrite: bool = False, weak: bool = False) -> None:\n        """Add an etag for the current response if there is none yet.\n\n'),
    ]},
    {"name": 'stress-agent2-s05', "edits": [
        ('http.py', '    .. versionchanged:: 1.0.0\n        The check is run for methods other than ``GET`` and ``HEAD``.\n    """\n    return _sansio_http.is_resource_modified(\n        http_range=environ.get("HTTP_RANGE"),\n        http_if_range=environ.get("HTTP_IF_RANGE"),\n        http_if_modified_since=environ.get("HTTP_IF_MODIFIED_SINCE"),\n        http_if_none_match=environ.get("HTTP_IF_NONE_MATCH"),\n        http_if_match=environ.get("HTTP_IF_MATCH"),\n        etag=etag,\n        data=data,\n        last_modified=last_modified,\n', '    .. versionchanged:: 1.0.0\n        The check is run for methods other than ``GET`` and ``HEAD``.\n    """\n    get = environ.get\n    return _sansio_http.is_resource_modified(\n        get("HTTP_RANGE"),\n        get("HTTP_IF_RANGE"),\n        get("HTTP_IF_MODIFIED_SINCE"),\n        get("HTTP_IF_NONE_MATCH"),\n        get("HTTP_IF_MATCH"),\n        etag=etag,\n        data=data,\n        last_modified=last_modified,\n'),
        ('wrappers/response.py', '        """Return ``True`` if `Range` header is present and if underlying\n        resource is considered unchanged when compared with `If-Range` header.\n        """\n        return (\n            "HTTP_IF_RANGE" not in environ\n            or not is_resource_modified(\n                environ,\n                self.headers.get("etag"),\n                None,\n                self.headers.get("last-modified"),\n                ignore_if_range=False,\n            )\n        ) and "HTTP_RANGE" in environ\n\n    def _process_range_request(\n        self,\n', '        """Return ``True`` if `Range` header is present and if underlying\n        resource is considered unchanged when compared with `If-Range` header.\n        """\n        if "HTTP_RANGE" not in environ:\n            return False\n\n        if "HTTP_IF_RANGE" not in environ:\n            return True\n\n        headers = self.headers\n        return not is_resource_modified(\n            environ,\n            etag=headers.get("etag"),\n            last_modified=headers.get("last-modified"),\n            ignore_if_range=False,\n        )\n\n    def _process_range_request(\n        self,\n'),
    ]},
    {"name": 'stress-agent2-s06', "edits": [
        ('wrappers/response.py', '        """\n        from ..exceptions import RequestedRangeNotSatisfiable\n\n        if (\n            not accept_ranges\n            or complete_length is None\n            or complete_length == 0\n            or not self._is_range_request_processable(environ)\n        ):\n            return False\n\n        if accept_ranges is True:\n            accept_ranges = "bytes"\n\n        parsed_range = parse_range_header(environ.get("HTTP_RANGE"))\n\n        if parsed_range is None:\n            raise RequestedRangeNotSatisfiable(complete_length)\n\n        range_tuple = parsed_range.range_for_length(complete_length)\n        content_range_header = parsed_range.to_content_range_header(complete_length)\n\n        if range_tuple is None or content_range_header is None:\n            raise RequestedRangeNotSatisfiable(complete_length)\n\n        content_length = range_tuple[1] - range_tuple[0]\n        self.headers["Content-Length"] = str(content_length)\n        self.headers["Accept-Ranges"] = accept_ranges\n        self.content_range = content_range_header  # type: ignore\n        self.status_code = 206\n        self._wrap_range_response(range_tuple[0], content_length)\n        return True\n\n    def make_conditional(\n', '        """\n        from ..exceptions import RequestedRangeNotSatisfiable\n\n        if not (\n            accept_ranges\n            and complete_length\n            and self._is_range_request_processable(environ)\n        ):\n            return False\n\n        parsed_range = parse_range_header(environ.get("HTTP_RANGE"))\n        range_tuple = content_range_header = None\n\n        if parsed_range is not None:\n            range_tuple = parsed_range.range_for_length(complete_length)\n            content_range_header = parsed_range.to_content_range_header(complete_length)\n\n        if range_tuple is None or content_range_header is None:\n            raise RequestedRangeNotSatisfiable(complete_length)\n\n        start = range_tuple[0]\n        content_length = range_tuple[1] - start\n        headers = self.headers\n        headers["Content-Length"] = str(content_length)\n        headers["Accept-Ranges"] = "bytes" if accept_ranges is True else accept_ranges\n        self.content_range = content_range_header  # type: ignore\n        self.status_code = 206\n        self._wrap_range_response(start, content_length)\n        return True\n\n    def make_conditional(\n'),
    ]},
    {"name": 'stress-agent2-s08', "edits": [
        ('wsgi.py', '    def _next(self) -> bytes:\n        if self.end_reached:\n            raise StopIteration()\n        chunk = None\n        contextual_read_length = self.read_length\n        if self.read_length == 0:\n            chunk, contextual_read_length = self._first_iteration()\n        if chunk is None:\n            chunk = self._next_chunk()\n        if self.end_byte is not None and self.read_length >= self.end_byte:\n            self.end_reached = True\n            return chunk[: self.end_byte - contextual_read_length]\n        return chunk\n\n    def __next__(self) -> bytes:\n        chunk = self._next()\n', '    def _next(self) -> bytes:\n        if self.end_reached:\n            raise StopIteration()\n\n        if self.read_length == 0:\n            chunk, chunk_start = self._first_iteration()\n        else:\n            chunk, chunk_start = None, self.read_length\n\n        if chunk is None:\n            chunk = self._next_chunk()\n\n        end_byte = self.end_byte\n\n        if end_byte is None or self.read_length < end_byte:\n            return chunk\n\n        # This chunk holds the last byte of the range, cut off what follows.\n        self.end_reached = True\n        return chunk[: end_byte - chunk_start]\n\n    def __next__(self) -> bytes:\n        chunk = self._next()\n'),
    ]},
]
MUTANTS += [
    {"name": 'stress-a16-copy-not-dropped', "expect": 'R11.1', "edits": [
        ('sansio/http.py', '    if etag:\n        etag, _ = unquote_etag(etag)\n\n        if if_range is not None and if_range.etag is not None:\n            unmodified = parse_etags(if_range.etag).contains(etag)\n        else:\n            if_none_match = parse_etags(http_if_none_match)\n            if if_none_match:\n                # https://tools.ietf.org/html/rfc7232#section-3.2\n                # "A recipient MUST use the weak comparison function when comparing\n                # entity-tags for If-None-Match"\n                unmodified = if_none_match.contains_weak(etag)\n\n            # https://tools.ietf.org/html/rfc7232#section-3.1\n            # "Origin server MUST use the strong comparison function when\n            # comparing entity-tags for If-Match"\n            if_match = parse_etags(http_if_match)\n            if if_match:\n                unmodified = not if_match.contains(etag)\n\n    return not unmodified\n', '    if etag:\n        etag, _ = unquote_etag(etag)\n\n        if if_range is not None and if_range.etag is not None:\n            unmodified = parse_etags(if_range.etag).contains(etag)\n        else:\n            if_none_match = parse_etags(http_if_none_match)\n            if if_none_match:\n                unmodified = if_none_match.contains_weak(etag)\n\n            if_match = parse_etags(http_if_match)\n            if if_match:\n                unmodified = not if_match.contains(etag)\n\n    modified = unmodified\n    return modified\n'),
    ]},
    {"name": 'stress-b13-locals-swapped', "expect": 'R11.4', "edits": [
        ('wrappers/response.py', '            is206 = self._process_range_request(environ, complete_length, accept_ranges)\n            if not is206 and not is_resource_modified(\n                environ,\n                self.headers.get("etag"),\n                None,\n                self.headers.get("last-modified"),\n            ):\n                if parse_etags(environ.get("HTTP_IF_MATCH")):\n                    self.status_code = 412\n                else:\n                    self.status_code = 304\n', '            is206 = self._process_range_request(environ, complete_length, accept_ranges)\n            etag = self.headers.get("etag")\n            last_modified = self.headers.get("last-modified")\n            if not is206 and not is_resource_modified(\n                environ, last_modified, None, etag\n            ):\n                if parse_etags(environ.get("HTTP_IF_MATCH")):\n                    self.status_code = 412\n                else:\n                    self.status_code = 304\n'),
    ]},
    {"name": 'stress-b13-local-wrong-header', "expect": 'R11.4', "edits": [
        ('wrappers/response.py', '            is206 = self._process_range_request(environ, complete_length, accept_ranges)\n            if not is206 and not is_resource_modified(\n                environ,\n                self.headers.get("etag"),\n                None,\n                self.headers.get("last-modified"),\n            ):\n                if parse_etags(environ.get("HTTP_IF_MATCH")):\n                    self.status_code = 412\n                else:\n                    self.status_code = 304\n', '            is206 = self._process_range_request(environ, complete_length, accept_ranges)\n            etag = self.headers.get("content-md5")\n            last_modified = self.headers.get("last-modified")\n            if not is206 and not is_resource_modified(\n                environ, etag, None, last_modified\n            ):\n                if parse_etags(environ.get("HTTP_IF_MATCH")):\n                    self.status_code = 412\n                else:\n                    self.status_code = 304\n'),
    ]},
    {"name": 'stress-b11-wrong-key', "expect": 'R11.1', "edits": [
        ('http.py', '    return _sansio_http.is_resource_modified(\n        http_range=environ.get("HTTP_RANGE"),\n        http_if_range=environ.get("HTTP_IF_RANGE"),\n        http_if_modified_since=environ.get("HTTP_IF_MODIFIED_SINCE"),\n        http_if_none_match=environ.get("HTTP_IF_NONE_MATCH"),\n        http_if_match=environ.get("HTTP_IF_MATCH"),\n        etag=etag,\n        data=data,\n        last_modified=last_modified,\n        ignore_if_range=ignore_if_range,\n    )\n', '    get = environ.get\n    return _sansio_http.is_resource_modified(\n        http_range=get("HTTP_RANGE"),\n        http_if_range=get("HTTP_IF_RANGE"),\n        http_if_modified_since=get("HTTP_IF_MODIFIED_SINCE"),\n        http_if_none_match=get("HTTP_IF_NONE_MATCH"),\n        http_if_match=get("HTTP_IF_NONE_MATCH"),\n        etag=etag,\n        data=data,\n        last_modified=last_modified,\n        ignore_if_range=ignore_if_range,\n    )\n'),
    ]},
    {"name": 'stress-b11-other-mapping', "expect": 'R11.1', "edits": [
        ('http.py', '    return _sansio_http.is_resource_modified(\n        http_range=environ.get("HTTP_RANGE"),\n        http_if_range=environ.get("HTTP_IF_RANGE"),\n        http_if_modified_since=environ.get("HTTP_IF_MODIFIED_SINCE"),\n        http_if_none_match=environ.get("HTTP_IF_NONE_MATCH"),\n        http_if_match=environ.get("HTTP_IF_MATCH"),\n        etag=etag,\n        data=data,\n        last_modified=last_modified,\n        ignore_if_range=ignore_if_range,\n    )\n', '    get = os.environ.get\n    return _sansio_http.is_resource_modified(\n        http_range=get("HTTP_RANGE"),\n        http_if_range=get("HTTP_IF_RANGE"),\n        http_if_modified_since=get("HTTP_IF_MODIFIED_SINCE"),\n        http_if_none_match=get("HTTP_IF_NONE_MATCH"),\n        http_if_match=get("HTTP_IF_MATCH"),\n        etag=etag,\n        data=data,\n        last_modified=last_modified,\n        ignore_if_range=ignore_if_range,\n    )\n'),
    ]},
    {"name": 'stress-b20-helper-swapped', "expect": 'R11.4', "edits": [
        ('wrappers/response.py', '            is206 = self._process_range_request(environ, complete_length, accept_ranges)\n            if not is206 and not is_resource_modified(\n                environ,\n                self.headers.get("etag"),\n                None,\n                self.headers.get("last-modified"),\n            ):\n                if parse_etags(environ.get("HTTP_IF_MATCH")):\n                    self.status_code = 412\n                else:\n                    self.status_code = 304\n', '            is206 = self._process_range_request(environ, complete_length, accept_ranges)\n            if not is206 and not is_resource_modified(\n                environ,\n                self.headers.get("etag"),\n                None,\n                self.headers.get("last-modified"),\n            ):\n                self.status_code = self._precondition_status(environ)\n'),
        ('wrappers/response.py', '    def _is_range_request_processable(self, environ: WSGIEnvironment) -> bool:', '    @staticmethod\n    def _precondition_status(environ: WSGIEnvironment) -> int:\n        if parse_etags(environ.get("HTTP_IF_MATCH")):\n            return 304\n        return 412\n\n    def _is_range_request_processable(self, environ: WSGIEnvironment) -> bool:'),
    ]},
    {"name": 'stress-b20-helper-other-header', "expect": 'R11.4', "edits": [
        ('wrappers/response.py', '            is206 = self._process_range_request(environ, complete_length, accept_ranges)\n            if not is206 and not is_resource_modified(\n                environ,\n                self.headers.get("etag"),\n                None,\n                self.headers.get("last-modified"),\n            ):\n                if parse_etags(environ.get("HTTP_IF_MATCH")):\n                    self.status_code = 412\n                else:\n                    self.status_code = 304\n', '            is206 = self._process_range_request(environ, complete_length, accept_ranges)\n            if not is206 and not is_resource_modified(\n                environ,\n                self.headers.get("etag"),\n                None,\n                self.headers.get("last-modified"),\n            ):\n                self.status_code = self._precondition_status(environ)\n'),
        ('wrappers/response.py', '    def _is_range_request_processable(self, environ: WSGIEnvironment) -> bool:', '    @staticmethod\n    def _precondition_status(environ: WSGIEnvironment) -> int:\n        if parse_etags(environ.get("HTTP_IF_NONE_MATCH")):\n            return 412\n        return 304\n\n    def _is_range_request_processable(self, environ: WSGIEnvironment) -> bool:'),
    ]},
    {"name": 'stress-b10-polarity', "expect": 'R11.4', "edits": [
        ('wrappers/response.py', '        if (\n            not accept_ranges\n            or complete_length is None\n            or complete_length == 0\n            or not self._is_range_request_processable(environ)\n        ):\n            return False\n', '        if not accept_ranges or complete_length is None or complete_length == 0:\n            return False\n\n        if "HTTP_RANGE" not in environ:\n            return False\n\n        # ignore the range if the resource changed since the If-Range validator\n        if "HTTP_IF_RANGE" in environ and not is_resource_modified(\n            environ,\n            self.headers.get("etag"),\n            None,\n            self.headers.get("last-modified"),\n            ignore_if_range=False,\n        ):\n            return False\n'),
    ]},
    {"name": 'stress-b10-ignores-if-range', "expect": 'R11.4', "edits": [
        ('wrappers/response.py', '        if (\n            not accept_ranges\n            or complete_length is None\n            or complete_length == 0\n            or not self._is_range_request_processable(environ)\n        ):\n            return False\n', '        if not accept_ranges or complete_length is None or complete_length == 0:\n            return False\n\n        if "HTTP_RANGE" not in environ:\n            return False\n\n        # ignore the range if the resource changed since the If-Range validator\n        if "HTTP_IF_RANGE" in environ and is_resource_modified(\n            environ,\n            self.headers.get("etag"),\n            None,\n            self.headers.get("last-modified"),\n        ):\n            return False\n'),
    ]},
    {"name": 'stress-b10-no-range-check', "expect": 'R11.4', "edits": [
        ('wrappers/response.py', '        if (\n            not accept_ranges\n            or complete_length is None\n            or complete_length == 0\n            or not self._is_range_request_processable(environ)\n        ):\n            return False\n', '        if not accept_ranges or complete_length is None or complete_length == 0:\n            return False\n\n        # ignore the range if the resource changed since the If-Range validator\n        if "HTTP_IF_RANGE" in environ and is_resource_modified(\n            environ,\n            self.headers.get("etag"),\n            None,\n            self.headers.get("last-modified"),\n            ignore_if_range=False,\n        ):\n            return False\n'),
    ]},
    {"name": 'stress-b10-if-range-absent-only', "expect": 'R11.4', "edits": [
        ('wrappers/response.py', '        if (\n            not accept_ranges\n            or complete_length is None\n            or complete_length == 0\n            or not self._is_range_request_processable(environ)\n        ):\n            return False\n', '        if not accept_ranges or complete_length is None or complete_length == 0:\n            return False\n\n        if "HTTP_RANGE" not in environ:\n            return False\n\n        # ignore the range if the resource changed since the If-Range validator\n        if "HTTP_IF_RANGE" not in environ and is_resource_modified(\n            environ,\n            self.headers.get("etag"),\n            None,\n            self.headers.get("last-modified"),\n            ignore_if_range=False,\n        ):\n            return False\n'),
    ]},
    {"name": 'stress-c08-no-rebase', "expect": 'R11.8', "edits": [
        ('wsgi.py', '        if self.end_byte is not None and self.read_length >= self.end_byte:\n            self.end_reached = True\n            return chunk[: self.end_byte - contextual_read_length]\n        return chunk\n', '        end = self.end_byte\n        if end is not None and self.read_length >= end:\n            self.end_reached = True\n            return chunk[: end - contextual_read_length]\n        return chunk\n'),
        ('wsgi.py', '            self.read_length = self.iterable.tell()  # type: ignore\n            contextual_read_length = self.read_length\n', '            contextual_read_length = self.start_byte\n'),
    ]},
    {"name": 'stress-c09-no-rebase', "expect": 'R11.8', "edits": [
        ('wsgi.py', '    def _first_iteration(self) -> tuple[bytes | None, int]:\n        chunk = None\n        if self.seekable:\n            self.iterable.seek(self.start_byte)  # type: ignore\n            self.read_length = self.iterable.tell()  # type: ignore\n            contextual_read_length = self.read_length\n        else:\n            while self.read_length <= self.start_byte:\n                chunk = self._next_chunk()\n            if chunk is not None:\n                chunk = chunk[self.start_byte - self.read_length :]\n            contextual_read_length = self.start_byte\n        return chunk, contextual_read_length\n', '    def _first_iteration(self) -> tuple[bytes | None, int]:\n        chunk = None\n        if self.seekable:\n            body = self.iterable\n            body.seek(self.start_byte)  # type: ignore\n            contextual_read_length = body.tell()  # type: ignore\n        else:\n            while self.read_length <= self.start_byte:\n                chunk = self._next_chunk()\n            if chunk is not None:\n                chunk = chunk[self.start_byte - self.read_length :]\n            contextual_read_length = self.start_byte\n        return chunk, contextual_read_length\n'),
    ]},
    {"name": 'stress-c09-other-stream-tell', "expect": 'R11.8', "edits": [
        ('wsgi.py', '    def _first_iteration(self) -> tuple[bytes | None, int]:\n        chunk = None\n        if self.seekable:\n            self.iterable.seek(self.start_byte)  # type: ignore\n            self.read_length = self.iterable.tell()  # type: ignore\n            contextual_read_length = self.read_length\n        else:\n            while self.read_length <= self.start_byte:\n                chunk = self._next_chunk()\n            if chunk is not None:\n                chunk = chunk[self.start_byte - self.read_length :]\n            contextual_read_length = self.start_byte\n        return chunk, contextual_read_length\n', '    def _first_iteration(self) -> tuple[bytes | None, int]:\n        chunk = None\n        if self.seekable:\n            body = self.iterable\n            body.seek(self.start_byte)  # type: ignore\n            self.read_length = self.start_byte - body.tell()  # type: ignore\n            contextual_read_length = self.read_length\n        else:\n            while self.read_length <= self.start_byte:\n                chunk = self._next_chunk()\n            if chunk is not None:\n                chunk = chunk[self.start_byte - self.read_length :]\n            contextual_read_length = self.start_byte\n        return chunk, contextual_read_length\n'),
    ]},
    {"name": 'stress-e01-alias-other-mapping', "expect": 'R11.4', "edits": [
        ('wrappers/response.py', '            is206 = self._process_range_request(environ, complete_length, accept_ranges)\n            if not is206 and not is_resource_modified(\n                environ,\n                self.headers.get("etag"),\n                None,\n                self.headers.get("last-modified"),\n            ):\n                if parse_etags(environ.get("HTTP_IF_MATCH")):\n                    self.status_code = 412\n                else:\n                    self.status_code = 304\n', '            is206 = self._process_range_request(environ, complete_length, accept_ranges)\n            headers = environ\n            if not is206 and not is_resource_modified(\n                environ,\n                headers.get("etag"),\n                None,\n                headers.get("last-modified"),\n            ):\n                if parse_etags(environ.get("HTTP_IF_MATCH")):\n                    self.status_code = 412\n                else:\n                    self.status_code = 304\n'),
    ]},
    {"name": 'stress-e03-local-wrong-header', "expect": 'R11.4', "edits": [
        ('wrappers/response.py', '        return (\n            "HTTP_IF_RANGE" not in environ\n            or not is_resource_modified(\n                environ,\n                self.headers.get("etag"),\n                None,\n                self.headers.get("last-modified"),\n                ignore_if_range=False,\n            )\n        ) and "HTTP_RANGE" in environ\n', '        etag = self.headers.get("last-modified")\n        last_modified = self.headers.get("last-modified")\n        return (\n            "HTTP_IF_RANGE" not in environ\n            or not is_resource_modified(\n                environ, etag, None, last_modified, ignore_if_range=False\n            )\n        ) and "HTTP_RANGE" in environ\n'),
    ]},
    {"name": 'stress-e03-local-ignore-default', "expect": 'R11.4', "edits": [
        ('wrappers/response.py', '        return (\n            "HTTP_IF_RANGE" not in environ\n            or not is_resource_modified(\n                environ,\n                self.headers.get("etag"),\n                None,\n                self.headers.get("last-modified"),\n                ignore_if_range=False,\n            )\n        ) and "HTTP_RANGE" in environ\n', '        etag = self.headers.get("etag")\n        last_modified = self.headers.get("last-modified")\n        return (\n            "HTTP_IF_RANGE" not in environ\n            or not is_resource_modified(\n                environ, etag, None, last_modified\n            )\n        ) and "HTTP_RANGE" in environ\n'),
    ]},
    {"name": 'stress-e24-alias-other-mapping', "expect": 'R11.4', "edits": [
        ('wrappers/response.py', '        return (\n            "HTTP_IF_RANGE" not in environ\n            or not is_resource_modified(\n                environ,\n                self.headers.get("etag"),\n                None,\n                self.headers.get("last-modified"),\n                ignore_if_range=False,\n            )\n        ) and "HTTP_RANGE" in environ\n', '        headers = environ\n        return (\n            "HTTP_IF_RANGE" not in environ\n            or not is_resource_modified(\n                environ,\n                headers.get("etag"),\n                None,\n                headers.get("last-modified"),\n                ignore_if_range=False,\n            )\n        ) and "HTTP_RANGE" in environ\n'),
    ]},
    {"name": 'stress-e12-local-other-header', "expect": 'R11.5', "edits": [
        ('wrappers/response.py', '        parsed_range = parse_range_header(environ.get("HTTP_RANGE"))\n', '        range_header = environ.get("HTTP_IF_RANGE")\n        parsed_range = parse_range_header(range_header)\n'),
    ]},
    {"name": 'stress-e04-locals-swapped', "expect": 'R11.4', "edits": [
        ('wrappers/response.py', '            is206 = self._process_range_request(environ, complete_length, accept_ranges)\n            if not is206 and not is_resource_modified(\n                environ,\n                self.headers.get("etag"),\n                None,\n                self.headers.get("last-modified"),\n            ):\n                if parse_etags(environ.get("HTTP_IF_MATCH")):\n                    self.status_code = 412\n                else:\n                    self.status_code = 304\n', '            is206 = self._process_range_request(environ, complete_length, accept_ranges)\n            if not is206 and not is_resource_modified(\n                environ,\n                self.headers.get("etag"),\n                None,\n                self.headers.get("last-modified"),\n            ):\n                if parse_etags(environ.get("HTTP_IF_MATCH")):\n                    status = 304\n                else:\n                    status = 412\n                self.status_code = status\n'),
    ]},
    {"name": 'stress-e04-local-unconditional', "expect": 'R11.4', "edits": [
        ('wrappers/response.py', '            is206 = self._process_range_request(environ, complete_length, accept_ranges)\n            if not is206 and not is_resource_modified(\n                environ,\n                self.headers.get("etag"),\n                None,\n                self.headers.get("last-modified"),\n            ):\n                if parse_etags(environ.get("HTTP_IF_MATCH")):\n                    self.status_code = 412\n                else:\n                    self.status_code = 304\n', '            is206 = self._process_range_request(environ, complete_length, accept_ranges)\n            if not is206 and not is_resource_modified(\n                environ,\n                self.headers.get("etag"),\n                None,\n                self.headers.get("last-modified"),\n            ):\n                status = 412\n                if parse_etags(environ.get("HTTP_IF_MATCH")):\n                    status = 304\n                self.status_code = status\n'),
    ]},
    {"name": 'stress-e22-no-rebase', "expect": 'R11.8', "edits": [
        ('wsgi.py', '        self.end_byte = None\n\n        if byte_range is not None:\n            self.end_byte = start_byte + byte_range\n', '        end_byte = None\n        if byte_range is not None:\n            end_byte = start_byte + byte_range\n        self.end_byte = end_byte\n'),
        ('wsgi.py', '            self.read_length = self.iterable.tell()  # type: ignore\n            contextual_read_length = self.read_length\n', '            contextual_read_length = self.start_byte\n'),
    ]},
    {"name": 'stress-r05-table-wrong-key', "expect": 'R11.1', "edits": [
        ('http.py', '    return str(age)\n\n\ndef is_resource_modified(\n    environ: WSGIEnvironment,\n    etag: str | None = None,\n', '    return str(age)\n\n\n#: Keyword arguments of the sans-IO ``is_resource_modified`` and the WSGI\n#: environ key each one is read from.\n_conditional_environ_keys = {\n    "http_range": "HTTP_RANGE",\n    "http_if_range": "HTTP_IF_RANGE",\n    "http_if_modified_since": "HTTP_IF_MODIFIED_SINCE",\n    "http_if_none_match": "HTTP_IF_NONE_MATCH",\n    "http_if_match": "HTTP_IF_NONE_MATCH",\n}\n\n\ndef is_resource_modified(\n    environ: WSGIEnvironment,\n    etag: str | None = None,\n'),
        ('http.py', '    .. versionchanged:: 1.0.0\n        The check is run for methods other than ``GET`` and ``HEAD``.\n    """\n    return _sansio_http.is_resource_modified(\n        http_range=environ.get("HTTP_RANGE"),\n        http_if_range=environ.get("HTTP_IF_RANGE"),\n        http_if_modified_since=environ.get("HTTP_IF_MODIFIED_SINCE"),\n        http_if_none_match=environ.get("HTTP_IF_NONE_MATCH"),\n        http_if_match=environ.get("HTTP_IF_MATCH"),\n        etag=etag,\n        data=data,\n        last_modified=last_modified,\n', '    .. versionchanged:: 1.0.0\n        The check is run for methods other than ``GET`` and ``HEAD``.\n    """\n    request_headers = {\n        name: environ.get(key) for name, key in _conditional_environ_keys.items()\n    }\n    return _sansio_http.is_resource_modified(\n        **request_headers,\n        etag=etag,\n        data=data,\n        last_modified=last_modified,\n'),
        ('wrappers/response.py', '        """Return ``True`` if `Range` header is present and if underlying\n        resource is considered unchanged when compared with `If-Range` header.\n        """\n        return (\n            "HTTP_IF_RANGE" not in environ\n            or not is_resource_modified(\n                environ,\n                self.headers.get("etag"),\n                None,\n                self.headers.get("last-modified"),\n                ignore_if_range=False,\n            )\n        ) and "HTTP_RANGE" in environ\n\n    def _process_range_request(\n        self,\n', '        """Return ``True`` if `Range` header is present and if underlying\n        resource is considered unchanged when compared with `If-Range` header.\n        """\n        if "HTTP_IF_RANGE" in environ and is_resource_modified(\n            environ,\n            self.headers.get("etag"),\n            None,\n            self.headers.get("last-modified"),\n            ignore_if_range=False,\n        ):\n            # The validator in If-Range no longer matches the resource.\n            return False\n\n        return "HTTP_RANGE" in environ\n\n    def _process_range_request(\n        self,\n'),
    ]},
    {"name": 'stress-r05-table-missing-row', "expect": 'R11.1', "edits": [
        ('http.py', '    return str(age)\n\n\ndef is_resource_modified(\n    environ: WSGIEnvironment,\n    etag: str | None = None,\n', '    return str(age)\n\n\n#: Keyword arguments of the sans-IO ``is_resource_modified`` and the WSGI\n#: environ key each one is read from.\n_conditional_environ_keys = {\n    "http_range": "HTTP_RANGE",\n    "http_if_modified_since": "HTTP_IF_MODIFIED_SINCE",\n    "http_if_none_match": "HTTP_IF_NONE_MATCH",\n    "http_if_match": "HTTP_IF_MATCH",\n}\n\n\ndef is_resource_modified(\n    environ: WSGIEnvironment,\n    etag: str | None = None,\n'),
        ('http.py', '    .. versionchanged:: 1.0.0\n        The check is run for methods other than ``GET`` and ``HEAD``.\n    """\n    return _sansio_http.is_resource_modified(\n        http_range=environ.get("HTTP_RANGE"),\n        http_if_range=environ.get("HTTP_IF_RANGE"),\n        http_if_modified_since=environ.get("HTTP_IF_MODIFIED_SINCE"),\n        http_if_none_match=environ.get("HTTP_IF_NONE_MATCH"),\n        http_if_match=environ.get("HTTP_IF_MATCH"),\n        etag=etag,\n        data=data,\n        last_modified=last_modified,\n', '    .. versionchanged:: 1.0.0\n        The check is run for methods other than ``GET`` and ``HEAD``.\n    """\n    request_headers = {\n        name: environ.get(key) for name, key in _conditional_environ_keys.items()\n    }\n    return _sansio_http.is_resource_modified(\n        **request_headers,\n        etag=etag,\n        data=data,\n        last_modified=last_modified,\n'),
        ('wrappers/response.py', '        """Return ``True`` if `Range` header is present and if underlying\n        resource is considered unchanged when compared with `If-Range` header.\n        """\n        return (\n            "HTTP_IF_RANGE" not in environ\n            or not is_resource_modified(\n                environ,\n                self.headers.get("etag"),\n                None,\n                self.headers.get("last-modified"),\n                ignore_if_range=False,\n            )\n        ) and "HTTP_RANGE" in environ\n\n    def _process_range_request(\n        self,\n', '        """Return ``True`` if `Range` header is present and if underlying\n        resource is considered unchanged when compared with `If-Range` header.\n        """\n        if "HTTP_IF_RANGE" in environ and is_resource_modified(\n            environ,\n            self.headers.get("etag"),\n            None,\n            self.headers.get("last-modified"),\n            ignore_if_range=False,\n        ):\n            # The validator in If-Range no longer matches the resource.\n            return False\n\n        return "HTTP_RANGE" in environ\n\n    def _process_range_request(\n        self,\n'),
    ]},
    {"name": 'stress-r06-walrus-none-returns', "expect": 'R11.6', "edits": [
        ('wrappers/response.py', '        """\n        from ..exceptions import RequestedRangeNotSatisfiable\n\n        if (\n            not accept_ranges\n            or complete_length is None\n            or complete_length == 0\n            or not self._is_range_request_processable(environ)\n        ):\n            return False\n\n        if accept_ranges is True:\n            accept_ranges = "bytes"\n\n        parsed_range = parse_range_header(environ.get("HTTP_RANGE"))\n\n        if parsed_range is None:\n            raise RequestedRangeNotSatisfiable(complete_length)\n\n        range_tuple = parsed_range.range_for_length(complete_length)\n        content_range_header = parsed_range.to_content_range_header(complete_length)\n\n        if range_tuple is None or content_range_header is None:\n            raise RequestedRangeNotSatisfiable(complete_length)\n\n        content_length = range_tuple[1] - range_tuple[0]\n        self.headers["Content-Length"] = str(content_length)\n        self.headers["Accept-Ranges"] = accept_ranges\n        self.content_range = content_range_header  # type: ignore\n        self.status_code = 206\n        self._wrap_range_response(range_tuple[0], content_length)\n        return True\n\n    def make_conditional(\n', '        """\n        from ..exceptions import RequestedRangeNotSatisfiable\n\n        # Ranges are not enabled, or there is no (known) content to slice.\n        if not accept_ranges or complete_length in (None, 0):\n            return False\n\n        if not self._is_range_request_processable(environ):\n            return False\n\n        if (parsed_range := parse_range_header(environ.get("HTTP_RANGE"))) is None:\n            return False\n\n        byte_range = parsed_range.range_for_length(complete_length)\n        content_range_header = parsed_range.to_content_range_header(complete_length)\n\n        if byte_range is None or content_range_header is None:\n            raise RequestedRangeNotSatisfiable(complete_length)\n\n        start, stop = byte_range\n        content_length = stop - start\n        self.headers["Content-Length"] = str(content_length)\n        self.headers["Accept-Ranges"] = (\n            "bytes" if accept_ranges is True else accept_ranges\n        )\n        self.content_range = content_range_header  # type: ignore\n        self.status_code = 206\n        self._wrap_range_response(start, content_length)\n        return True\n\n    def make_conditional(\n'),
    ]},
    {"name": 'stress-r03-helper-keeps-microseconds', "expect": 'R11.3', "edits": [
        ('sansio/http.py', '_etag_re = re.compile(r\'([Ww]/)?(?:"(.*?)"|(.*?))(?:\\s*,\\s*|$)\')\n\n\ndef is_resource_modified(\n    http_range: str | None = None,\n    http_if_range: str | None = None,\n', '_etag_re = re.compile(r\'([Ww]/)?(?:"(.*?)"|(.*?))(?:\\s*,\\s*|$)\')\n\n\ndef _normalize_last_modified(value: datetime | str | None) -> datetime | None:\n    if isinstance(value, str):\n        value = parse_date(value)\n\n    if value is None:\n        return None\n\n    # HTTP doesn\'t use microsecond, remove it to avoid false positive\n    # comparisons. Mark naive datetimes as UTC.\n    return _dt_as_utc(value)\n\n\ndef is_resource_modified(\n    http_range: str | None = None,\n    http_if_range: str | None = None,\n'),
        ('sansio/http.py', '\n    .. versionadded:: 2.2\n    """\n    if etag is None and data is not None:\n        etag = generate_etag(data)\n    elif data is not None:\n        raise TypeError("both data and etag given")\n\n    unmodified = False\n    if isinstance(last_modified, str):\n        last_modified = parse_date(last_modified)\n\n    # HTTP doesn\'t use microsecond, remove it to avoid false positive\n    # comparisons. Mark naive datetimes as UTC.\n    if last_modified is not None:\n        last_modified = _dt_as_utc(last_modified.replace(microsecond=0))\n\n    if_range = None\n    if not ignore_if_range and http_range is not None:\n        # https://tools.ietf.org/html/rfc7233#section-3.2\n        # A server MUST ignore an If-Range header field received in a request\n        # that does not contain a Range header field.\n        if_range = parse_if_range_header(http_if_range)\n\n    if if_range is not None and if_range.date is not None:\n        modified_since: datetime | None = if_range.date\n', '\n    .. versionadded:: 2.2\n    """\n    if data is not None:\n        if etag is not None:\n            raise TypeError("both data and etag given")\n\n        etag = generate_etag(data)\n\n    unmodified = False\n    last_modified = _normalize_last_modified(last_modified)\n\n    # https://tools.ietf.org/html/rfc7233#section-3.2\n    # A server MUST ignore an If-Range header field received in a request\n    # that does not contain a Range header field.\n    if_range = (\n        parse_if_range_header(http_if_range)\n        if not ignore_if_range and http_range is not None\n        else None\n    )\n\n    if if_range is not None and if_range.date is not None:\n        modified_since: datetime | None = if_range.date\n'),
    ]},
    {"name": 'stress-a04-helper-polarity', "expect": 'R11.2', "edits": [
        ('sansio/http.py', '    if etag:\n        etag, _ = unquote_etag(etag)\n\n        if if_range is not None and if_range.etag is not None:\n            unmodified = parse_etags(if_range.etag).contains(etag)\n        else:\n            if_none_match = parse_etags(http_if_none_match)\n            if if_none_match:\n                # https://tools.ietf.org/html/rfc7232#section-3.2\n                # "A recipient MUST use the weak comparison function when comparing\n                # entity-tags for If-None-Match"\n                unmodified = if_none_match.contains_weak(etag)\n\n            # https://tools.ietf.org/html/rfc7232#section-3.1\n            # "Origin server MUST use the strong comparison function when\n            # comparing entity-tags for If-Match"\n            if_match = parse_etags(http_if_match)\n            if if_match:\n                unmodified = not if_match.contains(etag)\n\n    return not unmodified\n', '    if etag:\n        etag, _ = unquote_etag(etag)\n\n        if if_range is not None and if_range.etag is not None:\n            unmodified = parse_etags(if_range.etag).contains(etag)\n        else:\n            unmodified = _etags_unmodified(\n                etag, http_if_none_match, http_if_match, unmodified\n            )\n\n    return not unmodified\n\n\ndef _etags_unmodified(\n    etag: str, http_if_none_match: str | None, http_if_match: str | None, default: bool\n) -> bool:\n    unmodified = default\n    if_none_match = parse_etags(http_if_none_match)\n    if if_none_match:\n        unmodified = if_none_match.contains_weak(etag)\n\n    if_match = parse_etags(http_if_match)\n    if if_match:\n        unmodified = if_match.contains(etag)\n    return unmodified\n'),
    ]},
    {"name": 'stress-a04-helper-keeps-date', "expect": 'R11.2', "edits": [
        ('sansio/http.py', '    if etag:\n        etag, _ = unquote_etag(etag)\n\n        if if_range is not None and if_range.etag is not None:\n            unmodified = parse_etags(if_range.etag).contains(etag)\n        else:\n            if_none_match = parse_etags(http_if_none_match)\n            if if_none_match:\n                # https://tools.ietf.org/html/rfc7232#section-3.2\n                # "A recipient MUST use the weak comparison function when comparing\n                # entity-tags for If-None-Match"\n                unmodified = if_none_match.contains_weak(etag)\n\n            # https://tools.ietf.org/html/rfc7232#section-3.1\n            # "Origin server MUST use the strong comparison function when\n            # comparing entity-tags for If-Match"\n            if_match = parse_etags(http_if_match)\n            if if_match:\n                unmodified = not if_match.contains(etag)\n\n    return not unmodified\n', '    if etag:\n        etag, _ = unquote_etag(etag)\n\n        if if_range is not None and if_range.etag is not None:\n            unmodified = parse_etags(if_range.etag).contains(etag)\n        else:\n            unmodified = _etags_unmodified(\n                etag, http_if_none_match, http_if_match, unmodified\n            )\n\n    return not unmodified\n\n\ndef _etags_unmodified(\n    etag: str, http_if_none_match: str | None, http_if_match: str | None, default: bool\n) -> bool:\n    unmodified = default\n    if_none_match = parse_etags(http_if_none_match)\n    if if_none_match:\n        unmodified = default or if_none_match.contains_weak(etag)\n\n    if_match = parse_etags(http_if_match)\n    if if_match:\n        unmodified = not if_match.contains(etag)\n    return unmodified\n'),
    ]},
    {"name": 'stress-a04-helper-args-swapped', "expect": 'R11.1', "edits": [
        ('sansio/http.py', '    if etag:\n        etag, _ = unquote_etag(etag)\n\n        if if_range is not None and if_range.etag is not None:\n            unmodified = parse_etags(if_range.etag).contains(etag)\n        else:\n            if_none_match = parse_etags(http_if_none_match)\n            if if_none_match:\n                # https://tools.ietf.org/html/rfc7232#section-3.2\n                # "A recipient MUST use the weak comparison function when comparing\n                # entity-tags for If-None-Match"\n                unmodified = if_none_match.contains_weak(etag)\n\n            # https://tools.ietf.org/html/rfc7232#section-3.1\n            # "Origin server MUST use the strong comparison function when\n            # comparing entity-tags for If-Match"\n            if_match = parse_etags(http_if_match)\n            if if_match:\n                unmodified = not if_match.contains(etag)\n\n    return not unmodified\n', '    if etag:\n        etag, _ = unquote_etag(etag)\n\n        if if_range is not None and if_range.etag is not None:\n            unmodified = parse_etags(if_range.etag).contains(etag)\n        else:\n            unmodified = _etags_unmodified(\n                etag, http_if_match, http_if_none_match, unmodified\n            )\n\n    return not unmodified\n\n\ndef _etags_unmodified(\n    etag: str, http_if_none_match: str | None, http_if_match: str | None, default: bool\n) -> bool:\n    unmodified = default\n    if_none_match = parse_etags(http_if_none_match)\n    if if_none_match:\n        unmodified = if_none_match.contains_weak(etag)\n\n    if_match = parse_etags(http_if_match)\n    if if_match:\n        unmodified = not if_match.contains(etag)\n    return unmodified\n'),
    ]},
    {"name": 'stress-g04-if-match-polarity', "expect": 'R11.1', "edits": [
        ('sansio/http.py', '    if etag:\n        etag, _ = unquote_etag(etag)\n\n        if if_range is not None and if_range.etag is not None:\n            unmodified = parse_etags(if_range.etag).contains(etag)\n        else:\n            if_none_match = parse_etags(http_if_none_match)\n            if if_none_match:\n                # https://tools.ietf.org/html/rfc7232#section-3.2\n                # "A recipient MUST use the weak comparison function when comparing\n                # entity-tags for If-None-Match"\n                unmodified = if_none_match.contains_weak(etag)\n\n            # https://tools.ietf.org/html/rfc7232#section-3.1\n            # "Origin server MUST use the strong comparison function when\n            # comparing entity-tags for If-Match"\n            if_match = parse_etags(http_if_match)\n            if if_match:\n                unmodified = not if_match.contains(etag)\n\n    return not unmodified\n', '    if not etag:\n        return not unmodified\n\n    return not _validators_unmodified(\n        etag, if_range, http_if_none_match, http_if_match, unmodified\n    )\n\n\ndef _validators_unmodified(\n    etag: str,\n    if_range: t.Any,\n    http_if_none_match: str | None,\n    http_if_match: str | None,\n    unmodified: bool,\n) -> bool:\n    etag, _ = unquote_etag(etag)\n\n    if if_range is not None and if_range.etag is not None:\n        return parse_etags(if_range.etag).contains(etag)\n\n    if_none_match = parse_etags(http_if_none_match)\n    if if_none_match:\n        unmodified = if_none_match.contains_weak(etag)\n\n    if_match = parse_etags(http_if_match)\n    if if_match:\n        unmodified = if_match.contains(etag)\n\n    return unmodified\n'),
    ]},
    {"name": 'stress-g02-gate-ignores-flag', "expect": 'R11.2', "edits": [
        ('sansio/http.py', '    if_range = None\n    if not ignore_if_range and http_range is not None:\n        # https://tools.ietf.org/html/rfc7233#section-3.2\n        # A server MUST ignore an If-Range header field received in a request\n        # that does not contain a Range header field.\n        if_range = parse_if_range_header(http_if_range)\n', '    if_range = _considered_if_range(http_range, http_if_range, ignore_if_range)\n'),
        ('sansio/http.py', 'def is_resource_modified(', 'def _considered_if_range(\n    http_range: str | None, http_if_range: str | None, ignore_if_range: bool\n) -> t.Any:\n    # https://tools.ietf.org/html/rfc7233#section-3.2\n    # A server MUST ignore an If-Range header field received in a request\n    # that does not contain a Range header field.\n    if http_range is None:\n        return None\n    return parse_if_range_header(http_if_range)\n\n\ndef is_resource_modified('),
    ]},
    {"name": 'stress-g03-strictly-earlier', "expect": 'R11.3', "edits": [
        ('sansio/http.py', '    unmodified = False\n    if isinstance(last_modified, str):', '    if isinstance(last_modified, str):'),
        ('sansio/http.py', '    if modified_since and last_modified and last_modified <= modified_since:\n        unmodified = True\n', '    unmodified = _not_modified_since(last_modified, modified_since)\n'),
        ('sansio/http.py', 'def is_resource_modified(', 'def _not_modified_since(\n    last_modified: datetime | None, modified_since: datetime | None\n) -> bool:\n    if not modified_since or not last_modified:\n        return False\n    return last_modified < modified_since\n\n\ndef is_resource_modified('),
    ]},
    {"name": 'stress-g01-if-range-keeps-date', "expect": 'R11.2', "edits": [
        ('sansio/http.py', '    if etag:\n        etag, _ = unquote_etag(etag)\n\n        if if_range is not None and if_range.etag is not None:\n            unmodified = parse_etags(if_range.etag).contains(etag)\n        else:\n            if_none_match = parse_etags(http_if_none_match)\n            if if_none_match:\n                # https://tools.ietf.org/html/rfc7232#section-3.2\n                # "A recipient MUST use the weak comparison function when comparing\n                # entity-tags for If-None-Match"\n                unmodified = if_none_match.contains_weak(etag)\n\n            # https://tools.ietf.org/html/rfc7232#section-3.1\n            # "Origin server MUST use the strong comparison function when\n            # comparing entity-tags for If-Match"\n            if_match = parse_etags(http_if_match)\n            if if_match:\n                unmodified = not if_match.contains(etag)\n\n    return not unmodified\n', '    if etag:\n        unmodified = _validators_unmodified(\n            etag, if_range, http_if_none_match, http_if_match, unmodified\n        )\n\n    return not unmodified\n\n\ndef _validators_unmodified(\n    etag: str,\n    if_range: t.Any,\n    http_if_none_match: str | None,\n    http_if_match: str | None,\n    unmodified: bool,\n) -> bool:\n    etag, _ = unquote_etag(etag)\n\n    if if_range is not None and if_range.etag is not None:\n        return unmodified or parse_etags(if_range.etag).contains(etag)\n\n    if_none_match = parse_etags(http_if_none_match)\n    if if_none_match:\n        unmodified = if_none_match.contains_weak(etag)\n\n    if_match = parse_etags(http_if_match)\n    if if_match:\n        unmodified = not if_match.contains(etag)\n\n    return unmodified\n'),
    ]},
    {"name": 'stress-g01-compares-quoted', "expect": 'R11.1', "edits": [
        ('sansio/http.py', '    if etag:\n        etag, _ = unquote_etag(etag)\n\n        if if_range is not None and if_range.etag is not None:\n            unmodified = parse_etags(if_range.etag).contains(etag)\n        else:\n            if_none_match = parse_etags(http_if_none_match)\n            if if_none_match:\n                # https://tools.ietf.org/html/rfc7232#section-3.2\n                # "A recipient MUST use the weak comparison function when comparing\n                # entity-tags for If-None-Match"\n                unmodified = if_none_match.contains_weak(etag)\n\n            # https://tools.ietf.org/html/rfc7232#section-3.1\n            # "Origin server MUST use the strong comparison function when\n            # comparing entity-tags for If-Match"\n            if_match = parse_etags(http_if_match)\n            if if_match:\n                unmodified = not if_match.contains(etag)\n\n    return not unmodified\n', '    if etag:\n        unmodified = _validators_unmodified(\n            etag, if_range, http_if_none_match, http_if_match, unmodified\n        )\n\n    return not unmodified\n\n\ndef _validators_unmodified(\n    etag: str,\n    if_range: t.Any,\n    http_if_none_match: str | None,\n    http_if_match: str | None,\n    unmodified: bool,\n) -> bool:\n    etag = etag.strip()\n\n    if if_range is not None and if_range.etag is not None:\n        return parse_etags(if_range.etag).contains(etag)\n\n    if_none_match = parse_etags(http_if_none_match)\n    if if_none_match:\n        unmodified = if_none_match.contains_weak(etag)\n\n    if_match = parse_etags(http_if_match)\n    if if_match:\n        unmodified = not if_match.contains(etag)\n\n    return unmodified\n'),
    ]},
    {"name": 'stress-s04-helper-polarity', "expect": 'R11.4', "edits": [
        ('wrappers/response.py', '            # wsgiref.\n            if "date" not in self.headers:\n                self.headers["Date"] = http_date()\n            is206 = self._process_range_request(environ, complete_length, accept_ranges)\n            if not is206 and not is_resource_modified(\n                environ,\n                self.headers.get("etag"),\n                None,\n                self.headers.get("last-modified"),\n            ):\n                if parse_etags(environ.get("HTTP_IF_MATCH")):\n                    self.status_code = 412\n                else:\n                    self.status_code = 304\n            if (\n                self.automatically_set_content_length\n                and "content-length" not in self.headers\n', '            # wsgiref.\n            if "date" not in self.headers:\n                self.headers["Date"] = http_date()\n            if not self._process_range_request(environ, complete_length, accept_ranges):\n                self._apply_preconditions(environ)\n            if (\n                self.automatically_set_content_length\n                and "content-length" not in self.headers\n'),
        ('wrappers/response.py', '                    self.headers["Content-Length"] = str(length)\n        return self\n\n    def add_etag(self, overwrite: bool = False, weak: bool = False) -> None:\n        """Add an etag for the current response if there is none yet.\n\n', '                    self.headers["Content-Length"] = str(length)\n        return self\n\n    def _apply_preconditions(self, environ: WSGIEnvironment) -> None:\n        """Set the status to 412 or 304 if the conditional headers of the\n        request say that the client\'s view of the resource is still current.\n        """\n        etag = self.headers.get("etag")\n        last_modified = self.headers.get("last-modified")\n\n        if not is_resource_modified(environ, etag, None, last_modified):\n            return\n\n        if parse_etags(environ.get("HTTP_IF_MATCH")):\n            self.status_code = 412\n        else:\n            self.status_code = 304\n\n    def add_etag(self, overwrite: bool = False, weak: bool = False) -> None:\n        """Add an etag for the current response if there is none yet.\n\n'),
    ]},
    {"name": 'stress-s04-helper-considers-if-range', "expect": 'R11.4', "edits": [
        ('wrappers/response.py', '            # wsgiref.\n            if "date" not in self.headers:\n                self.headers["Date"] = http_date()\n            is206 = self._process_range_request(environ, complete_length, accept_ranges)\n            if not is206 and not is_resource_modified(\n                environ,\n                self.headers.get("etag"),\n                None,\n                self.headers.get("last-modified"),\n            ):\n                if parse_etags(environ.get("HTTP_IF_MATCH")):\n                    self.status_code = 412\n                else:\n                    self.status_code = 304\n            if (\n                self.automatically_set_content_length\n                and "content-length" not in self.headers\n', '            # wsgiref.\n            if "date" not in self.headers:\n                self.headers["Date"] = http_date()\n            if not self._process_range_request(environ, complete_length, accept_ranges):\n                self._apply_preconditions(environ)\n            if (\n                self.automatically_set_content_length\n                and "content-length" not in self.headers\n'),
        ('wrappers/response.py', '                    self.headers["Content-Length"] = str(length)\n        return self\n\n    def add_etag(self, overwrite: bool = False, weak: bool = False) -> None:\n        """Add an etag for the current response if there is none yet.\n\n', '                    self.headers["Content-Length"] = str(length)\n        return self\n\n    def _apply_preconditions(self, environ: WSGIEnvironment) -> None:\n        """Set the status to 412 or 304 if the conditional headers of the\n        request say that the client\'s view of the resource is still current.\n        """\n        etag = self.headers.get("etag")\n        last_modified = self.headers.get("last-modified")\n\n        if is_resource_modified(environ, etag, None, last_modified, ignore_if_range=False):\n            return\n\n        if parse_etags(environ.get("HTTP_IF_MATCH")):\n            self.status_code = 412\n        else:\n            self.status_code = 304\n\n    def add_etag(self, overwrite: bool = False, weak: bool = False) -> None:\n        """Add an etag for the current response if there is none yet.\n\n'),
    ]},
    {"name": 'stress-s04-helper-swapped', "expect": 'R11.4', "edits": [
        ('wrappers/response.py', '            # wsgiref.\n            if "date" not in self.headers:\n                self.headers["Date"] = http_date()\n            is206 = self._process_range_request(environ, complete_length, accept_ranges)\n            if not is206 and not is_resource_modified(\n                environ,\n                self.headers.get("etag"),\n                None,\n                self.headers.get("last-modified"),\n            ):\n                if parse_etags(environ.get("HTTP_IF_MATCH")):\n                    self.status_code = 412\n                else:\n                    self.status_code = 304\n            if (\n                self.automatically_set_content_length\n                and "content-length" not in self.headers\n', '            # wsgiref.\n            if "date" not in self.headers:\n                self.headers["Date"] = http_date()\n            if not self._process_range_request(environ, complete_length, accept_ranges):\n                self._apply_preconditions(environ)\n            if (\n                self.automatically_set_content_length\n                and "content-length" not in self.headers\n'),
        ('wrappers/response.py', '                    self.headers["Content-Length"] = str(length)\n        return self\n\n    def add_etag(self, overwrite: bool = False, weak: bool = False) -> None:\n        """Add an etag for the current response if there is none yet.\n\n', '                    self.headers["Content-Length"] = str(length)\n        return self\n\n    def _apply_preconditions(self, environ: WSGIEnvironment) -> None:\n        """Set the status to 412 or 304 if the conditional headers of the\n        request say that the client\'s view of the resource is still current.\n        """\n        etag = self.headers.get("etag")\n        last_modified = self.headers.get("last-modified")\n\n        if is_resource_modified(environ, etag, None, last_modified):\n            return\n\n        if parse_etags(environ.get("HTTP_IF_MATCH")):\n            self.status_code = 304\n        else:\n            self.status_code = 412\n\n    def add_etag(self, overwrite: bool = False, weak: bool = False) -> None:\n        """Add an etag for the current response if there is none yet.\n\n'),
    ]},
    {"name": 'stress-s04-helper-local-other-header', "expect": 'R11.4', "edits": [
        ('wrappers/response.py', '            # wsgiref.\n            if "date" not in self.headers:\n                self.headers["Date"] = http_date()\n            is206 = self._process_range_request(environ, complete_length, accept_ranges)\n            if not is206 and not is_resource_modified(\n                environ,\n                self.headers.get("etag"),\n                None,\n                self.headers.get("last-modified"),\n            ):\n                if parse_etags(environ.get("HTTP_IF_MATCH")):\n                    self.status_code = 412\n                else:\n                    self.status_code = 304\n            if (\n                self.automatically_set_content_length\n                and "content-length" not in self.headers\n', '            # wsgiref.\n            if "date" not in self.headers:\n                self.headers["Date"] = http_date()\n            if not self._process_range_request(environ, complete_length, accept_ranges):\n                self._apply_preconditions(environ)\n            if (\n                self.automatically_set_content_length\n                and "content-length" not in self.headers\n'),
        ('wrappers/response.py', '                    self.headers["Content-Length"] = str(length)\n        return self\n\n    def add_etag(self, overwrite: bool = False, weak: bool = False) -> None:\n        """Add an etag for the current response if there is none yet.\n\n', '                    self.headers["Content-Length"] = str(length)\n        return self\n\n    def _apply_preconditions(self, environ: WSGIEnvironment) -> None:\n        """Set the status to 412 or 304 if the conditional headers of the\n        request say that the client\'s view of the resource is still current.\n        """\n        etag = self.headers.get("content-md5")\n        last_modified = self.headers.get("last-modified")\n\n        if is_resource_modified(environ, etag, None, last_modified):\n            return\n\n        if parse_etags(environ.get("HTTP_IF_MATCH")):\n            self.status_code = 412\n        else:\n            self.status_code = 304\n\n    def add_etag(self, overwrite: bool = False, weak: bool = False) -> None:\n        """Add an etag for the current response if there is none yet.\n\n'),
    ]},
    {"name": 'stress-s06-unparsable-not-416', "expect": 'R11.6', "edits": [
        ('wrappers/response.py', '        """\n        from ..exceptions import RequestedRangeNotSatisfiable\n\n        if (\n            not accept_ranges\n            or complete_length is None\n            or complete_length == 0\n            or not self._is_range_request_processable(environ)\n        ):\n            return False\n\n        if accept_ranges is True:\n            accept_ranges = "bytes"\n\n        parsed_range = parse_range_header(environ.get("HTTP_RANGE"))\n\n        if parsed_range is None:\n            raise RequestedRangeNotSatisfiable(complete_length)\n\n        range_tuple = parsed_range.range_for_length(complete_length)\n        content_range_header = parsed_range.to_content_range_header(complete_length)\n\n        if range_tuple is None or content_range_header is None:\n            raise RequestedRangeNotSatisfiable(complete_length)\n\n        content_length = range_tuple[1] - range_tuple[0]\n        self.headers["Content-Length"] = str(content_length)\n        self.headers["Accept-Ranges"] = accept_ranges\n        self.content_range = content_range_header  # type: ignore\n        self.status_code = 206\n        self._wrap_range_response(range_tuple[0], content_length)\n        return True\n\n    def make_conditional(\n', '        """\n        from ..exceptions import RequestedRangeNotSatisfiable\n\n        if not (\n            accept_ranges\n            and complete_length\n            and self._is_range_request_processable(environ)\n        ):\n            return False\n\n        parsed_range = parse_range_header(environ.get("HTTP_RANGE"))\n        range_tuple = content_range_header = None\n\n        if parsed_range is not None:\n            range_tuple = parsed_range.range_for_length(complete_length)\n            content_range_header = parsed_range.to_content_range_header(complete_length)\n\n        if parsed_range is not None and (\n            range_tuple is None or content_range_header is None\n        ):\n            raise RequestedRangeNotSatisfiable(complete_length)\n\n        start = range_tuple[0]\n        content_length = range_tuple[1] - start\n        headers = self.headers\n        headers["Content-Length"] = str(content_length)\n        headers["Accept-Ranges"] = "bytes" if accept_ranges is True else accept_ranges\n        self.content_range = content_range_header  # type: ignore\n        self.status_code = 206\n        self._wrap_range_response(start, content_length)\n        return True\n\n    def make_conditional(\n'),
    ]},
    {"name": 'stress-s06-default-not-none', "expect": 'R11.5', "edits": [
        ('wrappers/response.py', '        """\n        from ..exceptions import RequestedRangeNotSatisfiable\n\n        if (\n            not accept_ranges\n            or complete_length is None\n            or complete_length == 0\n            or not self._is_range_request_processable(environ)\n        ):\n            return False\n\n        if accept_ranges is True:\n            accept_ranges = "bytes"\n\n        parsed_range = parse_range_header(environ.get("HTTP_RANGE"))\n\n        if parsed_range is None:\n            raise RequestedRangeNotSatisfiable(complete_length)\n\n        range_tuple = parsed_range.range_for_length(complete_length)\n        content_range_header = parsed_range.to_content_range_header(complete_length)\n\n        if range_tuple is None or content_range_header is None:\n            raise RequestedRangeNotSatisfiable(complete_length)\n\n        content_length = range_tuple[1] - range_tuple[0]\n        self.headers["Content-Length"] = str(content_length)\n        self.headers["Accept-Ranges"] = accept_ranges\n        self.content_range = content_range_header  # type: ignore\n        self.status_code = 206\n        self._wrap_range_response(range_tuple[0], content_length)\n        return True\n\n    def make_conditional(\n', '        """\n        from ..exceptions import RequestedRangeNotSatisfiable\n\n        if not (\n            accept_ranges\n            and complete_length\n            and self._is_range_request_processable(environ)\n        ):\n            return False\n\n        parsed_range = parse_range_header(environ.get("HTTP_RANGE"))\n        range_tuple = content_range_header = ()\n\n        if parsed_range is not None:\n            range_tuple = parsed_range.range_for_length(complete_length)\n            content_range_header = parsed_range.to_content_range_header(complete_length)\n\n        if range_tuple is None or content_range_header is None:\n            raise RequestedRangeNotSatisfiable(complete_length)\n\n        start = range_tuple[0]\n        content_length = range_tuple[1] - start\n        headers = self.headers\n        headers["Content-Length"] = str(content_length)\n        headers["Accept-Ranges"] = "bytes" if accept_ranges is True else accept_ranges\n        self.content_range = content_range_header  # type: ignore\n        self.status_code = 206\n        self._wrap_range_response(start, content_length)\n        return True\n\n    def make_conditional(\n'),
    ]},
    {"name": 'stress-s06-start-from-stop', "expect": 'R11.5', "edits": [
        ('wrappers/response.py', '        """\n        from ..exceptions import RequestedRangeNotSatisfiable\n\n        if (\n            not accept_ranges\n            or complete_length is None\n            or complete_length == 0\n            or not self._is_range_request_processable(environ)\n        ):\n            return False\n\n        if accept_ranges is True:\n            accept_ranges = "bytes"\n\n        parsed_range = parse_range_header(environ.get("HTTP_RANGE"))\n\n        if parsed_range is None:\n            raise RequestedRangeNotSatisfiable(complete_length)\n\n        range_tuple = parsed_range.range_for_length(complete_length)\n        content_range_header = parsed_range.to_content_range_header(complete_length)\n\n        if range_tuple is None or content_range_header is None:\n            raise RequestedRangeNotSatisfiable(complete_length)\n\n        content_length = range_tuple[1] - range_tuple[0]\n        self.headers["Content-Length"] = str(content_length)\n        self.headers["Accept-Ranges"] = accept_ranges\n        self.content_range = content_range_header  # type: ignore\n        self.status_code = 206\n        self._wrap_range_response(range_tuple[0], content_length)\n        return True\n\n    def make_conditional(\n', '        """\n        from ..exceptions import RequestedRangeNotSatisfiable\n\n        if not (\n            accept_ranges\n            and complete_length\n            and self._is_range_request_processable(environ)\n        ):\n            return False\n\n        parsed_range = parse_range_header(environ.get("HTTP_RANGE"))\n        range_tuple = content_range_header = None\n\n        if parsed_range is not None:\n            range_tuple = parsed_range.range_for_length(complete_length)\n            content_range_header = parsed_range.to_content_range_header(complete_length)\n\n        if range_tuple is None or content_range_header is None:\n            raise RequestedRangeNotSatisfiable(complete_length)\n\n        start = range_tuple[1]\n        content_length = range_tuple[1] - start\n        headers = self.headers\n        headers["Content-Length"] = str(content_length)\n        headers["Accept-Ranges"] = "bytes" if accept_ranges is True else accept_ranges\n        self.content_range = content_range_header  # type: ignore\n        self.status_code = 206\n        self._wrap_range_response(start, content_length)\n        return True\n\n    def make_conditional(\n'),
    ]},
]

# ---------------------------------------------------------------------
# R11.10 (parse_etags evaluated on well-formed entity-tag lists) / R11.11 (FileWrapper.seekable on stand-in files)
_ETAG_RE = """_etag_re = re.compile(r'([Ww]/)?(?:"(.*?)"|(.*?))(?:\\s*,\\s*|$)')"""
_PE_LOOP_HEAD = "    while pos < end:\n        match = _etag_re.match(value, pos)\n"
_FW_SEEKABLE = (
    "    def seekable(self) -> bool:\n"
    '        if hasattr(self.file, "seekable"):\n'
    "            return self.file.seekable()\n"
    '        if hasattr(self.file, "seek"):\n'
    "            return True\n"
    "        return False\n"
)
_ETAGS_INIT = (
    "        if not star_tag and strong_etags:\n"
    "            self._strong = frozenset(strong_etags)\n"
    "        else:\n"
    "            self._strong = frozenset()\n"
    "\n"
    "        self._weak = frozenset(weak_etags or ())\n"
)


def _fw(body: str) -> list:
    return [(WS, _FW_SEEKABLE, "    def seekable(self) -> bool:\n" + body)]


MUTANTS += [
    {"name": "etag-re-no-blank-before-comma", "expect": "R11.10", "edits": [(HT, _ETAG_RE, """_etag_re = re.compile(r'([Ww]/)?(?:"(.*?)"|(.*?))(?:,\\s*|$)')""")]},
    {"name": "etag-re-no-blank-after-comma", "expect": "R11.10", "edits": [(HT, _ETAG_RE, """_etag_re = re.compile(r'([Ww]/)?(?:"(.*?)"|(.*?))(?:\\s*,|$)')""")]},
    {"name": "etag-re-space-only-separator", "expect": "R11.10", "edits": [(HT, _ETAG_RE, """_etag_re = re.compile(r'([Ww]/)?(?:"(.*?)"|(.*?))(?: ?, ?|$)')""")]},
    {"name": "etag-re-greedy-quoted-group", "expect": "R11.10", "edits": [(HT, _ETAG_RE, """_etag_re = re.compile(r'([Ww]/)?(?:"(.*)"|(.*?))(?:\\s*,\\s*|$)')""")]},
    {"name": "etag-re-verbose-separator-class-too-narrow", "expect": "R11.10", "edits": [(HT, _ETAG_RE, '_etag_re = re.compile(\n    r"""\n    ([Ww]/)?              # weakness marker\n    (?:"(.*?)"|(.*?))     # quoted or raw tag\n    (?:[ ]*,[ \\t]*|$)     # separator\n    """,\n    re.VERBOSE,\n)')]},
    {"name": "parse-etags-only-first-member", "expect": "R11.10", "edits": [(HT, _PE_LOOP_HEAD, "    while pos < end and not (strong or weak):\n        match = _etag_re.match(value, pos)\n")]},
    {"name": "parse-etags-quoted-text-dropped", "expect": "R11.10", "edits": [(HT, "        elif quoted:\n            raw = quoted\n", "        elif quoted and is_weak:\n            raw = quoted\n")]},
    {"name": "parse-etags-split-on-comma", "expect": "R11.10", "edits": [(HT, "        pos = match.end()\n", '        pos = value.find(",", pos) + 1 or end\n')]},
    {"name": "etags-init-strong-dropped-polarity", "expect": "R11.10", "edits": [(ET, "        if not star_tag and strong_etags:\n", "        if star_tag and strong_etags:\n")]},
    {"name": "etags-init-weak-kept-only-without-strong", "expect": "R11.10", "edits": [(ET, "        self._weak = frozenset(weak_etags or ())\n", "        self._weak = frozenset(() if strong_etags else weak_etags or ())\n")]},
    # R11.11
    {"name": "filewrapper-seekable-by-attribute-presence", "expect": "R11.11", "edits": _fw('        return hasattr(self.file, "seek") and hasattr(self.file, "tell")\n')},
    {"name": "filewrapper-seekable-seek-attribute-first", "expect": "R11.11", "edits": _fw('        if hasattr(self.file, "seek"):\n            return True\n        if hasattr(self.file, "seekable"):\n            return self.file.seekable()\n        return False\n')},
    {"name": "filewrapper-seekable-or-fallback", "expect": "R11.11", "edits": _fw('        file = self.file\n        answer = getattr(file, "seekable", None)\n        return bool(answer is not None and answer() or hasattr(file, "seek"))\n')},
    {"name": "filewrapper-seekable-method-presence-not-called", "expect": "R11.11", "edits": _fw('        return callable(getattr(self.file, "seekable", None)) or hasattr(self.file, "seek")\n')},
    {"name": "filewrapper-seekable-negated-answer", "expect": "R11.11", "edits": _fw('        try:\n            return not self.file.seekable()\n        except AttributeError:\n            return hasattr(self.file, "seek")\n')},
]
TWINS += [
    {"name": "etag-re-explicit-whitespace-class", "edits": [(HT, _ETAG_RE, """_etag_re = re.compile(r'([Ww]/)?(?:"(.*?)"|(.*?))(?:[ \\t\\n\\r\\f\\v]*,[ \\t\\n\\r\\f\\v]*|$)')""")]},
    {"name": "etag-re-alternatives-swapped", "edits": [(HT, _ETAG_RE, """_etag_re = re.compile(r'([Ww]/)?(?:"(.*?)"|(.*?))(?:$|\\s*,\\s*)')""")]},
    {"name": "etag-re-verbose-layout", "edits": [(HT, _ETAG_RE, '_etag_re = re.compile(\n    r"""\n    ([Ww]/)?              # weakness marker\n    (?:"(.*?)"|(.*?))     # quoted or raw tag\n    (?:\\s*,\\s*|$)         # separator\n    """,\n    re.VERBOSE,\n)')]},
    {"name": "etag-re-built-from-pieces", "edits": [(HT, _ETAG_RE, '_etag_sep = r"(?:\\s*,\\s*|$)"\n_etag_re = re.compile(r\'([Ww]/)?(?:"(.*?)"|(.*?))\' + _etag_sep)')]},
    {"name": "etags-init-conditional-expressions", "edits": [(ET, _ETAGS_INIT, "        self._weak = frozenset(weak_etags) if weak_etags else frozenset()\n        self._strong = frozenset() if star_tag or not strong_etags else frozenset(strong_etags)\n")]},
    {"name": "filewrapper-seekable-getattr-default", "edits": _fw('        answer = getattr(self.file, "seekable", None)\n        if answer is not None:\n            return answer()\n        return hasattr(self.file, "seek")\n')},
    {"name": "filewrapper-seekable-try-except", "edits": _fw('        file = self.file\n        try:\n            probe = file.seekable\n        except AttributeError:\n            return hasattr(file, "seek")\n        return probe()\n')},
    {"name": "filewrapper-seekable-conditional-expression", "edits": _fw('        return self.file.seekable() if hasattr(self.file, "seekable") else hasattr(self.file, "seek")\n')},
    {"name": "filewrapper-seekable-private-helper", "edits": _fw('        return self._file_can_seek(self.file)\n\n    @staticmethod\n    def _file_can_seek(file: t.Any) -> bool:\n        if not hasattr(file, "seekable"):\n            return hasattr(file, "seek")\n        return file.seekable()\n')},
]

# ---------------------------------------------------------------------
# detection round 3: fresh maintainer-style refactorings of parse_etags / _etag_re / ETags / FileWrapper (all neutral),
# and a defect in each new shape
TWINS += [{'edits': [('http.py',
             '_token_chars = frozenset(\n'
             '    "!#$%&\'*+-.0123456789ABCDEFGHIJKLMNOPQRSTUVWXYZ^_`abcdefghijklmnopqrstuvwxyz|~"\n'
             ')\n'
             '_etag_re = re.compile(r\'([Ww]/)?(?:"(.*?)"|(.*?))(?:\\s*,\\s*|$)\')\n'
             '_entity_headers = frozenset(\n'
             '    [\n'
             '        "allow",\n',
             '_token_chars = frozenset(\n'
             '    "!#$%&\'*+-.0123456789ABCDEFGHIJKLMNOPQRSTUVWXYZ^_`abcdefghijklmnopqrstuvwxyz|~"\n'
             ')\n'
             '_etag_re = re.compile(\n'
             '    r"""\n'
             '    ([Ww]/)?            # optional weakness indicator\n'
             '    (?:\n'
             '        "(.*?)"         # quoted opaque tag\n'
             '    |\n'
             '        (.*?)           # bare value, also catches "*"\n'
             '    )\n'
             '    (?:\\s*,\\s*|$)       # list separator or end of the header\n'
             '    """,\n'
             '    flags=re.VERBOSE,\n'
             ')\n'
             '_entity_headers = frozenset(\n'
             '    [\n'
             '        "allow",\n')],
  'name': 'detect3-etag-re-verbose-flags-keyword'},
 {'edits': [('http.py',
             '_token_chars = frozenset(\n'
             '    "!#$%&\'*+-.0123456789ABCDEFGHIJKLMNOPQRSTUVWXYZ^_`abcdefghijklmnopqrstuvwxyz|~"\n'
             ')\n'
             '_etag_re = re.compile(r\'([Ww]/)?(?:"(.*?)"|(.*?))(?:\\s*,\\s*|$)\')\n'
             '_entity_headers = frozenset(\n'
             '    [\n'
             '        "allow",\n',
             '_token_chars = frozenset(\n'
             '    "!#$%&\'*+-.0123456789ABCDEFGHIJKLMNOPQRSTUVWXYZ^_`abcdefghijklmnopqrstuvwxyz|~"\n'
             ')\n'
             '_etag_re = re.compile(\n'
             '    r\'(?P<weak>[Ww]/)?(?:"(?P<quoted>.*?)"|(?P<raw>.*?))(?:\\s*,\\s*|$)\'\n'
             ')\n'
             '_entity_headers = frozenset(\n'
             '    [\n'
             '        "allow",\n'),
            ('http.py',
             '        match = _etag_re.match(value, pos)\n'
             '        if match is None:\n'
             '            break\n'
             '        is_weak, quoted, raw = match.groups()\n'
             '        if raw == "*":\n'
             '            return ds.ETags(star_tag=True)\n'
             '        elif quoted:\n'
             '            raw = quoted\n'
             '        if is_weak:\n'
             '            weak.append(raw)\n'
             '        else:\n'
             '            strong.append(raw)\n',
             '        match = _etag_re.match(value, pos)\n'
             '        if match is None:\n'
             '            break\n'
             '        raw = match.group("raw")\n'
             '        if raw == "*":\n'
             '            return ds.ETags(star_tag=True)\n'
             '        quoted = match.group("quoted")\n'
             '        if quoted:\n'
             '            raw = quoted\n'
             '        if match.group("weak"):\n'
             '            weak.append(raw)\n'
             '        else:\n'
             '            strong.append(raw)\n')],
  'name': 'detect3-parse-etags-named-groups'},
 {'edits': [('http.py',
             '_token_chars = frozenset(\n'
             '    "!#$%&\'*+-.0123456789ABCDEFGHIJKLMNOPQRSTUVWXYZ^_`abcdefghijklmnopqrstuvwxyz|~"\n'
             ')\n'
             '_etag_re = re.compile(r\'([Ww]/)?(?:"(.*?)"|(.*?))(?:\\s*,\\s*|$)\')\n'
             '_entity_headers = frozenset(\n'
             '    [\n'
             '        "allow",\n',
             '_token_chars = frozenset(\n'
             '    "!#$%&\'*+-.0123456789ABCDEFGHIJKLMNOPQRSTUVWXYZ^_`abcdefghijklmnopqrstuvwxyz|~"\n'
             ')\n'
             '_etag_weak_prefix = r"(?:W|w)/"\n'
             '_etag_quoted = r\'"(.*?)"\'\n'
             '_etag_bare = r"(.*?)"\n'
             '_etag_list_sep = r"\\s*,\\s*"\n'
             '_etag_re = re.compile(\n'
             '    f"({_etag_weak_prefix})?"\n'
             '    f"(?:{_etag_quoted}|{_etag_bare})"\n'
             '    f"(?:{_etag_list_sep}|$)"\n'
             ')\n'
             '_entity_headers = frozenset(\n'
             '    [\n'
             '        "allow",\n')],
  'name': 'detect3-etag-re-fstring-pieces'},
 {'edits': [('http.py',
             '_token_chars = frozenset(\n'
             '    "!#$%&\'*+-.0123456789ABCDEFGHIJKLMNOPQRSTUVWXYZ^_`abcdefghijklmnopqrstuvwxyz|~"\n'
             ')\n'
             '_etag_re = re.compile(r\'([Ww]/)?(?:"(.*?)"|(.*?))(?:\\s*,\\s*|$)\')\n'
             '_entity_headers = frozenset(\n'
             '    [\n'
             '        "allow",\n',
             '_token_chars = frozenset(\n'
             '    "!#$%&\'*+-.0123456789ABCDEFGHIJKLMNOPQRSTUVWXYZ^_`abcdefghijklmnopqrstuvwxyz|~"\n'
             ')\n'
             '_etag_re = re.compile(\n'
             '    r"([wW]/)?"  # weak marker\n'
             '    r\'(?:"([^\\n]*?)"|([^\\n]*?))\'  # quoted tag, or anything else\n'
             '    r"(?:$|[\\s]*,[\\s]*)"  # end of header, or separator\n'
             ')\n'
             '_entity_headers = frozenset(\n'
             '    [\n'
             '        "allow",\n')],
  'name': 'detect3-etag-re-negated-newline-class'},
 {'edits': [('http.py',
             '    return etag, weak\n\n\ndef parse_etags(value: str | None) -> ds.ETags:\n    """Parse an etag header.\n\n',
             '    return etag, weak\n'
             '\n'
             '\n'
             'def _iter_etag_items(\n'
             '    value: str,\n'
             ') -> t.Iterator[tuple[str | None, str | None, str | None]]:\n'
             '    """Yield ``(weak_marker, quoted, raw)`` for each item of an etag list,\n'
             "    stopping at the first position that can't be parsed.\n"
             '    """\n'
             '    end = len(value)\n'
             '    pos = 0\n'
             '    while pos < end:\n'
             '        match = _etag_re.match(value, pos)\n'
             '        if match is None:\n'
             '            return\n'
             '        yield match.groups()\n'
             '        pos = match.end()\n'
             '\n'
             '\n'
             'def parse_etags(value: str | None) -> ds.ETags:\n'
             '    """Parse an etag header.\n'
             '\n'),
            ('http.py',
             '        return ds.ETags()\n'
             '    strong = []\n'
             '    weak = []\n'
             '    end = len(value)\n'
             '    pos = 0\n'
             '    while pos < end:\n'
             '        match = _etag_re.match(value, pos)\n'
             '        if match is None:\n'
             '            break\n'
             '        is_weak, quoted, raw = match.groups()\n'
             '        if raw == "*":\n'
             '            return ds.ETags(star_tag=True)\n'
             '        elif quoted:\n',
             '        return ds.ETags()\n'
             '    strong = []\n'
             '    weak = []\n'
             '    for is_weak, quoted, raw in _iter_etag_items(value):\n'
             '        if raw == "*":\n'
             '            return ds.ETags(star_tag=True)\n'
             '        elif quoted:\n'),
            ('http.py',
             '            weak.append(raw)\n        else:\n            strong.append(raw)\n        pos = match.end()\n    return ds.ETags(strong, weak)\n\n\n',
             '            weak.append(raw)\n        else:\n            strong.append(raw)\n    return ds.ETags(strong, weak)\n\n\n')],
  'name': 'detect3-parse-etags-generator-of-groups'},
 {'edits': [('http.py',
             '    """\n'
             '    if not value:\n'
             '        return ds.ETags()\n'
             '    strong = []\n'
             '    weak = []\n'
             '    end = len(value)\n'
             '    pos = 0\n'
             '    while pos < end:\n'
             '        match = _etag_re.match(value, pos)\n'
             '        if match is None:\n'
             '            break\n'
             '        is_weak, quoted, raw = match.groups()\n'
             '        if raw == "*":\n'
             '            return ds.ETags(star_tag=True)\n'
             '        elif quoted:\n'
             '            raw = quoted\n'
             '        if is_weak:\n'
             '            weak.append(raw)\n'
             '        else:\n'
             '            strong.append(raw)\n'
             '        pos = match.end()\n'
             '    return ds.ETags(strong, weak)\n'
             '\n'
             '\n'
             'def generate_etag(data: bytes) -> str:\n',
             '    """\n'
             '    if not value:\n'
             '        return ds.ETags()\n'
             '    strong_tags = []\n'
             '    weak_tags = []\n'
             '    offset = 0\n'
             '    length = len(value)\n'
             '    while offset < length:\n'
             '        m = _etag_re.match(value, offset)\n'
             '        if m is None:\n'
             '            break\n'
             '        offset = m.end()\n'
             '        # 1: weak marker, 2: quoted tag, 3: unquoted value\n'
             '        if m[3] == "*":\n'
             '            return ds.ETags(star_tag=True)\n'
             '        tag = m[2] if m[2] else m[3]\n'
             '        if not m[1]:\n'
             '            strong_tags.append(tag)\n'
             '        else:\n'
             '            weak_tags.append(tag)\n'
             '    return ds.ETags(strong_tags, weak_tags)\n'
             '\n'
             '\n'
             'def generate_etag(data: bytes) -> str:\n')],
  'name': 'detect3-parse-etags-match-subscripts'},
 {'edits': [('http.py',
             '    """\n'
             '    if not value:\n'
             '        return ds.ETags()\n'
             '    strong = []\n'
             '    weak = []\n'
             '    end = len(value)\n'
             '    pos = 0\n'
             '    while pos < end:\n'
             '        match = _etag_re.match(value, pos)\n'
             '        if match is None:\n'
             '            break\n'
             '        is_weak, quoted, raw = match.groups()\n'
             '        if raw == "*":\n'
             '            return ds.ETags(star_tag=True)\n'
             '        elif quoted:\n'
             '            raw = quoted\n'
             '        if is_weak:\n'
             '            weak.append(raw)\n'
             '        else:\n'
             '            strong.append(raw)\n'
             '        pos = match.end()\n'
             '    return ds.ETags(strong, weak)\n'
             '\n',
             '    """\n'
             '    if not value:\n'
             '        return ds.ETags()\n'
             '    strong: list[str | None] = []\n'
             '    weak: list[str | None] = []\n'
             '    match_at = _etag_re.match\n'
             '    pos, end = 0, len(value)\n'
             '    while pos < end and (match := match_at(value, pos)) is not None:\n'
             '        is_weak, quoted, raw = match.groups()\n'
             '        if raw == "*":\n'
             '            return ds.ETags(star_tag=True)\n'
             '        tags = weak if is_weak else strong\n'
             '        tags.append(quoted or raw)\n'
             '        pos = match.end()\n'
             '    return ds.ETags(strong, weak)\n'
             '\n')],
  'name': 'detect3-parse-etags-bound-match-walrus-loop'},
 {'edits': [('datastructures/etag.py',
             '        weak_etags: cabc.Iterable[str] | None = None,\n'
             '        star_tag: bool = False,\n'
             '    ):\n'
             '        if not star_tag and strong_etags:\n'
             '            self._strong = frozenset(strong_etags)\n'
             '        else:\n'
             '            self._strong = frozenset()\n'
             '\n'
             '        self._weak = frozenset(weak_etags or ())\n'
             '        self.star_tag = star_tag\n'
             '\n'
             '    def as_set(self, include_weak: bool = False) -> set[str]:\n'
             '        """Convert the `ETags` object into a python set.  Per default all the\n',
             '        weak_etags: cabc.Iterable[str] | None = None,\n'
             '        star_tag: bool = False,\n'
             '    ):\n'
             '        self.star_tag = star_tag\n'
             '        self._strong = (\n'
             '            frozenset(strong_etags) if not star_tag and strong_etags else frozenset()\n'
             '        )\n'
             '\n'
             '        if weak_etags:\n'
             '            self._weak = frozenset(weak_etags)\n'
             '        else:\n'
             '            self._weak = frozenset()\n'
             '\n'
             '    def as_set(self, include_weak: bool = False) -> set[str]:\n'
             '        """Convert the `ETags` object into a python set.  Per default all the\n'),
            ('datastructures/etag.py',
             '\n'
             '    def contains_weak(self, etag: str) -> bool:\n'
             '        """Check if an etag is part of the set including weak and strong tags."""\n'
             '        return self.is_weak(etag) or self.contains(etag)\n'
             '\n'
             '    def contains(self, etag: str) -> bool:\n'
             '        """Check if an etag is part of the set ignoring weak tags.\n'
             '        It is also possible to use the ``in`` operator.\n'
             '        """\n'
             '        if self.star_tag:\n'
             '            return True\n'
             '        return self.is_strong(etag)\n'
             '\n'
             '    def contains_raw(self, etag: str) -> bool:\n'
             '        """When passed a quoted tag it will check if this tag is part of the\n',
             '\n'
             '    def contains_weak(self, etag: str) -> bool:\n'
             '        """Check if an etag is part of the set including weak and strong tags."""\n'
             '        if weak := self.is_weak(etag):\n'
             '            return weak\n'
             '        return self.contains(etag)\n'
             '\n'
             '    def contains(self, etag: str) -> bool:\n'
             '        """Check if an etag is part of the set ignoring weak tags.\n'
             '        It is also possible to use the ``in`` operator.\n'
             '        """\n'
             '        return True if self.star_tag else self.is_strong(etag)\n'
             '\n'
             '    def contains_raw(self, etag: str) -> bool:\n'
             '        """When passed a quoted tag it will check if this tag is part of the\n')],
  'name': 'detect3-etags-walrus-and-conditional-expressions'},
 {'edits': [('datastructures/etag.py',
             'import collections.abc as cabc\n\n\nclass ETags(cabc.Collection[str]):\n    """A set that can be used to check if one etag is present in a collection\n    of etags.\n',
             'import collections.abc as cabc\n'
             '\n'
             '\n'
             'def _freeze(etags: cabc.Iterable[str] | None) -> frozenset[str]:\n'
             '    if not etags:\n'
             '        return frozenset()\n'
             '    return frozenset(etags)\n'
             '\n'
             '\n'
             'class ETags(cabc.Collection[str]):\n'
             '    """A set that can be used to check if one etag is present in a collection\n'
             '    of etags.\n'),
            ('datastructures/etag.py',
             '        weak_etags: cabc.Iterable[str] | None = None,\n'
             '        star_tag: bool = False,\n'
             '    ):\n'
             '        if not star_tag and strong_etags:\n'
             '            self._strong = frozenset(strong_etags)\n'
             '        else:\n'
             '            self._strong = frozenset()\n'
             '\n'
             '        self._weak = frozenset(weak_etags or ())\n'
             '        self.star_tag = star_tag\n'
             '\n'
             '    def as_set(self, include_weak: bool = False) -> set[str]:\n',
             '        weak_etags: cabc.Iterable[str] | None = None,\n'
             '        star_tag: bool = False,\n'
             '    ):\n'
             '        # A star tag matches everything, individual strong tags are dropped.\n'
             '        self._strong = _freeze(None if star_tag else strong_etags)\n'
             '        self._weak = _freeze(weak_etags)\n'
             '        self.star_tag = star_tag\n'
             '\n'
             '    def as_set(self, include_weak: bool = False) -> set[str]:\n'),
            ('datastructures/etag.py',
             '        """Check if an etag is part of the set ignoring weak tags.\n'
             '        It is also possible to use the ``in`` operator.\n'
             '        """\n'
             '        if self.star_tag:\n'
             '            return True\n'
             '        return self.is_strong(etag)\n'
             '\n'
             '    def contains_raw(self, etag: str) -> bool:\n'
             '        """When passed a quoted tag it will check if this tag is part of the\n',
             '        """Check if an etag is part of the set ignoring weak tags.\n'
             '        It is also possible to use the ``in`` operator.\n'
             '        """\n'
             '        return bool(self.star_tag) or self.is_strong(etag)\n'
             '\n'
             '    def contains_raw(self, etag: str) -> bool:\n'
             '        """When passed a quoted tag it will check if this tag is part of the\n')],
  'name': 'detect3-etags-freeze-helper'},
 {'edits': [('datastructures/etag.py',
             '        star_tag: bool = False,\n'
             '    ):\n'
             '        if not star_tag and strong_etags:\n'
             '            self._strong = frozenset(strong_etags)\n'
             '        else:\n'
             '            self._strong = frozenset()\n'
             '\n'
             '        self._weak = frozenset(weak_etags or ())\n'
             '        self.star_tag = star_tag\n'
             '\n'
             '    def as_set(self, include_weak: bool = False) -> set[str]:\n'
             '        """Convert the `ETags` object into a python set.  Per default all the\n'
             '        weak etags are not part of this set."""\n',
             '        star_tag: bool = False,\n'
             '    ):\n'
             '        if not star_tag and strong_etags:\n'
             '            strong = frozenset(strong_etags)\n'
             '        else:\n'
             '            strong = frozenset()\n'
             '\n'
             '        weak = frozenset(weak_etags or ())\n'
             '        #: The stored tags as a ``(strong, weak)`` pair.\n'
             '        self._tags: tuple[frozenset[str], frozenset[str]] = (strong, weak)\n'
             '        self.star_tag = star_tag\n'
             '\n'
             '    @property\n'
             '    def _strong(self) -> frozenset[str]:\n'
             '        return self._tags[0]\n'
             '\n'
             '    @property\n'
             '    def _weak(self) -> frozenset[str]:\n'
             '        return self._tags[1]\n'
             '\n'
             '    def as_set(self, include_weak: bool = False) -> set[str]:\n'
             '        """Convert the `ETags` object into a python set.  Per default all the\n'
             '        weak etags are not part of this set."""\n'),
            ('datastructures/etag.py',
             '\n'
             '    def is_weak(self, etag: str) -> bool:\n'
             '        """Check if an etag is weak."""\n'
             '        return etag in self._weak\n'
             '\n'
             '    def is_strong(self, etag: str) -> bool:\n'
             '        """Check if an etag is strong."""\n'
             '        return etag in self._strong\n'
             '\n'
             '    def contains_weak(self, etag: str) -> bool:\n'
             '        """Check if an etag is part of the set including weak and strong tags."""\n',
             '\n'
             '    def is_weak(self, etag: str) -> bool:\n'
             '        """Check if an etag is weak."""\n'
             '        _, weak = self._tags\n'
             '        return etag in weak\n'
             '\n'
             '    def is_strong(self, etag: str) -> bool:\n'
             '        """Check if an etag is strong."""\n'
             '        strong, _ = self._tags\n'
             '        return etag in strong\n'
             '\n'
             '    def contains_weak(self, etag: str) -> bool:\n'
             '        """Check if an etag is part of the set including weak and strong tags."""\n')],
  'name': 'detect3-etags-pair-representation'},
 {'edits': [('wsgi.py',
             'from functools import partial\n'
             'from functools import update_wrapper\n'
             '\n'
             'from .exceptions import ClientDisconnected\n'
             'from .exceptions import RequestEntityTooLarge\n'
             'from .sansio import utils as _sansio_utils\n',
             'from functools import partial\n'
             'from functools import update_wrapper\n'
             '\n'
             'from ._internal import _missing\n'
             'from .exceptions import ClientDisconnected\n'
             'from .exceptions import RequestEntityTooLarge\n'
             'from .sansio import utils as _sansio_utils\n'),
            ('wsgi.py',
             '            self.file.close()\n'
             '\n'
             '    def seekable(self) -> bool:\n'
             '        if hasattr(self.file, "seekable"):\n'
             '            return self.file.seekable()\n'
             '        if hasattr(self.file, "seek"):\n'
             '            return True\n'
             '        return False\n'
             '\n'
             '    def seek(self, *args: t.Any) -> None:\n'
             '        if hasattr(self.file, "seek"):\n'
             '            self.file.seek(*args)\n'
             '\n'
             '    def tell(self) -> int | None:\n'
             '        if hasattr(self.file, "tell"):\n'
             '            return self.file.tell()\n'
             '        return None\n'
             '\n'
             '    def __iter__(self) -> FileWrapper:\n',
             '            self.file.close()\n'
             '\n'
             '    def seekable(self) -> bool:\n'
             '        seekable = getattr(self.file, "seekable", _missing)\n'
             '        if seekable is not _missing:\n'
             '            return seekable()  # type: ignore[no-any-return]\n'
             '        # Older file-like objects only provide seek().\n'
             '        return getattr(self.file, "seek", _missing) is not _missing\n'
             '\n'
             '    def seek(self, *args: t.Any) -> None:\n'
             '        seek = getattr(self.file, "seek", _missing)\n'
             '        if seek is not _missing:\n'
             '            seek(*args)\n'
             '\n'
             '    def tell(self) -> int | None:\n'
             '        tell = getattr(self.file, "tell", _missing)\n'
             '        if tell is not _missing:\n'
             '            return tell()  # type: ignore[no-any-return]\n'
             '        return None\n'
             '\n'
             '    def __iter__(self) -> FileWrapper:\n')],
  'name': 'detect3-filewrapper-getattr-missing-sentinel'},
 {'edits': [('wsgi.py',
             '            self.file.close()\n'
             '\n'
             '    def seekable(self) -> bool:\n'
             '        if hasattr(self.file, "seekable"):\n'
             '            return self.file.seekable()\n'
             '        if hasattr(self.file, "seek"):\n'
             '            return True\n'
             '        return False\n'
             '\n'
             '    def seek(self, *args: t.Any) -> None:\n'
             '        if hasattr(self.file, "seek"):\n',
             '            self.file.close()\n'
             '\n'
             '    def seekable(self) -> bool:\n'
             '        try:\n'
             '            seekable = self.file.seekable\n'
             '        except AttributeError:\n'
             '            pass\n'
             '        else:\n'
             '            return seekable()  # type: ignore[no-any-return]\n'
             '\n'
             '        # No ``seekable`` method, being able to seek is good enough.\n'
             '        try:\n'
             '            self.file.seek  # noqa: B018\n'
             '        except AttributeError:\n'
             '            return False\n'
             '        return True\n'
             '\n'
             '    def seek(self, *args: t.Any) -> None:\n'
             '        if hasattr(self.file, "seek"):\n')],
  'name': 'detect3-filewrapper-try-else-attribute-probe'},
 {'edits': [('wsgi.py',
             '            self.file.close()\n'
             '\n'
             '    def seekable(self) -> bool:\n'
             '        if hasattr(self.file, "seekable"):\n'
             '            return self.file.seekable()\n'
             '        if hasattr(self.file, "seek"):\n'
             '            return True\n'
             '        return False\n'
             '\n'
             '    def seek(self, *args: t.Any) -> None:\n'
             '        if hasattr(self.file, "seek"):\n'
             '            self.file.seek(*args)\n'
             '\n'
             '    def tell(self) -> int | None:\n'
             '        if hasattr(self.file, "tell"):\n'
             '            return self.file.tell()\n'
             '        return None\n'
             '\n'
             '    def __iter__(self) -> FileWrapper:\n'
             '        return self\n',
             '            self.file.close()\n'
             '\n'
             '    def seekable(self) -> bool:\n'
             '        file = self.file\n'
             '        return file.seekable() if hasattr(file, "seekable") else hasattr(file, "seek")\n'
             '\n'
             '    def seek(self, *args: t.Any) -> None:\n'
             '        file = self.file\n'
             '        if not hasattr(file, "seek"):\n'
             '            return\n'
             '        file.seek(*args)\n'
             '\n'
             '    def tell(self) -> int | None:\n'
             '        file = self.file\n'
             '        return file.tell() if hasattr(file, "tell") else None\n'
             '\n'
             '    def __iter__(self) -> FileWrapper:\n'
             '        return self\n')],
  'name': 'detect3-filewrapper-local-file-conditional-expressions'},
 {'edits': [('wsgi.py',
             '    """\n'
             '\n'
             '    def __init__(self, file: t.IO[bytes], buffer_size: int = 8192) -> None:\n'
             '        self.file = file\n'
             '        self.buffer_size = buffer_size\n'
             '\n'
             '    def close(self) -> None:\n'
             '        if hasattr(self.file, "close"):\n'
             '            self.file.close()\n'
             '\n'
             '    def seekable(self) -> bool:\n'
             '        if hasattr(self.file, "seekable"):\n'
             '            return self.file.seekable()\n'
             '        if hasattr(self.file, "seek"):\n'
             '            return True\n'
             '        return False\n'
             '\n'
             '    def seek(self, *args: t.Any) -> None:\n'
             '        if hasattr(self.file, "seek"):\n'
             '            self.file.seek(*args)\n'
             '\n'
             '    def tell(self) -> int | None:\n'
             '        if hasattr(self.file, "tell"):\n'
             '            return self.file.tell()\n'
             '        return None\n'
             '\n'
             '    def __iter__(self) -> FileWrapper:\n'
             '        return self\n',
             '    """\n'
             '\n'
             '    def __init__(self, file: t.IO[bytes], buffer_size: int = 8192) -> None:\n'
             '        self.file, self.buffer_size = file, buffer_size\n'
             '\n'
             '    def _file_has(self, name: str) -> bool:\n'
             '        """Whether the wrapped file provides the given optional method."""\n'
             '        return hasattr(self.file, name)\n'
             '\n'
             '    def close(self) -> None:\n'
             '        if self._file_has("close"):\n'
             '            self.file.close()\n'
             '\n'
             '    def seekable(self) -> bool:\n'
             '        if not self._file_has("seekable"):\n'
             '            # Fall back to checking for a ``seek`` method.\n'
             '            return self._file_has("seek")\n'
             '        return self.file.seekable()\n'
             '\n'
             '    def seek(self, *args: t.Any) -> None:\n'
             '        if self._file_has("seek"):\n'
             '            self.file.seek(*args)\n'
             '\n'
             '    def tell(self) -> int | None:\n'
             '        if not self._file_has("tell"):\n'
             '            return None\n'
             '        return self.file.tell()\n'
             '\n'
             '    def __iter__(self) -> FileWrapper:\n'
             '        return self\n')],
  'name': 'detect3-filewrapper-file-has-helper-method'}]
MUTANTS += [{'edits': [('http.py',
             '_token_chars = frozenset(\n'
             '    "!#$%&\'*+-.0123456789ABCDEFGHIJKLMNOPQRSTUVWXYZ^_`abcdefghijklmnopqrstuvwxyz|~"\n'
             ')\n'
             '_etag_re = re.compile(r\'([Ww]/)?(?:"(.*?)"|(.*?))(?:\\s*,\\s*|$)\')\n'
             '_entity_headers = frozenset(\n'
             '    [\n'
             '        "allow",\n',
             '_token_chars = frozenset(\n'
             '    "!#$%&\'*+-.0123456789ABCDEFGHIJKLMNOPQRSTUVWXYZ^_`abcdefghijklmnopqrstuvwxyz|~"\n'
             ')\n'
             '_etag_re = re.compile(\n'
             '    r\'(?P<weak>[Ww]/)?(?:"(?P<quoted>.*?)"|(?P<raw>.*?))(?:\\s*,\\s*|$)\'\n'
             ')\n'
             '_entity_headers = frozenset(\n'
             '    [\n'
             '        "allow",\n'),
            ('http.py',
             '        match = _etag_re.match(value, pos)\n'
             '        if match is None:\n'
             '            break\n'
             '        is_weak, quoted, raw = match.groups()\n'
             '        if raw == "*":\n'
             '            return ds.ETags(star_tag=True)\n'
             '        elif quoted:\n'
             '            raw = quoted\n'
             '        if is_weak:\n'
             '            weak.append(raw)\n'
             '        else:\n'
             '            strong.append(raw)\n',
             '        match = _etag_re.match(value, pos)\n'
             '        if match is None:\n'
             '            break\n'
             '        raw = match.group("raw")\n'
             '        if raw == "*":\n'
             '            return ds.ETags(star_tag=True)\n'
             '        quoted = match.group("quoted")\n'
             '        if quoted:\n'
             '            raw = quoted\n'
             '        if not match.group("weak"):\n'
             '            weak.append(raw)\n'
             '        else:\n'
             '            strong.append(raw)\n')],
  'expect': 'R11.1',
  'name': 'detect3-named-groups-filing-inverted'},
 {'edits': [('http.py',
             '    """\n'
             '    if not value:\n'
             '        return ds.ETags()\n'
             '    strong = []\n'
             '    weak = []\n'
             '    end = len(value)\n'
             '    pos = 0\n'
             '    while pos < end:\n'
             '        match = _etag_re.match(value, pos)\n'
             '        if match is None:\n'
             '            break\n'
             '        is_weak, quoted, raw = match.groups()\n'
             '        if raw == "*":\n'
             '            return ds.ETags(star_tag=True)\n'
             '        elif quoted:\n'
             '            raw = quoted\n'
             '        if is_weak:\n'
             '            weak.append(raw)\n'
             '        else:\n'
             '            strong.append(raw)\n'
             '        pos = match.end()\n'
             '    return ds.ETags(strong, weak)\n'
             '\n',
             '    """\n'
             '    if not value:\n'
             '        return ds.ETags()\n'
             '    strong: list[str | None] = []\n'
             '    weak: list[str | None] = []\n'
             '    match_at = _etag_re.match\n'
             '    pos, end = 0, len(value)\n'
             '    while pos < end and (match := match_at(value, pos)) is not None:\n'
             '        is_weak, quoted, raw = match.groups()\n'
             '        if raw == "*":\n'
             '            return ds.ETags(star_tag=True)\n'
             '        tags = strong if is_weak else weak\n'
             '        tags.append(quoted or raw)\n'
             '        pos = match.end()\n'
             '    return ds.ETags(strong, weak)\n'
             '\n')],
  'expect': 'R11.1',
  'name': 'detect3-bound-match-selector-inverted'},
 {'edits': [('datastructures/etag.py',
             '        weak_etags: cabc.Iterable[str] | None = None,\n'
             '        star_tag: bool = False,\n'
             '    ):\n'
             '        if not star_tag and strong_etags:\n'
             '            self._strong = frozenset(strong_etags)\n'
             '        else:\n'
             '            self._strong = frozenset()\n'
             '\n'
             '        self._weak = frozenset(weak_etags or ())\n'
             '        self.star_tag = star_tag\n'
             '\n'
             '    def as_set(self, include_weak: bool = False) -> set[str]:\n'
             '        """Convert the `ETags` object into a python set.  Per default all the\n',
             '        weak_etags: cabc.Iterable[str] | None = None,\n'
             '        star_tag: bool = False,\n'
             '    ):\n'
             '        self.star_tag = star_tag\n'
             '        self._strong = (\n'
             '            frozenset(strong_etags) if not star_tag and strong_etags else frozenset()\n'
             '        )\n'
             '\n'
             '        if weak_etags:\n'
             '            self._weak = frozenset(weak_etags)\n'
             '        else:\n'
             '            self._weak = frozenset()\n'
             '\n'
             '    def as_set(self, include_weak: bool = False) -> set[str]:\n'
             '        """Convert the `ETags` object into a python set.  Per default all the\n'),
            ('datastructures/etag.py',
             '\n'
             '    def contains_weak(self, etag: str) -> bool:\n'
             '        """Check if an etag is part of the set including weak and strong tags."""\n'
             '        return self.is_weak(etag) or self.contains(etag)\n'
             '\n'
             '    def contains(self, etag: str) -> bool:\n'
             '        """Check if an etag is part of the set ignoring weak tags.\n'
             '        It is also possible to use the ``in`` operator.\n'
             '        """\n'
             '        if self.star_tag:\n'
             '            return True\n'
             '        return self.is_strong(etag)\n'
             '\n'
             '    def contains_raw(self, etag: str) -> bool:\n'
             '        """When passed a quoted tag it will check if this tag is part of the\n',
             '\n'
             '    def contains_weak(self, etag: str) -> bool:\n'
             '        """Check if an etag is part of the set including weak and strong tags."""\n'
             '        if weak := self.is_weak(etag):\n'
             '            return weak\n'
             '        return self.is_strong(etag)\n'
             '\n'
             '    def contains(self, etag: str) -> bool:\n'
             '        """Check if an etag is part of the set ignoring weak tags.\n'
             '        It is also possible to use the ``in`` operator.\n'
             '        """\n'
             '        return True if self.star_tag else self.is_strong(etag)\n'
             '\n'
             '    def contains_raw(self, etag: str) -> bool:\n'
             '        """When passed a quoted tag it will check if this tag is part of the\n')],
  'expect': 'R11.1',
  'name': 'detect3-walrus-contains-weak-forgets-star'},
 {'edits': [('datastructures/etag.py',
             '        star_tag: bool = False,\n'
             '    ):\n'
             '        if not star_tag and strong_etags:\n'
             '            self._strong = frozenset(strong_etags)\n'
             '        else:\n'
             '            self._strong = frozenset()\n'
             '\n'
             '        self._weak = frozenset(weak_etags or ())\n'
             '        self.star_tag = star_tag\n'
             '\n'
             '    def as_set(self, include_weak: bool = False) -> set[str]:\n'
             '        """Convert the `ETags` object into a python set.  Per default all the\n'
             '        weak etags are not part of this set."""\n',
             '        star_tag: bool = False,\n'
             '    ):\n'
             '        if not star_tag and strong_etags:\n'
             '            strong = frozenset(strong_etags)\n'
             '        else:\n'
             '            strong = frozenset()\n'
             '\n'
             '        weak = frozenset(weak_etags or ())\n'
             '        #: The stored tags as a ``(strong, weak)`` pair.\n'
             '        self._tags: tuple[frozenset[str], frozenset[str]] = (strong, weak)\n'
             '        self.star_tag = star_tag\n'
             '\n'
             '    @property\n'
             '    def _strong(self) -> frozenset[str]:\n'
             '        return self._tags[0]\n'
             '\n'
             '    @property\n'
             '    def _weak(self) -> frozenset[str]:\n'
             '        return self._tags[1]\n'
             '\n'
             '    def as_set(self, include_weak: bool = False) -> set[str]:\n'
             '        """Convert the `ETags` object into a python set.  Per default all the\n'
             '        weak etags are not part of this set."""\n'),
            ('datastructures/etag.py',
             '\n'
             '    def is_weak(self, etag: str) -> bool:\n'
             '        """Check if an etag is weak."""\n'
             '        return etag in self._weak\n'
             '\n'
             '    def is_strong(self, etag: str) -> bool:\n'
             '        """Check if an etag is strong."""\n'
             '        return etag in self._strong\n'
             '\n'
             '    def contains_weak(self, etag: str) -> bool:\n'
             '        """Check if an etag is part of the set including weak and strong tags."""\n',
             '\n'
             '    def is_weak(self, etag: str) -> bool:\n'
             '        """Check if an etag is weak."""\n'
             '        weak, _ = self._tags\n'
             '        return etag in weak\n'
             '\n'
             '    def is_strong(self, etag: str) -> bool:\n'
             '        """Check if an etag is strong."""\n'
             '        strong, _ = self._tags\n'
             '        return etag in strong\n'
             '\n'
             '    def contains_weak(self, etag: str) -> bool:\n'
             '        """Check if an etag is part of the set including weak and strong tags."""\n')],
  'expect': 'R11.1',
  'name': 'detect3-pair-representation-is-weak-reads-strong'},
 {'edits': [('http.py',
             '_token_chars = frozenset(\n'
             '    "!#$%&\'*+-.0123456789ABCDEFGHIJKLMNOPQRSTUVWXYZ^_`abcdefghijklmnopqrstuvwxyz|~"\n'
             ')\n'
             '_etag_re = re.compile(r\'([Ww]/)?(?:"(.*?)"|(.*?))(?:\\s*,\\s*|$)\')\n'
             '_entity_headers = frozenset(\n'
             '    [\n'
             '        "allow",\n',
             '_token_chars = frozenset(\n'
             '    "!#$%&\'*+-.0123456789ABCDEFGHIJKLMNOPQRSTUVWXYZ^_`abcdefghijklmnopqrstuvwxyz|~"\n'
             ')\n'
             '_etag_weak_prefix = r"(?:W|w)/"\n'
             '_etag_quoted = r\'"(.*?)"\'\n'
             '_etag_bare = r"(.*?)"\n'
             '_etag_list_sep = r",\\s*"\n'
             '_etag_re = re.compile(\n'
             '    f"({_etag_weak_prefix})?"\n'
             '    f"(?:{_etag_quoted}|{_etag_bare})"\n'
             '    f"(?:{_etag_list_sep}|$)"\n'
             ')\n'
             '_entity_headers = frozenset(\n'
             '    [\n'
             '        "allow",\n')],
  'expect': 'R11.10',
  'name': 'detect3-fstring-pieces-separator-no-leading-blank'},
 {'edits': [('http.py',
             '    return etag, weak\n\n\ndef parse_etags(value: str | None) -> ds.ETags:\n    """Parse an etag header.\n\n',
             '    return etag, weak\n'
             '\n'
             '\n'
             'def _iter_etag_items(\n'
             '    value: str,\n'
             ') -> t.Iterator[tuple[str | None, str | None, str | None]]:\n'
             '    """Yield ``(weak_marker, quoted, raw)`` for each item of an etag list,\n'
             "    stopping at the first position that can't be parsed.\n"
             '    """\n'
             '    end = len(value)\n'
             '    pos = 0\n'
             '    while pos < end:\n'
             '        match = _etag_re.match(value, pos)\n'
             '        if match is None:\n'
             '            return\n'
             '        yield match.groups()\n'
             '        pos = end\n'
             '\n'
             '\n'
             'def parse_etags(value: str | None) -> ds.ETags:\n'
             '    """Parse an etag header.\n'
             '\n'),
            ('http.py',
             '        return ds.ETags()\n'
             '    strong = []\n'
             '    weak = []\n'
             '    end = len(value)\n'
             '    pos = 0\n'
             '    while pos < end:\n'
             '        match = _etag_re.match(value, pos)\n'
             '        if match is None:\n'
             '            break\n'
             '        is_weak, quoted, raw = match.groups()\n'
             '        if raw == "*":\n'
             '            return ds.ETags(star_tag=True)\n'
             '        elif quoted:\n',
             '        return ds.ETags()\n'
             '    strong = []\n'
             '    weak = []\n'
             '    for is_weak, quoted, raw in _iter_etag_items(value):\n'
             '        if raw == "*":\n'
             '            return ds.ETags(star_tag=True)\n'
             '        elif quoted:\n'),
            ('http.py',
             '            weak.append(raw)\n        else:\n            strong.append(raw)\n        pos = match.end()\n    return ds.ETags(strong, weak)\n\n\n',
             '            weak.append(raw)\n        else:\n            strong.append(raw)\n    return ds.ETags(strong, weak)\n\n\n')],
  'expect': 'R11.10',
  'name': 'detect3-generator-of-groups-stops-after-first'},
 {'edits': [('wsgi.py',
             'from functools import partial\n'
             'from functools import update_wrapper\n'
             '\n'
             'from .exceptions import ClientDisconnected\n'
             'from .exceptions import RequestEntityTooLarge\n'
             'from .sansio import utils as _sansio_utils\n',
             'from functools import partial\n'
             'from functools import update_wrapper\n'
             '\n'
             'from ._internal import _missing\n'
             'from .exceptions import ClientDisconnected\n'
             'from .exceptions import RequestEntityTooLarge\n'
             'from .sansio import utils as _sansio_utils\n'),
            ('wsgi.py',
             '            self.file.close()\n'
             '\n'
             '    def seekable(self) -> bool:\n'
             '        if hasattr(self.file, "seekable"):\n'
             '            return self.file.seekable()\n'
             '        if hasattr(self.file, "seek"):\n'
             '            return True\n'
             '        return False\n'
             '\n'
             '    def seek(self, *args: t.Any) -> None:\n'
             '        if hasattr(self.file, "seek"):\n'
             '            self.file.seek(*args)\n'
             '\n'
             '    def tell(self) -> int | None:\n'
             '        if hasattr(self.file, "tell"):\n'
             '            return self.file.tell()\n'
             '        return None\n'
             '\n'
             '    def __iter__(self) -> FileWrapper:\n',
             '            self.file.close()\n'
             '\n'
             '    def seekable(self) -> bool:\n'
             '        seekable = getattr(self.file, "seekable", _missing)\n'
             '        if seekable is not _missing:\n'
             '            return True\n'
             '        # Older file-like objects only provide seek().\n'
             '        return getattr(self.file, "seek", _missing) is not _missing\n'
             '\n'
             '    def seek(self, *args: t.Any) -> None:\n'
             '        seek = getattr(self.file, "seek", _missing)\n'
             '        if seek is not _missing:\n'
             '            seek(*args)\n'
             '\n'
             '    def tell(self) -> int | None:\n'
             '        tell = getattr(self.file, "tell", _missing)\n'
             '        if tell is not _missing:\n'
             '            return tell()  # type: ignore[no-any-return]\n'
             '        return None\n'
             '\n'
             '    def __iter__(self) -> FileWrapper:\n')],
  'expect': 'R11.11',
  'name': 'detect3-missing-sentinel-presence-not-answer'}]
TWINS += [
    {"name": "detect3-filewrapper-object-sentinel", "edits": [
        (WS, "class FileWrapper:\n", "_no_attr = object()\n\n\nclass FileWrapper:\n"),
        (WS, _FW_SEEKABLE, '    def seekable(self) -> bool:\n        probe = getattr(self.file, "seekable", _no_attr)\n        if probe is _no_attr:\n            return hasattr(self.file, "seek")\n        return probe()\n'),
    ]},
]
