"""self-validation battery for C11."""
SH = "sansio/http.py"
HT = "http.py"
ET = "datastructures/etag.py"
RG = "datastructures/range.py"
RS = "wrappers/response.py"
UT = "utils.py"
IN = "_internal.py"

_DATE_BLOCK = "    if modified_since and last_modified and last_modified <= modified_since:\n        unmodified = True\n\n"
_RFL_TAIL = "        if http.is_byte_range_valid(start, end, length):\n            return start, min(end, length)\n        return None\n"

MUTANTS = [
    # R11.1 comparison per validator
    {"name": "if-none-match-strong-only", "expect": "R11.1", "edits": [(SH, "unmodified = if_none_match.contains_weak(etag)", "unmodified = if_none_match.contains(etag)")]},
    {"name": "contains-weak-forgets-star", "expect": "R11.1", "edits": [(ET, "return self.is_weak(etag) or self.contains(etag)", "return self.is_weak(etag) or self.is_strong(etag)")]},
    {"name": "if-match-polarity", "expect": "R11.1", "edits": [(SH, "unmodified = not if_match.contains(etag)", "unmodified = if_match.contains(etag)")]},
    {"name": "if-match-ignores-star", "expect": "R11.1", "edits": [(SH, "unmodified = not if_match.contains(etag)", "unmodified = not if_match.is_strong(etag)")]},
    {"name": "wrapper-passes-wrong-header", "expect": "R11.1", "edits": [(HT, 'http_if_match=environ.get("HTTP_IF_MATCH"),', 'http_if_match=environ.get("HTTP_IF_NONE_MATCH"),')]},
    {"name": "parse-etags-lists-swapped", "expect": "R11.1", "edits": [(HT, "return ds.ETags(strong, weak)", "return ds.ETags(weak, strong)")]},
    {"name": "etag-compared-quoted", "expect": "R11.1", "edits": [(SH, "        etag, _ = unquote_etag(etag)\n", "        etag = etag.strip()\n")]},
    # R11.2 precedence
    {"name": "if-none-match-or-date", "expect": "R11.2", "edits": [(SH, "unmodified = if_none_match.contains_weak(etag)", "unmodified = unmodified or if_none_match.contains_weak(etag)")]},
    {"name": "date-check-after-etag", "expect": "R11.2", "edits": [(SH, _DATE_BLOCK, ""), (SH, "    return not unmodified\n\n\n_cookie_re", _DATE_BLOCK + "    return not unmodified\n\n\n_cookie_re")]},
    {"name": "if-none-match-only-when-date-failed", "expect": "R11.2", "edits": [(SH, "            if if_none_match:\n", "            if if_none_match and not unmodified:\n")]},
    # R11.3 date resolution
    {"name": "date-strictly-earlier", "expect": "R11.3", "edits": [(SH, "last_modified <= modified_since", "last_modified < modified_since")]},
    {"name": "microseconds-kept", "expect": "R11.3", "edits": [(SH, "_dt_as_utc(last_modified.replace(microsecond=0))", "_dt_as_utc(last_modified)")]},
    {"name": "aware-values-skip-normalisation", "expect": "R11.3", "edits": [(SH, "    if last_modified is not None:\n        last_modified = _dt_as_utc(", "    if last_modified is not None and last_modified.tzinfo is None:\n        last_modified = _dt_as_utc(")]},
    {"name": "dt-as-utc-relabels-aware", "expect": "R11.3", "edits": [(IN, "return dt.astimezone(timezone.utc)", "return dt.replace(tzinfo=timezone.utc)")]},
    {"name": "seconds-dropped-too", "expect": "R11.3", "edits": [(SH, "last_modified.replace(microsecond=0)", "last_modified.replace(second=0, microsecond=0)")]},
    # R11.4 gates
    {"name": "conditional-for-post", "expect": "R11.4", "edits": [(RS, 'if environ["REQUEST_METHOD"] in ("GET", "HEAD"):', 'if environ["REQUEST_METHOD"] in ("GET", "HEAD", "POST"):')]},
    {"name": "304-and-412-swapped", "expect": "R11.4", "edits": [(RS, "                    self.status_code = 412\n                else:\n                    self.status_code = 304", "                    self.status_code = 304\n                else:\n                    self.status_code = 412")]},
    {"name": "if-range-not-evaluated", "expect": "R11.4", "edits": [(RS, "                ignore_if_range=False,", "                ignore_if_range=True,")]},
    {"name": "processable-gate-dropped", "expect": "R11.4", "edits": [(RS, "            or complete_length == 0\n            or not self._is_range_request_processable(environ)\n", "            or complete_length == 0\n")]},
    {"name": "range-processing-before-method-test", "expect": "R11.4", "edits": [(RS, "        environ = _get_environ(request_or_environ)\n        if environ[\"REQUEST_METHOD\"]", "        environ = _get_environ(request_or_environ)\n        is206 = self._process_range_request(environ, complete_length, accept_ranges)\n        if environ[\"REQUEST_METHOD\"]"), (RS, "            is206 = self._process_range_request(environ, complete_length, accept_ranges)\n            if not is206", "            if not is206")]},
    # R11.5 one source
    {"name": "status-set-after-wrap", "expect": "R11.5", "edits": [(RS, "        self.status_code = 206\n        self._wrap_range_response(range_tuple[0], content_length)\n", "        self._wrap_range_response(range_tuple[0], content_length)\n        self.status_code = 206\n")]},
    {"name": "content-range-last-is-stop", "expect": "R11.5", "edits": [(RG, "{range[0]}-{range[1] - 1}/{length}", "{range[0]}-{range[1]}/{length}")]},
    {"name": "window-length-is-stop", "expect": "R11.5", "edits": [(RS, "self._wrap_range_response(range_tuple[0], content_length)", "self._wrap_range_response(range_tuple[0], range_tuple[1])")]},
    {"name": "wrapper-arguments-swapped", "expect": "R11.5", "edits": [(RS, "_RangeWrapper(self.response, start, length)", "_RangeWrapper(self.response, length, start)")]},
    # R11.6 416 on every failure
    {"name": "unparsable-range-ignored", "expect": "R11.6", "edits": [(RS, "        if parsed_range is None:\n            raise RequestedRangeNotSatisfiable(complete_length)", "        if parsed_range is None:\n            return False")]},
    {"name": "content-range-none-unchecked", "expect": "R11.6", "edits": [(RS, "if range_tuple is None or content_range_header is None:", "if range_tuple is None:")]},
    {"name": "send-file-leaks-on-416", "expect": "R11.6", "edits": [(UT, "        except RequestedRangeNotSatisfiable:\n            if file is not None:\n                file.close()\n\n            raise", "        except RequestedRangeNotSatisfiable:\n            raise")]},
    # R11.7 satisfiability gate
    {"name": "predicate-loses-lower-bound", "expect": "R11.7", "edits": [(HT, "    return 0 <= start < length", "    return start < length")]},
    {"name": "multi-range-first-served", "expect": "R11.7", "edits": [(RG, "or len(self.ranges) != 1:", "or not self.ranges:")]},
    {"name": "validity-checked-on-clamped-start", "expect": "R11.7", "edits": [(RG, "if http.is_byte_range_valid(start, end, length):", "if http.is_byte_range_valid(max(start, 0), end, length):")]},
    {"name": "suffix-applied-after-validation", "expect": "R11.7", "edits": [(RG, "        if end is None:\n            end = length\n            if start < 0:\n                start += length\n        if http.is_byte_range_valid(start, end, length):\n            return start, min(end, length)\n", "        if end is None:\n            end = length\n        if http.is_byte_range_valid(abs(start), end, length):\n            if start < 0:\n                start += length\n            return start, min(end, length)\n")]},
    {"name": "stop-not-clamped", "expect": "R11.7", "edits": [(RG, "return start, min(end, length)", "return start, end")]},
]

TWINS = [
    {"name": "normalisation-helper-extracted", "edits": [(SH, "def is_resource_modified(\n", "def _http_instant(dt: datetime) -> datetime:\n    return _dt_as_utc(dt.replace(microsecond=0))\n\n\ndef is_resource_modified(\n"), (SH, "        last_modified = _dt_as_utc(last_modified.replace(microsecond=0))\n", "        last_modified = _http_instant(last_modified)\n")]},
    {"name": "satisfiability-helper-extracted", "edits": [(RG, "class Range:\n", "def _satisfiable(first: int, stop: int, size: int) -> bool:\n    return http.is_byte_range_valid(first, stop, size)\n\n\nclass Range:\n"), (RG, "if http.is_byte_range_valid(start, end, length):", "if _satisfiable(start, end, length):")]},
    {"name": "range-for-length-early-return", "edits": [(RG, _RFL_TAIL, "        if not http.is_byte_range_valid(start, end, length):\n            return None\n        return start, min(end, length)\n")]},
    {"name": "range-for-length-inline-checks", "edits": [(RG, _RFL_TAIL, "        if 0 <= start < end and start < length:\n            return start, min(end, length)\n        return None\n")]},
    {"name": "range-for-length-renamed-locals", "edits": [(RG, "        start, end = self.ranges[0]\n        if end is None:\n            end = length\n            if start < 0:\n                start += length\n        if http.is_byte_range_valid(start, end, length):\n            return start, min(end, length)\n", "        first, stop = self.ranges[0]\n        if stop is None:\n            stop = length\n            if first < 0:\n                first += length\n        if http.is_byte_range_valid(first, stop, length):\n            stop = min(stop, length)\n            return first, stop\n")]},
    {"name": "normalisation-in-two-statements", "edits": [(SH, "        last_modified = _dt_as_utc(last_modified.replace(microsecond=0))\n", "        last_modified = last_modified.replace(microsecond=0)\n        last_modified = _dt_as_utc(last_modified)\n")]},
    {"name": "date-comparison-mirrored", "edits": [(SH, "last_modified <= modified_since", "modified_since >= last_modified")]},
    {"name": "status-if-else-flipped", "edits": [(RS, "                if parse_etags(environ.get(\"HTTP_IF_MATCH\")):\n                    self.status_code = 412\n                else:\n                    self.status_code = 304", "                if not parse_etags(environ.get(\"HTTP_IF_MATCH\")):\n                    self.status_code = 304\n                else:\n                    self.status_code = 412")]},
    {"name": "processable-as-statements", "edits": [(RS, "        return (\n            \"HTTP_IF_RANGE\" not in environ\n            or not is_resource_modified(\n                environ,\n                self.headers.get(\"etag\"),\n                None,\n                self.headers.get(\"last-modified\"),\n                ignore_if_range=False,\n            )\n        ) and \"HTTP_RANGE\" in environ\n", "        if \"HTTP_RANGE\" not in environ:\n            return False\n        if \"HTTP_IF_RANGE\" not in environ:\n            return True\n        return not is_resource_modified(\n            environ,\n            etag=self.headers.get(\"etag\"),\n            last_modified=self.headers.get(\"last-modified\"),\n            ignore_if_range=False,\n        )\n")]},
    {"name": "206-headers-reordered-and-renamed", "edits": [(RS, "        content_length = range_tuple[1] - range_tuple[0]\n        self.headers[\"Content-Length\"] = str(content_length)\n        self.headers[\"Accept-Ranges\"] = accept_ranges\n        self.content_range = content_range_header  # type: ignore\n        self.status_code = 206\n        self._wrap_range_response(range_tuple[0], content_length)\n", "        size = range_tuple[1] - range_tuple[0]\n        self.status_code = 206\n        self.content_range = content_range_header  # type: ignore\n        self.headers[\"Accept-Ranges\"] = accept_ranges\n        self.headers[\"Content-Length\"] = str(size)\n        self._wrap_range_response(start=range_tuple[0], length=size)\n")]},
    {"name": "none-checks-split", "edits": [(RS, "        if range_tuple is None or content_range_header is None:\n            raise RequestedRangeNotSatisfiable(complete_length)\n", "        if range_tuple is None:\n            raise RequestedRangeNotSatisfiable(complete_length)\n        if content_range_header is None:\n            raise RequestedRangeNotSatisfiable(complete_length)\n")]},
    {"name": "etag-verdict-early-return-style", "edits": [(ET, "        if self.star_tag:\n            return True\n        return self.is_strong(etag)", "        return self.star_tag or self.is_strong(etag)")]},
    {"name": "dt-as-utc-simplified", "edits": [(IN, "    elif dt.tzinfo != timezone.utc:\n        return dt.astimezone(timezone.utc)\n\n    return dt\n", "\n    return dt.astimezone(timezone.utc)\n")]},
    {"name": "send-file-wider-handler", "edits": [(UT, "        except RequestedRangeNotSatisfiable:\n            if file is not None:\n                file.close()\n\n            raise", "        except Exception:\n            if file is not None:\n                file.close()\n            raise")]},
]
