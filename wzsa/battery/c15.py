"""self-validation battery for C15."""
U = "urls.py"
SU = "sansio/utils.py"
I = "_internal.py"
T = "test.py"
SV = "serving.py"
RQ = "wrappers/request.py"
MP = "routing/map.py"
W = "wsgi.py"
D = "middleware/dispatcher.py"

_LOOP = '        for part in parts:\n            out.append(unquote(part, "utf-8", "werkzeug.url_quote"))\n            out.append(next(parts, ""))\n'

MUTANTS = [
    # R15.1 - the compiled keep-quoted pattern
    {"name": "pattern-drops-ignorecase", "expect": "R15.1", "edits": [(U, 'pattern = re.compile(f"((?:%(?:{choices}))+)", re.I)', 'pattern = re.compile(f"((?:%(?:{choices}))+)")')]},
    {"name": "pattern-without-capture-group", "expect": "R15.1", "edits": [(U, 'f"((?:%(?:{choices}))+)"', 'f"(?:%(?:{choices}))+"')]},
    {"name": "query-table-loses-plus", "expect": "R15.1", "edits": [(U, '_always_unsafe + "&=+#")', '_always_unsafe + "&=#")')]},
    {"name": "always-unsafe-stops-before-space", "expect": "R15.1", "edits": [(U, "bytes((*range(0x21), 0x25, 0x7F))", "bytes((*range(0x20), 0x25, 0x7F))")]},
    {"name": "always-unsafe-loses-percent", "expect": "R15.1", "edits": [(U, "bytes((*range(0x21), 0x25, 0x7F))", "bytes((*range(0x21), 0x7F))")]},
    {"name": "path-through-query-unquoter", "expect": "R15.1", "edits": [(U, "path = _unquote_path(parts.path)", "path = _unquote_query(parts.path)")]},
    {"name": "choices-decimal-not-hex", "expect": "R15.1", "edits": [(U, '"|".join(f"{ord(c):02X}" for c in sorted(chars))', '"|".join(f"{ord(c):02d}" for c in sorted(chars))')]},
    # R15.2 - quoting tables
    {"name": "iri-path-percent-unsafe", "expect": "R15.2", "edits": [(U, 'path = quote(parts.path, safe="%!$&\'()*+,/:;=@")', 'path = quote(parts.path, safe="!$&\'()*+,/:;=@")')]},
    {"name": "iri-query-plus-unsafe", "expect": "R15.2", "edits": [(U, 'query = quote(parts.query, safe="%!$&\'()*+,/:;=?@")', 'query = quote(parts.query, safe="%!$&\'()*,/:;=?@")')]},
    {"name": "iri-fragment-space-safe", "expect": "R15.2", "edits": [(U, 'fragment = quote(parts.fragment, safe="%!#$&\'()*+,/:;=?@")', 'fragment = quote(parts.fragment, safe=" %!#$&\'()*+,/:;=?@")')]},
    {"name": "iri-host-not-idna", "expect": "R15.2", "edits": [(U, 'netloc = parts.hostname.encode("idna").decode("ascii")', "netloc = parts.hostname")]},
    {"name": "iri-password-raw", "expect": "R15.2", "edits": [(U, 'password = quote(parts.password, safe="%!$&\'()*+,;=")', "password = parts.password")]},
    {"name": "iri-query-into-fragment-slot", "expect": "R15.2", "edits": [(U, 'fragment = quote(parts.fragment, safe="%!#$&\'()*+,/:;=?@")', 'fragment = quote(parts.query, safe="%!#$&\'()*+,/:;=?@")')]},
    {"name": "current-url-question-mark-safe", "expect": "R15.2", "edits": [(SU, 'url.append(quote(path.lstrip("/"), safe="!$&', 'url.append(quote(path.lstrip("/"), safe="?!$&')]},
    {"name": "current-url-path-raw", "expect": "R15.2", "edits": [(SU, 'url.append(quote(path.lstrip("/"), safe=', 'url.append(path.lstrip("/") or quote("", safe=')]},
    {"name": "current-url-query-hash-safe", "expect": "R15.2", "edits": [(SU, 'url.append(quote(query_string, safe="!$&\'()*+,/:;=?@%"))', 'url.append(quote(query_string, safe="!#$&\'()*+,/:;=?@%"))')]},
    {"name": "urlencode-ampersand-safe", "expect": "R15.2", "edits": [(U, 'return urlencode(items, safe="!$\'()*,/:;?@")', 'return urlencode(items, safe="!$&\'()*,/:;?@")')]},
    # R15.3 - uri_to_iri routing and the partial unquoter
    {"name": "uri-path-not-unquoted", "expect": "R15.3", "edits": [(U, "path = _unquote_path(parts.path)", "path = parts.path")]},
    {"name": "uri-query-reads-path", "expect": "R15.3", "edits": [(U, "query = _unquote_query(parts.query)", "query = _unquote_query(parts.path)")]},
    {"name": "uri-host-not-decoded", "expect": "R15.3", "edits": [(U, "netloc = _decode_idna(parts.hostname)", "netloc = parts.hostname")]},
    {"name": "unquote-errors-replace", "expect": "R15.3", "edits": [(U, 'unquote(part, "utf-8", "werkzeug.url_quote")', 'unquote(part, "utf-8", "replace")')]},
    {"name": "unquote-latin1", "expect": "R15.3", "edits": [(U, 'unquote(part, "utf-8", "werkzeug.url_quote")', 'unquote(part, "latin-1", "werkzeug.url_quote")')]},
    {"name": "handler-resumes-at-start", "expect": "R15.3", "edits": [(U, "    return out, e.end  # type: ignore", "    return out, e.start  # type: ignore")]},
    {"name": "handler-quotes-whole-object", "expect": "R15.3", "edits": [(U, 'out = quote(e.object[e.start : e.end], safe="")', 'out = quote(e.object, safe="")')]},
    {"name": "kept-escape-unquoted-too", "expect": "R15.3", "edits": [(U, '            out.append(next(parts, ""))\n', '            out.append(unquote(next(parts, ""), "utf-8", "werkzeug.url_quote"))\n')]},
    {"name": "kept-escape-emitted-first", "expect": "R15.3", "edits": [(U, _LOOP, '        for part in parts:\n            kept = next(parts, "")\n            out.append(kept)\n            out.append(unquote(part, "utf-8", "werkzeug.url_quote"))\n')]},
    {"name": "kept-escape-only-when-piece-nonempty", "expect": "R15.3", "edits": [(U, _LOOP, '        for part in parts:\n            out.append(unquote(part, "utf-8", "werkzeug.url_quote"))\n            if part:\n                out.append(next(parts, ""))\n')]},
    {"name": "split-stops-after-first-kept-run", "expect": "R15.3", "edits": [(U, "parts = iter(pattern.split(value))", "parts = iter(pattern.split(value, 1))")]},
    # R15.4 - the dances
    {"name": "decoding-dance-cp1252", "expect": "R15.4", "edits": [(I, 'return s.encode("latin1").decode(errors="replace")', 'return s.encode("cp1252").decode(errors="replace")')]},
    {"name": "decoding-dance-decodes-ascii", "expect": "R15.4", "edits": [(I, 'return s.encode("latin1").decode(errors="replace")', 'return s.encode("latin1").decode("ascii", errors="replace")')]},
    {"name": "encoding-dance-lossy-encode", "expect": "R15.4", "edits": [(I, 'return s.encode().decode("latin1")', 'return s.encode("latin1", "replace").decode("latin1")')]},
    {"name": "encoding-dance-identity", "expect": "R15.4", "edits": [(I, 'return s.encode().decode("latin1")', "return s")]},
    # R15.5 - writers and readers
    {"name": "builder-path-not-tunnelled", "expect": "R15.5", "edits": [(T, "            return _wsgi_encoding_dance(unquote(x))", "            return unquote(x)")]},
    {"name": "builder-query-decoding-dance", "expect": "R15.5", "edits": [(T, '"QUERY_STRING": _wsgi_encoding_dance(self.query_string),', '"QUERY_STRING": _wsgi_decoding_dance(self.query_string),')]},
    {"name": "server-query-raw", "expect": "R15.5", "edits": [(SV, '"QUERY_STRING": _wsgi_encoding_dance(request_url.query),', '"QUERY_STRING": request_url.query,')]},
    {"name": "request-path-raw", "expect": "R15.5", "edits": [(RQ, 'path=_wsgi_decoding_dance(environ.get("PATH_INFO") or ""),', 'path=environ.get("PATH_INFO") or "",')]},
    {"name": "request-query-utf8-bytes", "expect": "R15.5", "edits": [(RQ, 'query_string=environ.get("QUERY_STRING", "").encode("latin1"),', 'query_string=environ.get("QUERY_STRING", "").encode(),')]},
    {"name": "request-root-path-encoding-dance", "expect": "R15.5", "edits": [(RQ, 'root_path=_wsgi_decoding_dance(environ.get("SCRIPT_NAME") or ""),', 'root_path=_wsgi_encoding_dance(environ.get("SCRIPT_NAME") or ""),'), (RQ, "from .._internal import _wsgi_decoding_dance\n", "from .._internal import _wsgi_decoding_dance\nfrom .._internal import _wsgi_encoding_dance\n")]},
    {"name": "map-bind-raw", "expect": "R15.5", "edits": [(MP, "                return _wsgi_decoding_dance(val)", "                return val")]},
    {"name": "get-path-info-utf8-encode", "expect": "R15.5", "edits": [(W, 'path: bytes = environ.get("PATH_INFO", "").encode("latin1")', 'path: bytes = environ.get("PATH_INFO", "").encode("utf-8")')]},
    # R15.6 - dispatcher
    {"name": "dispatcher-drops-old-script-name", "expect": "R15.6", "edits": [(D, 'environ["SCRIPT_NAME"] = original_script_name + script', 'environ["SCRIPT_NAME"] = script')]},
    {"name": "dispatcher-script-name-swapped", "expect": "R15.6", "edits": [(D, 'environ["SCRIPT_NAME"] = original_script_name + script', 'environ["SCRIPT_NAME"] = script + original_script_name')]},
    {"name": "dispatcher-remainder-reversed", "expect": "R15.6", "edits": [(D, 'path_info = f"/{last_item}{path_info}"', 'path_info = f"{path_info}/{last_item}"')]},
    {"name": "dispatcher-path-info-only-when-nonempty", "expect": "R15.6", "edits": [(D, '        environ["PATH_INFO"] = path_info\n', '        if path_info:\n            environ["PATH_INFO"] = path_info\n')]},
    {"name": "dispatcher-case-folds-path", "expect": "R15.6", "edits": [(D, 'script = environ.get("PATH_INFO", "")', 'script = environ.get("PATH_INFO", "").lower()')]},
    {"name": "dispatcher-decodes-remainder", "expect": "R15.6", "edits": [(D, '        environ["PATH_INFO"] = path_info\n', '        environ["PATH_INFO"] = path_info.encode("latin1").decode("utf-8", "replace")\n')]},
]

TWINS = [
    {"name": "choices-lower-case-hex-under-ignorecase", "edits": [(U, '"|".join(f"{ord(c):02X}" for c in sorted(chars))', '"|".join(f"{ord(c):02x}" for c in sorted(chars))')]},
    {"name": "pattern-percent-inside-alternatives", "edits": [(U, 'choices = "|".join(f"{ord(c):02X}" for c in sorted(chars))\n    pattern = re.compile(f"((?:%(?:{choices}))+)", re.I)', 'escapes = "|".join(f"%{ord(c):02X}" for c in sorted(chars))\n    pattern = re.compile(f"((?:{escapes})+)", re.IGNORECASE)')]},
    {"name": "path-table-stricter", "edits": [(U, '_always_unsafe + "/?#")', '_always_unsafe + "/?#;")')]},
    {"name": "partial-unquoter-named-pieces", "edits": [(U, _LOOP, '        for piece in parts:\n            free = unquote(piece, "utf-8", "werkzeug.url_quote")\n            kept = next(parts, "")\n            out.append(free)\n            out.append(kept)\n')]},
    {"name": "iri-host-two-steps", "edits": [(U, 'netloc = parts.hostname.encode("idna").decode("ascii")', 'host_bytes = parts.hostname.encode("idna")\n        netloc = host_bytes.decode("us-ascii")')]},
    {"name": "iri-tuple-via-local", "edits": [(U, '        netloc = f"{auth}@{netloc}"\n\n    return urlunsplit((parts.scheme, netloc, path, query, fragment))\n\n\n# Python < 3.12', '        netloc = f"{auth}@{netloc}"\n\n    pieces = (parts.scheme, netloc, path, query, fragment)\n    return urlunsplit(pieces)\n\n\n# Python < 3.12')]},
    {"name": "dance-codec-aliases", "edits": [(I, 'return s.encode().decode("latin1")', 'return s.encode("utf-8").decode("iso-8859-1")'), (I, 'return s.encode("latin1").decode(errors="replace")', 'raw = s.encode("latin-1")\n    return raw.decode("utf8", "replace")')]},
    {"name": "map-bind-helper-early-return", "edits": [(MP, "            if val is not None:\n                return _wsgi_decoding_dance(val)\n            return None", "            if val is None:\n                return None\n            return _wsgi_decoding_dance(val)")]},
    {"name": "get-path-info-one-expression", "edits": [(W, '    path: bytes = environ.get("PATH_INFO", "").encode("latin1")\n    return path.decode(errors="replace")', '    return environ.get("PATH_INFO", "").encode("latin1").decode("utf-8", "replace")')]},
    {"name": "request-reads-into-locals", "edits": [(RQ, "        super().__init__(\n            method=environ.get(\"REQUEST_METHOD\", \"GET\"),", "        raw_path = environ.get(\"PATH_INFO\") or \"\"\n        super().__init__(\n            method=environ.get(\"REQUEST_METHOD\", \"GET\"),"), (RQ, 'path=_wsgi_decoding_dance(environ.get("PATH_INFO") or ""),', "path=_wsgi_decoding_dance(raw_path),")]},
    {"name": "dispatcher-rpartition-renamed-locals", "edits": [(D, '            script, last_item = script.rsplit("/", 1)\n            path_info = f"/{last_item}{path_info}"', '            script, _sep, tail = script.rpartition("/")\n            path_info = "/" + tail + path_info')]},
    {"name": "dispatcher-stores-reordered", "edits": [(D, '        environ["SCRIPT_NAME"] = original_script_name + script\n        environ["PATH_INFO"] = path_info\n', '        environ["PATH_INFO"] = path_info\n        environ["SCRIPT_NAME"] = f"{original_script_name}{script}"\n')]},
    {"name": "server-path-info-dance-in-local", "edits": [(SV, '        path_info = unquote(path_info)\n', '        path_info = _wsgi_encoding_dance(unquote(path_info))\n'), (SV, '"PATH_INFO": _wsgi_encoding_dance(path_info),', '"PATH_INFO": path_info,')]},
    {"name": "iri-userinfo-helper-extracted", "edits": [(U, "def iri_to_uri(iri: str) -> str:", 'def _quote_userinfo(value: str) -> str:\n    return quote(value, safe="%!$&\'()*+,;=")\n\n\ndef iri_to_uri(iri: str) -> str:'), (U, 'auth = quote(parts.username, safe="%!$&\'()*+,;=")', "auth = _quote_userinfo(parts.username)"), (U, 'password = quote(parts.password, safe="%!$&\'()*+,;=")', "password = _quote_userinfo(parts.password)")]},
    {"name": "uri-path-helper-extracted", "edits": [(U, "def uri_to_iri(uri: str) -> str:", "def _iri_path(value: str) -> str:\n    return _unquote_path(value)\n\n\ndef uri_to_iri(uri: str) -> str:"), (U, "path = _unquote_path(parts.path)", "path = _iri_path(parts.path)")]},
    {"name": "builder-path-helper-at-module-level", "edits": [(T, "        def _path_encode(x: str) -> str:\n            return _wsgi_encoding_dance(unquote(x))\n\n", ""), (T, "class EnvironBuilder:\n", "def _path_encode(x: str) -> str:\n    return _wsgi_encoding_dance(unquote(x))\n\n\nclass EnvironBuilder:\n")]},
    {"name": "handler-slice-in-local", "edits": [(U, 'out = quote(e.object[e.start : e.end], safe="")  # type: ignore\n    return out, e.end  # type: ignore', 'bad = e.object[e.start : e.end]  # type: ignore\n    return quote(bad, safe=""), e.end  # type: ignore')]},
    {"name": "dispatcher-subscript-read", "edits": [(D, 'script = environ.get("PATH_INFO", "")', 'script = environ["PATH_INFO"] if "PATH_INFO" in environ else ""')]},
    {"name": "current-url-quoted-query-in-local", "edits": [(SU, '        url.append(quote(query_string, safe="!$&\'()*+,/:;=?@%"))', '        quoted_query = quote(query_string, safe="!$&\'()*+,/:;=?@%")\n        url.append(quoted_query)')]},
]
