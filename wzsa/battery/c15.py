"""self-validation battery for C15."""
U = "urls.py"
SU = "sansio/utils.py"
I = "_internal.py"
T = "test.py"
SV = "serving.py"
RQ = "wrappers/request.py"
MP = "routing/map.py"
W = "wsgi.py"
D = "middleware/dispatcher.py"

_LOOP = '        for part in parts:\n            out.append(unquote(part, "utf-8", "werkzeug.url_quote"))\n            out.append(next(parts, ""))\n'

# -- refactored shapes (helper extraction, comprehension walks) used both as twins and as the base of mutants --------
_U2I_AUTH = '    if parts.username:\n        auth = _unquote_user(parts.username)\n\n        if parts.password:\n            password = _unquote_user(parts.password)\n            auth = f"{auth}:{password}"\n\n        netloc = f"{auth}@{netloc}"\n'
_I2U_AUTH = '    if parts.username:\n        auth = quote(parts.username, safe="%!$&\'()*+,;=")\n\n        if parts.password:\n            password = quote(parts.password, safe="%!$&\'()*+,;=")\n            auth = f"{auth}:{password}"\n\n        netloc = f"{auth}@{netloc}"\n'
_USERINFO_HELPER = 'def _with_userinfo(host, user, secret, conv):\n    if user:\n        userinfo = conv(user)\n        if secret:\n            userinfo = userinfo + ":" + conv(secret)\n        host = userinfo + "@" + host\n    return host\n\n\ndef uri_to_iri(uri: str) -> str:'


def _userinfo_edits(helper=_USERINFO_HELPER, i2u_conv='lambda v: quote(v, safe="%!$&\'()*+,;=")'):
    return [
        (U, "def uri_to_iri(uri: str) -> str:", helper),
        (U, _U2I_AUTH, "    netloc = _with_userinfo(netloc, parts.username, parts.password, _unquote_user)\n"),
        (U, _I2U_AUTH, f"    netloc = _with_userinfo(netloc, parts.username, parts.password, {i2u_conv})\n"),
    ]


_WALK = '        parts = iter(pattern.split(value))\n        out = []\n\n' + _LOOP + '\n        return "".join(out)\n'


def _walk(body):
    return [(U, _WALK, body)]


_ENUM_COMP = '        return "".join(\n            unquote(piece, "utf-8", "werkzeug.url_quote") if index % 2 == 0 else piece\n            for index, piece in enumerate(pattern.split(value))\n        )\n'
_ENUM_LOOP = '        out = []\n        for pos, piece in enumerate(pattern.split(value)):\n            if pos & 1:\n                out.append(piece)\n                continue\n            out.append(unquote(piece, "utf-8", "werkzeug.url_quote"))\n        return "".join(out)\n'
_ZIP_LONGEST = '        pieces = pattern.split(value)\n        out = []\n        for free, kept in itertools.zip_longest(pieces[::2], pieces[1::2], fillvalue=""):\n            out += [unquote(free, "utf-8", "werkzeug.url_quote"), kept]\n        return "".join(out)\n'
_SLICE_ASSIGN = '        pieces = pattern.split(value)\n        pieces[::2] = [unquote(p, "utf-8", "werkzeug.url_quote") for p in pieces[::2]]\n        return "".join(pieces)\n'
_IMPORT_ITERTOOLS = (U, "import codecs\n", "import codecs\nimport itertools\n")

_DISPATCH_BODY = '        script = environ.get("PATH_INFO", "")\n        path_info = ""\n\n        while "/" in script:\n            if script in self.mounts:\n                app = self.mounts[script]\n                break\n\n            script, last_item = script.rsplit("/", 1)\n            path_info = f"/{last_item}{path_info}"\n        else:\n            app = self.mounts.get(script, self.app)\n\n        original_script_name = environ.get("SCRIPT_NAME", "")\n        environ["SCRIPT_NAME"] = original_script_name + script\n        environ["PATH_INFO"] = path_info\n        return app(environ, start_response)\n'


def _dispatch_lookup(ret_hit="self.mounts[head], head, rest", ret_miss="self.mounts.get(head, self.app), head, rest", peel='head, _, seg = head.rpartition("/")', acc='rest = "/" + seg + rest', stores='        environ["SCRIPT_NAME"] = environ.get("SCRIPT_NAME", "") + mount\n        environ["PATH_INFO"] = rest\n'):
    return [(D, _DISPATCH_BODY,
             '        app, mount, rest = self._lookup(environ.get("PATH_INFO", ""))\n' + stores + '        return app(environ, start_response)\n\n'
             '    def _lookup(self, path):\n        head, rest = path, ""\n        while "/" in head:\n            if head in self.mounts:\n'
             f'                return {ret_hit}\n            {peel}\n            {acc}\n        return {ret_miss}\n')]


_DISPATCH_REWRITE = [(D, '        original_script_name = environ.get("SCRIPT_NAME", "")\n        environ["SCRIPT_NAME"] = original_script_name + script\n        environ["PATH_INFO"] = path_info\n        return app(environ, start_response)\n',
                      '        self._shift(environ, script, path_info)\n        return app(environ, start_response)\n\n    @staticmethod\n    def _shift(env, matched, rest):\n        env["SCRIPT_NAME"] = env.get("SCRIPT_NAME", "") + matched\n        env["PATH_INFO"] = rest\n')]

MUTANTS = [
    # R15.1 - the compiled keep-quoted pattern
    {"name": "pattern-drops-ignorecase", "expect": "R15.1", "edits": [(U, 'pattern = re.compile(f"((?:%(?:{choices}))+)", re.I)', 'pattern = re.compile(f"((?:%(?:{choices}))+)")')]},
    {"name": "pattern-without-capture-group", "expect": "R15.1", "edits": [(U, 'f"((?:%(?:{choices}))+)"', 'f"(?:%(?:{choices}))+"')]},
    {"name": "query-table-loses-plus", "expect": "R15.1", "edits": [(U, '_always_unsafe + "&=+#")', '_always_unsafe + "&=#")')]},
    {"name": "always-unsafe-stops-before-space", "expect": "R15.1", "edits": [(U, "bytes((*range(0x21), 0x25, 0x7F))", "bytes((*range(0x20), 0x25, 0x7F))")]},
    {"name": "always-unsafe-loses-percent", "expect": "R15.1", "edits": [(U, "bytes((*range(0x21), 0x25, 0x7F))", "bytes((*range(0x21), 0x7F))")]},
    {"name": "path-through-query-unquoter", "expect": "R15.1", "edits": [(U, "path = _unquote_path(parts.path)", "path = _unquote_query(parts.path)")]},
    {"name": "choices-decimal-not-hex", "expect": "R15.1", "edits": [(U, '"|".join(f"{ord(c):02X}" for c in sorted(chars))', '"|".join(f"{ord(c):02d}" for c in sorted(chars))')]},
    # R15.2 - quoting tables
    {"name": "iri-path-percent-unsafe", "expect": "R15.2", "edits": [(U, 'path = quote(parts.path, safe="%!$&\'()*+,/:;=@")', 'path = quote(parts.path, safe="!$&\'()*+,/:;=@")')]},
    {"name": "iri-query-plus-unsafe", "expect": "R15.2", "edits": [(U, 'query = quote(parts.query, safe="%!$&\'()*+,/:;=?@")', 'query = quote(parts.query, safe="%!$&\'()*,/:;=?@")')]},
    {"name": "iri-fragment-space-safe", "expect": "R15.2", "edits": [(U, 'fragment = quote(parts.fragment, safe="%!#$&\'()*+,/:;=?@")', 'fragment = quote(parts.fragment, safe=" %!#$&\'()*+,/:;=?@")')]},
    {"name": "iri-host-not-idna", "expect": "R15.2", "edits": [(U, 'netloc = parts.hostname.encode("idna").decode("ascii")', "netloc = parts.hostname")]},
    {"name": "iri-password-raw", "expect": "R15.2", "edits": [(U, 'password = quote(parts.password, safe="%!$&\'()*+,;=")', "password = parts.password")]},
    {"name": "iri-query-into-fragment-slot", "expect": "R15.2", "edits": [(U, 'fragment = quote(parts.fragment, safe="%!#$&\'()*+,/:;=?@")', 'fragment = quote(parts.query, safe="%!#$&\'()*+,/:;=?@")')]},
    {"name": "current-url-question-mark-safe", "expect": "R15.2", "edits": [(SU, 'url.append(quote(path.lstrip("/"), safe="!$&', 'url.append(quote(path.lstrip("/"), safe="?!$&')]},
    {"name": "current-url-path-raw", "expect": "R15.2", "edits": [(SU, 'url.append(quote(path.lstrip("/"), safe=', 'url.append(path.lstrip("/") or quote("", safe=')]},
    {"name": "current-url-query-hash-safe", "expect": "R15.2", "edits": [(SU, 'url.append(quote(query_string, safe="!$&\'()*+,/:;=?@%"))', 'url.append(quote(query_string, safe="!#$&\'()*+,/:;=?@%"))')]},
    {"name": "urlencode-ampersand-safe", "expect": "R15.2", "edits": [(U, 'return urlencode(items, safe="!$\'()*,/:;?@")', 'return urlencode(items, safe="!$&\'()*,/:;?@")')]},
    # R15.3 - uri_to_iri routing and the partial unquoter
    {"name": "uri-path-not-unquoted", "expect": "R15.3", "edits": [(U, "path = _unquote_path(parts.path)", "path = parts.path")]},
    {"name": "uri-query-reads-path", "expect": "R15.3", "edits": [(U, "query = _unquote_query(parts.query)", "query = _unquote_query(parts.path)")]},
    {"name": "uri-host-not-decoded", "expect": "R15.3", "edits": [(U, "netloc = _decode_idna(parts.hostname)", "netloc = parts.hostname")]},
    {"name": "unquote-errors-replace", "expect": "R15.3", "edits": [(U, 'unquote(part, "utf-8", "werkzeug.url_quote")', 'unquote(part, "utf-8", "replace")')]},
    {"name": "unquote-latin1", "expect": "R15.3", "edits": [(U, 'unquote(part, "utf-8", "werkzeug.url_quote")', 'unquote(part, "latin-1", "werkzeug.url_quote")')]},
    {"name": "handler-resumes-at-start", "expect": "R15.3", "edits": [(U, "    return out, e.end  # type: ignore", "    return out, e.start  # type: ignore")]},
    {"name": "handler-quotes-whole-object", "expect": "R15.3", "edits": [(U, 'out = quote(e.object[e.start : e.end], safe="")', 'out = quote(e.object, safe="")')]},
    {"name": "kept-escape-unquoted-too", "expect": "R15.3", "edits": [(U, '            out.append(next(parts, ""))\n', '            out.append(unquote(next(parts, ""), "utf-8", "werkzeug.url_quote"))\n')]},
    {"name": "kept-escape-emitted-first", "expect": "R15.3", "edits": [(U, _LOOP, '        for part in parts:\n            kept = next(parts, "")\n            out.append(kept)\n            out.append(unquote(part, "utf-8", "werkzeug.url_quote"))\n')]},
    {"name": "kept-escape-only-when-piece-nonempty", "expect": "R15.3", "edits": [(U, _LOOP, '        for part in parts:\n            out.append(unquote(part, "utf-8", "werkzeug.url_quote"))\n            if part:\n                out.append(next(parts, ""))\n')]},
    {"name": "split-stops-after-first-kept-run", "expect": "R15.3", "edits": [(U, "parts = iter(pattern.split(value))", "parts = iter(pattern.split(value, 1))")]},
    # R15.4 - the dances
    {"name": "decoding-dance-cp1252", "expect": "R15.4", "edits": [(I, 'return s.encode("latin1").decode(errors="replace")', 'return s.encode("cp1252").decode(errors="replace")')]},
    {"name": "decoding-dance-decodes-ascii", "expect": "R15.4", "edits": [(I, 'return s.encode("latin1").decode(errors="replace")', 'return s.encode("latin1").decode("ascii", errors="replace")')]},
    {"name": "encoding-dance-lossy-encode", "expect": "R15.4", "edits": [(I, 'return s.encode().decode("latin1")', 'return s.encode("latin1", "replace").decode("latin1")')]},
    {"name": "encoding-dance-identity", "expect": "R15.4", "edits": [(I, 'return s.encode().decode("latin1")', "return s")]},
    # R15.5 - writers and readers
    {"name": "builder-path-not-tunnelled", "expect": "R15.5", "edits": [(T, "            return _wsgi_encoding_dance(unquote(x))", "            return unquote(x)")]},
    {"name": "builder-query-decoding-dance", "expect": "R15.5", "edits": [(T, '"QUERY_STRING": _wsgi_encoding_dance(self.query_string),', '"QUERY_STRING": _wsgi_decoding_dance(self.query_string),')]},
    {"name": "server-query-raw", "expect": "R15.5", "edits": [(SV, '"QUERY_STRING": _wsgi_encoding_dance(request_url.query),', '"QUERY_STRING": request_url.query,')]},
    {"name": "request-path-raw", "expect": "R15.5", "edits": [(RQ, 'path=_wsgi_decoding_dance(environ.get("PATH_INFO") or ""),', 'path=environ.get("PATH_INFO") or "",')]},
    {"name": "request-query-utf8-bytes", "expect": "R15.5", "edits": [(RQ, 'query_string=environ.get("QUERY_STRING", "").encode("latin1"),', 'query_string=environ.get("QUERY_STRING", "").encode(),')]},
    {"name": "request-root-path-encoding-dance", "expect": "R15.5", "edits": [(RQ, 'root_path=_wsgi_decoding_dance(environ.get("SCRIPT_NAME") or ""),', 'root_path=_wsgi_encoding_dance(environ.get("SCRIPT_NAME") or ""),'), (RQ, "from .._internal import _wsgi_decoding_dance\n", "from .._internal import _wsgi_decoding_dance\nfrom .._internal import _wsgi_encoding_dance\n")]},
    {"name": "map-bind-raw", "expect": "R15.5", "edits": [(MP, "                return _wsgi_decoding_dance(val)", "                return val")]},
    {"name": "get-path-info-utf8-encode", "expect": "R15.5", "edits": [(W, 'path: bytes = environ.get("PATH_INFO", "").encode("latin1")', 'path: bytes = environ.get("PATH_INFO", "").encode("utf-8")')]},
    # R15.6 - dispatcher
    {"name": "dispatcher-drops-old-script-name", "expect": "R15.6", "edits": [(D, 'environ["SCRIPT_NAME"] = original_script_name + script', 'environ["SCRIPT_NAME"] = script')]},
    {"name": "dispatcher-script-name-swapped", "expect": "R15.6", "edits": [(D, 'environ["SCRIPT_NAME"] = original_script_name + script', 'environ["SCRIPT_NAME"] = script + original_script_name')]},
    {"name": "dispatcher-remainder-reversed", "expect": "R15.6", "edits": [(D, 'path_info = f"/{last_item}{path_info}"', 'path_info = f"{path_info}/{last_item}"')]},
    {"name": "dispatcher-path-info-only-when-nonempty", "expect": "R15.6", "edits": [(D, '        environ["PATH_INFO"] = path_info\n', '        if path_info:\n            environ["PATH_INFO"] = path_info\n')]},
    {"name": "dispatcher-case-folds-path", "expect": "R15.6", "edits": [(D, 'script = environ.get("PATH_INFO", "")', 'script = environ.get("PATH_INFO", "").lower()')]},
    {"name": "dispatcher-decodes-remainder", "expect": "R15.6", "edits": [(D, '        environ["PATH_INFO"] = path_info\n', '        environ["PATH_INFO"] = path_info.encode("latin1").decode("utf-8", "replace")\n')]},
    # the same defects on refactored shapes (helper extraction / comprehension walks must not hide them)
    {"name": "helper-userinfo-password-raw", "expect": "R15.2", "edits": _userinfo_edits(helper=_USERINFO_HELPER.replace('":" + conv(secret)', '":" + secret'))},
    {"name": "helper-userinfo-password-raw-iri-side", "expect": "R15.3", "edits": _userinfo_edits(helper=_USERINFO_HELPER.replace('":" + conv(secret)', '":" + secret'))},
    {"name": "helper-userinfo-quote-percent-unsafe", "expect": "R15.2", "edits": _userinfo_edits(i2u_conv='lambda v: quote(v, safe="!$&\'()*+,;=")')},
    {"name": "helper-userinfo-username-as-password", "expect": "R15.3", "edits": _userinfo_edits(helper=_USERINFO_HELPER.replace("conv(secret)", "conv(user)"))},
    {"name": "enumerate-walk-parity-flipped", "expect": "R15.3", "edits": _walk(_ENUM_COMP.replace("index % 2 == 0", "index % 2"))},
    {"name": "enumerate-walk-filters-empty-pieces", "expect": "R15.3", "edits": _walk(_ENUM_COMP.replace("enumerate(pattern.split(value))\n", "enumerate(pattern.split(value))\n            if index > 0\n"))},
    {"name": "enumerate-walk-counts-from-one", "expect": "R15.3", "edits": _walk(_ENUM_COMP.replace("enumerate(pattern.split(value))", "enumerate(pattern.split(value), 1)"))},
    {"name": "enumerate-loop-unquotes-everything", "expect": "R15.3", "edits": _walk(_ENUM_LOOP.replace("                out.append(piece)\n                continue\n", "                pass\n"))},
    {"name": "zip-walk-drops-last-free-piece", "expect": "R15.3", "edits": [_IMPORT_ITERTOOLS] + _walk(_ZIP_LONGEST.replace('itertools.zip_longest(pieces[::2], pieces[1::2], fillvalue="")', "zip(pieces[::2], pieces[1::2])"))},
    {"name": "zip-walk-kept-first", "expect": "R15.3", "edits": [_IMPORT_ITERTOOLS] + _walk(_ZIP_LONGEST.replace('[unquote(free, "utf-8", "werkzeug.url_quote"), kept]', '[kept, unquote(free, "utf-8", "werkzeug.url_quote")]'))},
    {"name": "slice-walk-unquotes-kept-slice", "expect": "R15.3", "edits": _walk(_SLICE_ASSIGN.replace("pieces[::2] = [", "pieces[1::2] = [").replace("for p in pieces[::2]]", "for p in pieces[1::2]]"))},
    {"name": "lookup-helper-returns-swapped", "expect": "R15.6", "edits": _dispatch_lookup(ret_hit="self.mounts[head], rest, head")},
    {"name": "lookup-helper-remainder-appended", "expect": "R15.6", "edits": _dispatch_lookup(acc='rest = rest + "/" + seg')},
    {"name": "lookup-helper-casefolds", "expect": "R15.6", "edits": _dispatch_lookup(peel='head, _, seg = head.lower().rpartition("/")')},
    {"name": "shift-helper-skips-path-info", "expect": "R15.6", "edits": [(D, _DISPATCH_REWRITE[0][1], _DISPATCH_REWRITE[0][2].replace('        env["PATH_INFO"] = rest\n', '        if rest:\n            env["PATH_INFO"] = rest\n'))]},
    {"name": "shift-helper-decodes", "expect": "R15.6", "edits": [(D, _DISPATCH_REWRITE[0][1], _DISPATCH_REWRITE[0][2].replace('env["PATH_INFO"] = rest', 'env["PATH_INFO"] = rest.encode("latin1").decode()'))]},
    {"name": "dispatcher-prefix-and-remainder-swapped", "expect": "R15.6", "edits": [(D, 'environ["SCRIPT_NAME"] = original_script_name + script\n        environ["PATH_INFO"] = path_info\n', 'environ["SCRIPT_NAME"] = original_script_name + path_info\n        environ["PATH_INFO"] = script\n')]},
    {"name": "current-url-helper-question-mark-safe", "expect": "R15.2", "edits": [
        (SU, "def get_current_url(", "def _quote_path(value: str) -> str:\n    return quote(value, safe=\"!$&'()*+,/:;=?@%\")\n\n\ndef get_current_url("),
        (SU, "url.append(quote(root_path.rstrip(\"/\"), safe=\"!$&'()*+,/:;=@%\"))", 'url.append(_quote_path(root_path.rstrip("/")))'),
        (SU, "url.append(quote(path.lstrip(\"/\"), safe=\"!$&'()*+,/:;=@%\"))", 'url.append(_quote_path(path.lstrip("/")))'),
    ]},
    {"name": "request-static-helper-forgets-dance", "expect": "R15.5", "edits": [
        (RQ, 'path=_wsgi_decoding_dance(environ.get("PATH_INFO") or ""),', 'path=self._text(environ.get("PATH_INFO")),'),
        (RQ, "    def __init__(\n        self,\n        environ: WSGIEnvironment,", "    @staticmethod\n    def _text(raw):\n        return raw or \"\"\n\n    def __init__(\n        self,\n        environ: WSGIEnvironment,"),
    ]},
    {"name": "server-method-helper-forgets-dance", "expect": "R15.5", "edits": [
        (SV, '"PATH_INFO": _wsgi_encoding_dance(path_info),', '"PATH_INFO": self._tunnel(path_info),'),
        (SV, "    def make_environ(self) -> WSGIEnvironment:", "    def _tunnel(self, text: str) -> str:\n        return text\n\n    def make_environ(self) -> WSGIEnvironment:"),
    ]},
    {"name": "keep-pattern-helper-drops-ignorecase", "expect": "R15.1", "edits": [
        (U, '    choices = "|".join(f"{ord(c):02X}" for c in sorted(chars))\n    pattern = re.compile(f"((?:%(?:{choices}))+)", re.I)\n', "    pattern = _keep_pattern(chars)\n"),
        (U, "def _make_unquote_part(name: str, chars: str)", 'def _keep_pattern(chars: str) -> "re.Pattern[str]":\n    choices = "|".join(f"{ord(c):02X}" for c in sorted(chars))\n    return re.compile(f"((?:%(?:{choices}))+)")\n\n\ndef _make_unquote_part(name: str, chars: str)'),
    ]},
    {"name": "iri-unsplit-replace-forgets-query", "expect": "R15.2", "edits": [(U, '        netloc = f"{auth}@{netloc}"\n\n    return urlunsplit((parts.scheme, netloc, path, query, fragment))\n\n\n# Python < 3.12', '        netloc = f"{auth}@{netloc}"\n\n    return urlunsplit(parts._replace(netloc=netloc, path=path, fragment=fragment))\n\n\n# Python < 3.12')]},
    {"name": "dispatcher-rfind-remainder-appended", "expect": "R15.6", "edits": [(D, '            script, last_item = script.rsplit("/", 1)\n            path_info = f"/{last_item}{path_info}"', '            cut = script.rfind("/")\n            path_info = path_info + script[cut:]\n            script = script[:cut]')]},
    {"name": "handler-unpacked-bounds-resume-at-start", "expect": "R15.3", "edits": [(U, 'out = quote(e.object[e.start : e.end], safe="")  # type: ignore\n    return out, e.end  # type: ignore', 'start, end = e.start, e.end  # type: ignore\n    return quote(e.object[start:end], safe=""), start  # type: ignore')]},
]

TWINS = [
    {"name": "choices-lower-case-hex-under-ignorecase", "edits": [(U, '"|".join(f"{ord(c):02X}" for c in sorted(chars))', '"|".join(f"{ord(c):02x}" for c in sorted(chars))')]},
    {"name": "pattern-percent-inside-alternatives", "edits": [(U, 'choices = "|".join(f"{ord(c):02X}" for c in sorted(chars))\n    pattern = re.compile(f"((?:%(?:{choices}))+)", re.I)', 'escapes = "|".join(f"%{ord(c):02X}" for c in sorted(chars))\n    pattern = re.compile(f"((?:{escapes})+)", re.IGNORECASE)')]},
    {"name": "path-table-stricter", "edits": [(U, '_always_unsafe + "/?#")', '_always_unsafe + "/?#;")')]},
    {"name": "partial-unquoter-named-pieces", "edits": [(U, _LOOP, '        for piece in parts:\n            free = unquote(piece, "utf-8", "werkzeug.url_quote")\n            kept = next(parts, "")\n            out.append(free)\n            out.append(kept)\n')]},
    {"name": "iri-host-two-steps", "edits": [(U, 'netloc = parts.hostname.encode("idna").decode("ascii")', 'host_bytes = parts.hostname.encode("idna")\n        netloc = host_bytes.decode("us-ascii")')]},
    {"name": "iri-tuple-via-local", "edits": [(U, '        netloc = f"{auth}@{netloc}"\n\n    return urlunsplit((parts.scheme, netloc, path, query, fragment))\n\n\n# Python < 3.12', '        netloc = f"{auth}@{netloc}"\n\n    pieces = (parts.scheme, netloc, path, query, fragment)\n    return urlunsplit(pieces)\n\n\n# Python < 3.12')]},
    {"name": "dance-codec-aliases", "edits": [(I, 'return s.encode().decode("latin1")', 'return s.encode("utf-8").decode("iso-8859-1")'), (I, 'return s.encode("latin1").decode(errors="replace")', 'raw = s.encode("latin-1")\n    return raw.decode("utf8", "replace")')]},
    {"name": "map-bind-helper-early-return", "edits": [(MP, "            if val is not None:\n                return _wsgi_decoding_dance(val)\n            return None", "            if val is None:\n                return None\n            return _wsgi_decoding_dance(val)")]},
    {"name": "get-path-info-one-expression", "edits": [(W, '    path: bytes = environ.get("PATH_INFO", "").encode("latin1")\n    return path.decode(errors="replace")', '    return environ.get("PATH_INFO", "").encode("latin1").decode("utf-8", "replace")')]},
    {"name": "request-reads-into-locals", "edits": [(RQ, "        super().__init__(\n            method=environ.get(\"REQUEST_METHOD\", \"GET\"),", "        raw_path = environ.get(\"PATH_INFO\") or \"\"\n        super().__init__(\n            method=environ.get(\"REQUEST_METHOD\", \"GET\"),"), (RQ, 'path=_wsgi_decoding_dance(environ.get("PATH_INFO") or ""),', "path=_wsgi_decoding_dance(raw_path),")]},
    {"name": "dispatcher-rpartition-renamed-locals", "edits": [(D, '            script, last_item = script.rsplit("/", 1)\n            path_info = f"/{last_item}{path_info}"', '            script, _sep, tail = script.rpartition("/")\n            path_info = "/" + tail + path_info')]},
    {"name": "dispatcher-stores-reordered", "edits": [(D, '        environ["SCRIPT_NAME"] = original_script_name + script\n        environ["PATH_INFO"] = path_info\n', '        environ["PATH_INFO"] = path_info\n        environ["SCRIPT_NAME"] = f"{original_script_name}{script}"\n')]},
    {"name": "server-path-info-dance-in-local", "edits": [(SV, '        path_info = unquote(path_info)\n', '        path_info = _wsgi_encoding_dance(unquote(path_info))\n'), (SV, '"PATH_INFO": _wsgi_encoding_dance(path_info),', '"PATH_INFO": path_info,')]},
    {"name": "iri-userinfo-helper-extracted", "edits": [(U, "def iri_to_uri(iri: str) -> str:", 'def _quote_userinfo(value: str) -> str:\n    return quote(value, safe="%!$&\'()*+,;=")\n\n\ndef iri_to_uri(iri: str) -> str:'), (U, 'auth = quote(parts.username, safe="%!$&\'()*+,;=")', "auth = _quote_userinfo(parts.username)"), (U, 'password = quote(parts.password, safe="%!$&\'()*+,;=")', "password = _quote_userinfo(parts.password)")]},
    {"name": "uri-path-helper-extracted", "edits": [(U, "def uri_to_iri(uri: str) -> str:", "def _iri_path(value: str) -> str:\n    return _unquote_path(value)\n\n\ndef uri_to_iri(uri: str) -> str:"), (U, "path = _unquote_path(parts.path)", "path = _iri_path(parts.path)")]},
    {"name": "builder-path-helper-at-module-level", "edits": [(T, "        def _path_encode(x: str) -> str:\n            return _wsgi_encoding_dance(unquote(x))\n\n", ""), (T, "class EnvironBuilder:\n", "def _path_encode(x: str) -> str:\n    return _wsgi_encoding_dance(unquote(x))\n\n\nclass EnvironBuilder:\n")]},
    {"name": "handler-slice-in-local", "edits": [(U, 'out = quote(e.object[e.start : e.end], safe="")  # type: ignore\n    return out, e.end  # type: ignore', 'bad = e.object[e.start : e.end]  # type: ignore\n    return quote(bad, safe=""), e.end  # type: ignore')]},
    {"name": "dispatcher-subscript-read", "edits": [(D, 'script = environ.get("PATH_INFO", "")', 'script = environ["PATH_INFO"] if "PATH_INFO" in environ else ""')]},
    {"name": "current-url-quoted-query-in-local", "edits": [(SU, '        url.append(quote(query_string, safe="!$&\'()*+,/:;=?@%"))', '        quoted_query = quote(query_string, safe="!$&\'()*+,/:;=?@%")\n        url.append(quoted_query)')]},
    # refactorings that move the judged statements into helpers or rewrite the walks
    {"name": "userinfo-block-shared-helper-with-converter", "edits": _userinfo_edits()},
    {"name": "partial-unquoter-enumerate-comprehension", "edits": _walk(_ENUM_COMP)},
    {"name": "partial-unquoter-enumerate-loop-continue", "edits": _walk(_ENUM_LOOP)},
    {"name": "partial-unquoter-zip-longest-slices", "edits": [_IMPORT_ITERTOOLS] + _walk(_ZIP_LONGEST)},
    {"name": "partial-unquoter-zip-padded-slice", "edits": _walk(_ZIP_LONGEST.replace('itertools.zip_longest(pieces[::2], pieces[1::2], fillvalue="")', 'zip(pieces[::2], pieces[1::2] + [""])'))},
    {"name": "partial-unquoter-slice-assignment", "edits": _walk(_SLICE_ASSIGN)},
    {"name": "partial-unquoter-pairwalk-walrus-free", "edits": [(U, _LOOP, '        for part in parts:\n            out += [unquote(part, "utf-8", "werkzeug.url_quote"), next(parts, "")]\n')]},
    {"name": "decode-idna-label-helper", "edits": [(U, '    parts = []\n\n    for part in data.split(b"."):\n        try:\n            parts.append(part.decode("idna"))\n        except UnicodeError:\n            parts.append(part.decode("ascii"))\n\n    return ".".join(parts)\n', '    return ".".join(_decode_label(p) for p in data.split(b"."))\n\n\ndef _decode_label(label: bytes) -> str:\n    try:\n        return label.decode("idna")\n    except UnicodeError:\n        return label.decode("ascii")\n')]},
    {"name": "dispatcher-lookup-in-private-method", "edits": _dispatch_lookup()},
    {"name": "dispatcher-stores-in-static-helper", "edits": _DISPATCH_REWRITE},
    {"name": "partial-unquoter-enumerate-from-one", "edits": _walk(_ENUM_COMP.replace("index % 2 == 0", "index % 2").replace("enumerate(pattern.split(value))", "enumerate(pattern.split(value), 1)"))},
    {"name": "current-url-path-quote-helper", "edits": [
        (SU, "def get_current_url(", "def _quote_path(value: str) -> str:\n    return quote(value, safe=\"!$&'()*+,/:;=@%\")\n\n\ndef get_current_url("),
        (SU, "url.append(quote(root_path.rstrip(\"/\"), safe=\"!$&'()*+,/:;=@%\"))", 'url.append(_quote_path(root_path.rstrip("/")))'),
        (SU, "url.append(quote(path.lstrip(\"/\"), safe=\"!$&'()*+,/:;=@%\"))", 'url.append(_quote_path(path.lstrip("/")))'),
    ]},
    {"name": "current-url-two-arg-quote-helper", "edits": [
        (SU, "def get_current_url(", "def _q(value, extra):\n    return quote(value, safe=\"!$&'()*+,/:;=@%\" + extra)\n\n\ndef get_current_url("),
        (SU, "url.append(quote(root_path.rstrip(\"/\"), safe=\"!$&'()*+,/:;=@%\"))", 'url.append(_q(root_path.rstrip("/"), ""))'),
    ]},
    {"name": "request-decodes-through-static-helper", "edits": [
        (RQ, 'path=_wsgi_decoding_dance(environ.get("PATH_INFO") or ""),', 'path=self._text(environ.get("PATH_INFO")),'),
        (RQ, "    def __init__(\n        self,\n        environ: WSGIEnvironment,", "    @staticmethod\n    def _text(raw):\n        return _wsgi_decoding_dance(raw or \"\")\n\n    def __init__(\n        self,\n        environ: WSGIEnvironment,"),
    ]},
    {"name": "request-reads-key-through-module-helper", "edits": [
        (RQ, 'root_path=_wsgi_decoding_dance(environ.get("SCRIPT_NAME") or ""),', 'root_path=_environ_text(environ, "SCRIPT_NAME"),'),
        (RQ, "class Request(_SansIORequest):", "def _environ_text(environ, key):\n    return _wsgi_decoding_dance(environ.get(key) or \"\")\n\n\nclass Request(_SansIORequest):"),
    ]},
    {"name": "server-path-info-through-method", "edits": [
        (SV, '"PATH_INFO": _wsgi_encoding_dance(path_info),', '"PATH_INFO": self._tunnel(path_info),'),
        (SV, "    def make_environ(self) -> WSGIEnvironment:", "    def _tunnel(self, text: str) -> str:\n        return _wsgi_encoding_dance(text)\n\n    def make_environ(self) -> WSGIEnvironment:"),
    ]},
    {"name": "keep-pattern-built-in-helper", "edits": [
        (U, '    choices = "|".join(f"{ord(c):02X}" for c in sorted(chars))\n    pattern = re.compile(f"((?:%(?:{choices}))+)", re.I)\n', "    pattern = _keep_pattern(chars)\n"),
        (U, "def _make_unquote_part(name: str, chars: str)", 'def _keep_pattern(chars: str) -> "re.Pattern[str]":\n    """Match runs of escapes that must stay quoted."""\n    choices = "|".join(f"{ord(c):02X}" for c in sorted(chars))\n    return re.compile(f"((?:%(?:{choices}))+)", re.I)\n\n\ndef _make_unquote_part(name: str, chars: str)'),
    ]},
    {"name": "error-handler-name-in-constant", "edits": [
        (U, 'codecs.register_error("werkzeug.url_quote", _codec_error_url_quote)', '_QUOTE_ERRORS = "werkzeug.url_quote"\ncodecs.register_error(_QUOTE_ERRORS, _codec_error_url_quote)'),
        (U, 'unquote(part, "utf-8", "werkzeug.url_quote")', 'unquote(part, encoding="utf-8", errors=_QUOTE_ERRORS)'),
    ]},
    {"name": "handler-bounds-unpacked", "edits": [(U, 'out = quote(e.object[e.start : e.end], safe="")  # type: ignore\n    return out, e.end  # type: ignore', 'start, end = e.start, e.end  # type: ignore\n    return quote(e.object[start:end], safe=""), end  # type: ignore')]},
    {"name": "iri-unsplit-replace", "edits": [(U, '        netloc = f"{auth}@{netloc}"\n\n    return urlunsplit((parts.scheme, netloc, path, query, fragment))\n\n\n# Python < 3.12', '        netloc = f"{auth}@{netloc}"\n\n    return urlunsplit(parts._replace(netloc=netloc, path=path, query=query, fragment=fragment))\n\n\n# Python < 3.12')]},
    {"name": "dispatcher-rfind-slicing", "edits": [(D, '            script, last_item = script.rsplit("/", 1)\n            path_info = f"/{last_item}{path_info}"', '            cut = script.rfind("/")\n            path_info = script[cut:] + path_info\n            script = script[:cut]')]},
    {"name": "userinfo-helper-takes-split-result", "edits": [
        (U, "def uri_to_iri(uri: str) -> str:", 'def _userinfo(parts, conv):\n    if not parts.username:\n        return ""\n    auth = conv(parts.username)\n    if parts.password:\n        auth = f"{auth}:{conv(parts.password)}"\n    return auth + "@"\n\n\ndef uri_to_iri(uri: str) -> str:'),
        (U, _U2I_AUTH, '    netloc = f"{_userinfo(parts, _unquote_user)}{netloc}"\n'),
        (U, _I2U_AUTH, "    netloc = _userinfo(parts, lambda v: quote(v, safe=\"%!$&'()*+,;=\")) + netloc\n"),
    ]},
    {"name": "partial-unquoter-enumerate-if-else-loop", "edits": _walk('        out = []\n        for i, piece in enumerate(pattern.split(value)):\n            odd = i % 2 == 1\n            if not odd:\n                piece = unquote(piece, "utf-8", "werkzeug.url_quote")\n            out.append(piece)\n        return "".join(out)\n')},
    {"name": "dispatcher-while-true-early-break", "edits": [(D, '        while "/" in script:\n            if script in self.mounts:\n                app = self.mounts[script]\n                break\n\n            script, last_item = script.rsplit("/", 1)\n            path_info = f"/{last_item}{path_info}"\n        else:\n            app = self.mounts.get(script, self.app)\n', '        while True:\n            if "/" not in script:\n                app = self.mounts.get(script, self.app)\n                break\n            if script in self.mounts:\n                app = self.mounts[script]\n                break\n            parts = script.rpartition("/")\n            script = parts[0]\n            path_info = "/" + parts[2] + path_info\n')]},
]
