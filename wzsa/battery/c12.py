"""self-validation battery for C12."""
M = "routing/map.py"
T = "routing/matcher.py"

_SLASH_SITE = "            raise RequestRedirect(\n                self.make_redirect_url(new_path, query_args)\n            ) from None"
_PATH_JOIN = '        path = "/".join((self.script_name.strip("/"), path_info.lstrip("/")))'
_SLASH_LOOP = (
    "                        if websocket == rule.websocket and (\n"
    "                            rule.methods is None or method in rule.methods\n"
    "                        ):\n"
    "                            if rule.strict_slashes:\n"
    "                                raise SlashRequired()\n"
    "                            else:\n"
    "                                return rule, values\n"
    "                        elif (\n"
    "                            not rule.strict_slashes\n"
    "                            and rule.methods is not None\n"
    "                            and method not in rule.methods\n"
    "                        ):\n"
    "                            have_match_for.update(rule.methods)\n"
)

_ADMIT_IF = (
    "                        if websocket == rule.websocket and (\n"
    "                            rule.methods is None or method in rule.methods\n"
    "                        ):\n"
)
_FIRST_PASS = (
    "        try:\n"
    "            rv = _match(self._root, [domain, *path.split(\"/\")], [])\n"
    "        except SlashRequired:\n"
    "            raise RequestPath(f\"{path}/\") from None\n"
    "\n"
    "        if self.merge_slashes and rv is None:\n"
)
_SECOND_PASS = (
    "            path = re.sub(\"/{2,}?\", \"/\", path)\n"
    "            try:\n"
    "                rv = _match(self._root, [domain, *path.split(\"/\")], [])\n"
    "            except SlashRequired:\n"
    "                raise RequestPath(f\"{path}/\") from None\n"
)
_DEF_MATCH = "        def _match(\n            state: State, parts: list[str], values: list[str]\n        )"

_ALIAS_TAIL = (
    "            if rule.defaults:\n"
    "                result.update(rule.defaults)\n"
    "\n"
    "            if rule.alias and rule.map.redirect_defaults:\n"
    "                raise RequestAliasRedirect(result, rule.endpoint)\n"
    "\n"
    "            return rule, result\n"
)
_FALLBACK = "        if url_scheme is None:\n            url_scheme = self.url_scheme\n"
_SECURE = "        secure = url_scheme in {\"https\", \"wss\"}\n"
_WS_SCHEME = "            url_scheme = \"wss\" if secure else \"ws\"\n"
_HTTP_SCHEME = "        elif url_scheme:\n            url_scheme = \"https\" if secure else \"http\"\n"
_REDIRECT_SCHEME = "        scheme = self.url_scheme or \"http\"\n"
_ALIAS_BUILD_ARGS = "            endpoint, values, method, append_unknown=False, force_external=True\n"
_PREFIX = "        scheme = f\"{url_scheme}:\" if url_scheme else \"\"\n"

# ---- round 3: the rule loop of MapAdapter._partial_build / the values normalisation of MapAdapter.build restructured
_RULE_LOOP = (
    "        first_match = None\n"
    "\n"
    "        for rule in self.map._rules_by_endpoint.get(endpoint, ()):\n"
    "            if rule.suitable_for(values, method):\n"
    "                build_rv = rule.build(values, append_unknown)\n"
    "\n"
    "                if build_rv is not None:\n"
    "                    rv = (build_rv[0], build_rv[1], rule.websocket)\n"
    "                    if self.map.host_matching:\n"
    "                        if rv[0] == self.server_name:\n"
    "                            return rv\n"
    "                        elif first_match is None:\n"
    "                            first_match = rv\n"
    "                    else:\n"
    "                        return rv\n"
    "\n"
    "        return first_match\n"
)
_DEF_BUILD = "    def build(\n        self,\n        endpoint: t.Any,\n        values: t.Mapping[str, t.Any] | None = None,\n"
_UNPACK_RV = "        domain_part, path, websocket = rv\n        host = self.get_host(domain_part)\n"
_ALIAS_BUILD = "        url = self.build(\n" + _ALIAS_BUILD_ARGS + "        )\n"
_VALUES_NORM = (
    "        if values:\n"
    "            if isinstance(values, MultiDict):\n"
    "                values = {\n"
    "                    k: (v[0] if len(v) == 1 else v)\n"
    "                    for k, v in dict.items(values)\n"
    "                    if len(v) != 0\n"
    "                }\n"
    "            else:  # plain dict\n"
    "                values = {k: v for k, v in values.items() if v is not None}\n"
    "        else:\n"
    "            values = {}\n"
)
_EXTERNAL_URL = "        return f\"{scheme}//{host}{self.script_name[:-1]}/{path.lstrip('/')}\""
_MODULE_RAISER = "def _redirect_to(url):\n    raise RequestRedirect(url)\n\n\n"

# ---- round 4: host position (R12.9), defaults-provider predicate (R12.10), build order (R12.11)
R = "routing/rules.py"
_GET_HOST_BODY = (
    "        if self.map.host_matching:\n"
    "            if domain_part is None:\n"
    "                return self.server_name\n"
    "\n"
    "            return domain_part\n"
    "\n"
    "        if domain_part is None:\n"
    "            subdomain = self.subdomain\n"
    "        else:\n"
    "            subdomain = domain_part\n"
    "\n"
    "        if subdomain:\n"
    "            return f\"{subdomain}.{self.server_name}\"\n"
    "        else:\n"
    "            return self.server_name\n"
)
_HM_BRANCH = "        if self.map.host_matching:\n            if domain_part is None:\n                return self.server_name\n\n            return domain_part\n"
_SUB_CHOICE = "        if domain_part is None:\n            subdomain = self.subdomain\n        else:\n            subdomain = domain_part\n"
_SUB_HOST = "            return f\"{subdomain}.{self.server_name}\"\n"
_REDIRECT_HOST = "        host = self.get_host(domain_part)\n" + _PATH_JOIN
_DEF_GET_HOST = "    def get_host(self, domain_part: str | None) -> str:\n"
_PROVIDES = (
    "        return bool(\n"
    "            not self.build_only\n"
    "            and self.defaults\n"
    "            and self.endpoint == rule.endpoint\n"
    "            and self != rule\n"
    "            and self.arguments == rule.arguments\n"
    "        )\n"
)
_SAME_ARGS = "            and self.arguments == rule.arguments\n"
_BUILD_KEY = "        return (1 if self.alias else 0, -len(self.arguments), -len(self.defaults or ()))\n"
_SORT = "                rules.sort(key=lambda x: x.build_compare_key())\n"
_SORT_LOOP = "            for rules in self._rules_by_endpoint.values():\n" + _SORT
_DEFAULTS_LOOP = (
    "        for r in self.map._rules_by_endpoint[rule.endpoint]:\n"
    "            # every rule that comes after this one, including ourself\n"
    "            # has a lower priority for the defaults.  We order the ones\n"
    "            # with the highest priority up for building.\n"
    "            if r is rule:\n"
    "                break\n"
    "            if r.provides_defaults_for(rule) and r.suitable_for(values, method):\n"
    "                values.update(r.defaults)  # type: ignore\n"
    "                domain_part, path = r.build(values)  # type: ignore\n"
    "                return self.make_redirect_url(path, query_args, domain_part=domain_part)\n"
    "        return None\n"
)


def _candidate_list(elem: str) -> str:
    """the rule loop collecting every candidate in a list (append), the choice made afterwards."""
    return (
        "        candidates = []\n"
        "\n"
        "        for rule in self.map._rules_by_endpoint.get(endpoint, ()):\n"
        "            if not rule.suitable_for(values, method):\n"
        "                continue\n"
        "            build_rv = rule.build(values, append_unknown)\n"
        "            if build_rv is not None:\n"
        "                candidates.append(" + elem + ")\n"
        "\n"
        "        if not candidates:\n"
        "            return None\n"
        "        if self.map.host_matching:\n"
        "            for rv in candidates:\n"
        "                if rv[0] == self.server_name:\n"
        "                    return rv\n"
        "        return candidates[0]\n"
    )


def _generator_helper(yielded: str, pick: str) -> list:
    """the rule loop as a generator method; the caller picks with `pick`."""
    return [
        (M, _RULE_LOOP, pick),
        (M, _DEF_BUILD,
         "    def _built_candidates(self, endpoint, values, method, append_unknown):\n"
         "        for rule in self.map._rules_by_endpoint.get(endpoint, ()):\n"
         "            if rule.suitable_for(values, method):\n"
         "                build_rv = rule.build(values, append_unknown)\n"
         "                if build_rv is not None:\n"
         "                    yield " + yielded + "\n"
         "\n" + _DEF_BUILD),
    ]


_PICK_SENTINEL_LOOP = (
    "        found = self._built_candidates(endpoint, values, method, append_unknown)\n"
    "        first_match = None\n"
    "        for rv in iter(lambda: next(found, None), None):\n"
    "            if not self.map.host_matching or rv[0] == self.server_name:\n"
    "                return rv\n"
    "            if first_match is None:\n"
    "                first_match = rv\n"
    "        return first_match\n"
)
_PICK_LIST_OF_GENERATOR = (
    "        found = list(self._built_candidates(endpoint, values, method, append_unknown))\n"
    "        if self.map.host_matching:\n"
    "            found = [c for c in found if c[0] == self.server_name] + found\n"
    "        return found[0] if found else None\n"
)
_STATIC_PICK = (
    "    @staticmethod\n"
    "    def _pick(candidates, wanted):\n"
    "        first = None\n"
    "        for domain, path, ws in candidates:\n"
    "            if wanted is None or domain == wanted:\n"
    "                return %s\n"
    "            if first is None:\n"
    "                first = (domain, path, ws)\n"
    "        return first\n"
    "\n"
)
_PICK_BY_STATIC_HELPER = (
    "        wanted = self.server_name if self.map.host_matching else None\n"
    "        return self._pick(self._built_candidates(endpoint, values, method, append_unknown), wanted)\n"
)
_MODULE_CLEAN = (
    "def _clean_values(values):\n"
    "    if not values:\n"
    "        return {}\n"
    "    cleaned = {}\n"
    "    if isinstance(values, MultiDict):\n"
    "        for k, v in dict.items(values):\n"
    "            if len(v) != 0:\n"
    "                cleaned[k] = v[0] if len(v) == 1 else v\n"
    "    else:\n"
    "        cleaned.update((k, v) for k, v in values.items() if v is not None)\n"
    "    return cleaned\n"
    "\n\n"
)

MUTANTS = [
    # R12.1 ----------------------------------------------------------------
    {"name": "redirect-path-keeps-leading-slashes", "expect": "R12.1", "edits": [(M, _PATH_JOIN, '        path = "/".join((self.script_name.strip("/"), path_info))')]},
    {"name": "redirect-path-without-script-root", "expect": "R12.1", "edits": [(M, _PATH_JOIN, '        path = "/" + path_info.lstrip("/")')]},
    {"name": "slash-redirect-built-with-urljoin", "expect": "R12.1", "edits": [(M, _SLASH_SITE,
        "            raise RequestRedirect(\n                urljoin(f\"{self.url_scheme or 'http'}://{self.get_host(None)}{self.script_name}\", new_path)\n            ) from None")]},
    {"name": "slash-redirect-host-from-request-path", "expect": "R12.1", "edits": [(M, _SLASH_SITE,
        "            raise RequestRedirect(\n                self.make_redirect_url(new_path, query_args, domain_part=path_part.split(\"/\")[1])\n            ) from None")]},
    {"name": "external-url-drops-slash-and-lstrip", "expect": "R12.1", "edits": [(M, "        return f\"{scheme}//{host}{self.script_name[:-1]}/{path.lstrip('/')}\"", "        return f\"{scheme}//{host}{self.script_name[:-1]}{path}\"")]},
    {"name": "default-redirect-host-from-matched-values", "expect": "R12.1", "edits": [(M, "                return self.make_redirect_url(path, query_args, domain_part=domain_part)", "                return self.make_redirect_url(path, query_args, domain_part=values.get(\"subdomain\", domain_part))")]},
    {"name": "default-redirect-is-a-bare-path", "expect": "R12.1", "edits": [(M, "                return self.make_redirect_url(path, query_args, domain_part=domain_part)", "                return path")]},
    # R12.2 ----------------------------------------------------------------
    {"name": "matcher-path-not-stripped", "expect": "R12.2", "edits": [(M, "        path_part = f\"/{path_info.lstrip('/')}\" if path_info else \"\"", "        path_part = f\"/{path_info}\" if path_info else \"\"")]},
    {"name": "matcher-path-kept-when-it-starts-with-slash", "expect": "R12.2", "edits": [(M, "        path_part = f\"/{path_info.lstrip('/')}\" if path_info else \"\"", "        path_part = path_info if path_info.startswith(\"/\") else f\"/{path_info}\"")]},
    # R12.3 ----------------------------------------------------------------
    {"name": "slash-redirect-omits-query-args", "expect": "R12.3", "edits": [(M, _SLASH_SITE, "            raise RequestRedirect(self.make_redirect_url(new_path)) from None")]},
    {"name": "alias-redirect-drops-query", "expect": "R12.3", "edits": [(M, "        if query_args:\n            url += f\"?{self.encode_query_args(query_args)}\"\n        assert url != path", "        assert url != path")]},
    {"name": "default-redirect-uses-bound-query-only", "expect": "R12.3", "edits": [(M, "                redirect_url = self.get_default_redirect(rule, method, rv, query_args)", "                redirect_url = self.get_default_redirect(rule, method, rv, self.query_args or {})")]},
    {"name": "redirect-query-requoted-at-assembly", "expect": "R12.3", "edits": [(M, "            query_str = self.encode_query_args(query_args)\n        else:", "            query_str = quote(self.encode_query_args(query_args), safe=\"&=+\")\n        else:")]},
    # R12.4 ----------------------------------------------------------------
    {"name": "str-query-requoted", "expect": "R12.4", "edits": [(M, "            return _urlencode(query_args)\n        return query_args", "            return _urlencode(query_args)\n        return quote(query_args, safe=\"&=+\")")]},
    {"name": "str-query-branch-swapped", "expect": "R12.4", "edits": [(M, "        if not isinstance(query_args, str):\n            return _urlencode(query_args)\n        return query_args", "        if isinstance(query_args, str):\n            return _urlencode(query_args)\n        return query_args")]},
    # R12.5 ----------------------------------------------------------------
    {"name": "slash-proposal-before-method-test", "expect": "R12.5", "edits": [(T, _SLASH_LOOP,
        "                        if websocket == rule.websocket:\n"
        "                            if rule.strict_slashes:\n"
        "                                raise SlashRequired()\n"
        "                            elif rule.methods is None or method in rule.methods:\n"
        "                                return rule, values\n")]},
    {"name": "slash-proposal-ignores-websocket", "expect": "R12.5", "edits": [(T, "                        if websocket == rule.websocket and (\n                            rule.methods is None or method in rule.methods\n                        ):", "                        if rule.methods is None or method in rule.methods:")]},
    {"name": "slash-proposal-method-test-dropped", "expect": "R12.5", "edits": [(T, "                        if websocket == rule.websocket and (\n                            rule.methods is None or method in rule.methods\n                        ):", "                        if websocket == rule.websocket:")]},
    {"name": "merged-slash-redirect-without-a-match", "expect": "R12.5", "edits": [(T, "            if rv is None or rv[0].merge_slashes is False:", "            if rv is not None and rv[0].merge_slashes is False:")]},
    {"name": "slash-proposal-admission-flag-not-consulted", "expect": "R12.5", "edits": [(T, _SLASH_LOOP,
        "                        method_ok = rule.methods is None or method in rule.methods\n"
        "                        if websocket == rule.websocket:\n"
        "                            if rule.strict_slashes:\n"
        "                                raise SlashRequired()\n"
        "                            if method_ok:\n"
        "                                return rule, values\n")]},
    {"name": "slash-proposal-admission-flag-of-the-wrong-polarity", "expect": "R12.5", "edits": [(T, _SLASH_LOOP,
        "                        refused = rule.methods is not None and method not in rule.methods\n"
        "                        if websocket == rule.websocket and refused:\n"
        "                            if rule.strict_slashes:\n"
        "                                raise SlashRequired()\n"
        "                            return rule, values\n")]},
    # R12.6 ----------------------------------------------------------------
    {"name": "first-pass-slash-redirect-targets-the-merged-path", "expect": "R12.6", "edits": [(T, _FIRST_PASS,
        "        merged = re.sub(\"/{2,}?\", \"/\", path)\n"
        "        try:\n"
        "            rv = _match(self._root, [domain, *path.split(\"/\")], [])\n"
        "        except SlashRequired:\n"
        "            raise RequestPath(f\"{merged}/\") from None\n"
        "\n"
        "        if self.merge_slashes and rv is None:\n")]},
    {"name": "both-passes-in-one-try-redirect-to-the-merged-path", "expect": "R12.6", "edits": [
        (T, _FIRST_PASS,
        "        merged = re.sub(\"/{2,}?\", \"/\", path) if self.merge_slashes else path\n"
        "        try:\n"
        "            rv = _match(self._root, [domain, *path.split(\"/\")], [])\n"
        "            if rv is None and merged != path:\n"
        "                rv = _match(self._root, [domain, *merged.split(\"/\")], [])\n"
        "                if rv is None or rv[0].merge_slashes is False:\n"
        "                    raise NoMatch(have_match_for, websocket_mismatch)\n"
        "                raise RequestPath(merged)\n"
        "        except SlashRequired:\n"
        "            raise RequestPath(f\"{merged}/\") from None\n"
        "\n"
        "        if False:\n")]},
    {"name": "merged-pass-slash-redirect-targets-the-unmerged-path", "expect": "R12.6", "edits": [(T, _SECOND_PASS,
        "            unmerged = path\n"
        "            path = re.sub(\"/{2,}?\", \"/\", path)\n"
        "            try:\n"
        "                rv = _match(self._root, [domain, *path.split(\"/\")], [])\n"
        "            except SlashRequired:\n"
        "                raise RequestPath(f\"{unmerged}/\") from None\n")]},
    # R12.7 ----------------------------------------------------------------
    {"name": "alias-signal-raised-before-the-defaults-are-merged", "expect": "R12.7", "edits": [(T, _ALIAS_TAIL,
        "            if rule.alias and rule.map.redirect_defaults:\n"
        "                raise RequestAliasRedirect(result, rule.endpoint)\n"
        "\n"
        "            if rule.defaults:\n"
        "                result.update(rule.defaults)\n"
        "\n"
        "            return rule, result\n")]},
    {"name": "defaults-merged-only-for-rules-that-are-not-aliases", "expect": "R12.7", "edits": [(T, "            if rule.defaults:\n                result.update(rule.defaults)\n", "            if rule.defaults and not rule.alias:\n                result.update(rule.defaults)\n")]},
    {"name": "alias-signal-given-a-copy-taken-before-the-defaults", "expect": "R12.7", "edits": [(T, _ALIAS_TAIL,
        "            converted = dict(result)\n"
        "            if rule.defaults:\n"
        "                result.update(rule.defaults)\n"
        "\n"
        "            if rule.alias and rule.map.redirect_defaults:\n"
        "                raise RequestAliasRedirect(converted, rule.endpoint)\n"
        "\n"
        "            return rule, result\n")]},
    {"name": "alias-signal-built-from-the-url-values-alone", "expect": "R12.7", "edits": [(T, "                raise RequestAliasRedirect(result, rule.endpoint)\n", "                raise RequestAliasRedirect(dict(zip(rule._converters, values)), rule.endpoint)\n")]},
    {"name": "alias-check-in-a-helper-called-before-the-defaults", "expect": "R12.7", "edits": [(T, _ALIAS_TAIL,
        "            def _canonicalise(matched: dict[str, t.Any]) -> None:\n"
        "                if rule.alias and rule.map.redirect_defaults:\n"
        "                    raise RequestAliasRedirect(matched, rule.endpoint)\n"
        "\n"
        "            _canonicalise(result)\n"
        "            if rule.defaults:\n"
        "                result.update(rule.defaults)\n"
        "\n"
        "            return rule, result\n")]},
    # R12.8 ----------------------------------------------------------------
    {"name": "secure-flag-computed-before-the-bound-scheme-fallback", "expect": "R12.8", "edits": [(M, _FALLBACK, ""), (M, _SECURE, _SECURE + "\n" + _FALLBACK)]},
    {"name": "slash-redirect-scheme-hard-coded", "expect": "R12.8", "edits": [(M, _REDIRECT_SCHEME, "        scheme = \"http\"\n")]},
    {"name": "alias-redirect-built-with-an-explicit-http-scheme", "expect": "R12.8", "edits": [(M, _ALIAS_BUILD_ARGS, "            endpoint, values, method, append_unknown=False, force_external=True, url_scheme=\"http\"\n")]},
    {"name": "websocket-scheme-polarity-swapped", "expect": "R12.8", "edits": [(M, _WS_SCHEME, "            url_scheme = \"ws\" if secure else \"wss\"\n")]},
    {"name": "secure-flag-forgets-wss", "expect": "R12.8", "edits": [(M, _SECURE, "        secure = url_scheme == \"https\"\n")]},
    {"name": "bound-scheme-fallback-inverted", "expect": "R12.8", "edits": [(M, _FALLBACK, "        if url_scheme is not None:\n            url_scheme = self.url_scheme\n")]},
    {"name": "secure-flag-from-the-argument-in-a-conditional-expression", "expect": "R12.8", "edits": [(M, _FALLBACK, ""), (M, _SECURE,
        "        secure = url_scheme in {\"https\", \"wss\"}\n"
        "        url_scheme = self.url_scheme if url_scheme is None else url_scheme\n")]},
    # round 3 (R12.1 / R12.8 through generator helpers, next(), lists, keyed records, ** tables, static helpers) ----
    {"name": "candidate-list-host-from-the-matched-values", "expect": "R12.1", "edits": [(M, _RULE_LOOP, _candidate_list("(values.get(\"subdomain\") or build_rv[0], build_rv[1], rule.websocket)"))]},
    {"name": "generator-helper-yields-path-in-the-domain-position", "expect": "R12.1", "edits": _generator_helper("build_rv[1], build_rv[0], rule.websocket", _PICK_SENTINEL_LOOP)},
    {"name": "list-of-generator-host-from-the-built-path", "expect": "R12.1", "edits": _generator_helper("build_rv[1].partition(\"/\")[0] or build_rv[0], build_rv[1], rule.websocket", _PICK_LIST_OF_GENERATOR)},
    {"name": "static-pick-helper-returns-path-as-domain", "expect": "R12.1", "edits": _generator_helper("build_rv[0], build_rv[1], rule.websocket", _PICK_BY_STATIC_HELPER) + [(M, _DEF_BUILD, _STATIC_PICK % "(path, path, ws)" + _DEF_BUILD)]},
    {"name": "built-record-host-read-from-the-path-key", "expect": "R12.1", "edits": [(M, _UNPACK_RV,
        "        built = {\"domain\": rv[0], \"path\": rv[1], \"websocket\": rv[2]}\n        path, websocket = built[\"path\"], built[\"websocket\"]\n        host = self.get_host(built.get(\"path\"))\n")]},
    {"name": "alias-build-options-table-forces-http", "expect": "R12.8", "edits": [(M, _ALIAS_BUILD,
        "        options = {\"append_unknown\": False, \"force_external\": True, \"url_scheme\": \"http\"}\n        url = self.build(endpoint, values, method, **options)\n")]},
    {"name": "external-url-root-attribute-followed-by-the-unstripped-path", "expect": "R12.1", "edits": [(M, _EXTERNAL_URL, "        return f\"{scheme}//{host}{self.script_name}{path}\"")]},
    {"name": "external-url-rest-local-not-stripped", "expect": "R12.1", "edits": [(M, _EXTERNAL_URL, "        rest = path\n        root = self.script_name[:-1]\n        return f\"{scheme}//{host}{root}/{rest}\"")]},
    {"name": "redirect-url-helper-joins-the-request-path-with-urljoin", "expect": "R12.1", "edits": [(M, _PATH_JOIN + "\n        return urlunsplit((scheme, host, path, query_str, None))",
        "        root = urlunsplit((scheme, host, self.script_name, None, None))\n        url = urljoin(root, path_info.lstrip(\"/\"))\n        return f\"{url}?{query_str}\" if query_str else url")]},
    {"name": "module-level-raiser-given-the-bare-path", "expect": "R12.1", "edits": [(M, _SLASH_SITE, "            _redirect_to(new_path)"), (M, "class MapAdapter:\n", _MODULE_RAISER + "class MapAdapter:\n")]},
    {"name": "alias-build-arguments-table-puts-values-in-the-scheme", "expect": "R12.1", "edits": [(M, _ALIAS_BUILD,
        "        options = {\"append_unknown\": False, \"force_external\": True, \"url_scheme\": values.get(\"scheme\")}\n        url = self.build(endpoint, values, method, **options)\n")]},
    # R12.9 (host position of the redirect URLs) -----------------------------------------------
    {"name": "host-none-domain-returns-the-bare-server-name-first", "expect": "R12.9", "edits": [(M, _GET_HOST_BODY,
        "        if domain_part is None:\n            return self.server_name\n\n        if self.map.host_matching:\n            return domain_part\n\n"
        "        subdomain = domain_part\n\n        if subdomain:\n" + _SUB_HOST + "        else:\n            return self.server_name\n")]},
    {"name": "redirect-url-helper-short-cuts-the-host-for-no-domain-part", "expect": "R12.9", "edits": [(M, _REDIRECT_HOST,
        "        host = self.server_name if domain_part is None else self.get_host(domain_part)\n" + _PATH_JOIN)]},
    {"name": "host-matching-test-inverted", "expect": "R12.9", "edits": [(M, _HM_BRANCH, _HM_BRANCH.replace("if self.map.host_matching:", "if not self.map.host_matching:"))]},
    {"name": "subdomain-and-server-name-swapped", "expect": "R12.9", "edits": [(M, _SUB_HOST, "            return f\"{self.server_name}.{subdomain}\"\n")]},
    {"name": "explicit-domain-part-loses-the-subdomain-prefix", "expect": "R12.9", "edits": [(M, "        if subdomain:\n" + _SUB_HOST, "        if subdomain and domain_part is None:\n" + _SUB_HOST)]},
    {"name": "slash-redirect-passes-an-empty-domain-part", "expect": "R12.9", "edits": [(M, _SLASH_SITE,
        "            raise RequestRedirect(\n                self.make_redirect_url(new_path, query_args, domain_part=\"\")\n            ) from None")]},
    # R12.10 (defaults-provider predicate) -------------------------------------------------------
    {"name": "defaults-provider-arguments-superset-operator", "expect": "R12.10", "edits": [(R, _SAME_ARGS, "            and self.arguments >= rule.arguments\n")]},
    {"name": "defaults-provider-arguments-compared-by-size", "expect": "R12.10", "edits": [(R, _SAME_ARGS, "            and len(self.arguments) == len(rule.arguments)\n")]},
    {"name": "defaults-provider-arguments-conjunct-dropped", "expect": "R12.10", "edits": [(R, _SAME_ARGS, "")]},
    {"name": "defaults-provider-arguments-only-overlap", "expect": "R12.10", "edits": [(R, _SAME_ARGS, "            and not self.arguments.isdisjoint(rule.arguments)\n")]},
    {"name": "defaults-provider-build-only-conjunct-dropped", "expect": "R12.10", "edits": [(R, "            not self.build_only\n            and self.defaults\n", "            self.defaults\n")]},
    {"name": "defaults-provider-early-returns-and-subset-test", "expect": "R12.10", "edits": [(R, _PROVIDES,
        "        if self.build_only or not self.defaults:\n            return False\n        if self.endpoint != rule.endpoint or self == rule:\n            return False\n"
        "        return rule.arguments.issubset(self.arguments)\n")]},
    {"name": "defaults-provider-compares-the-defaulted-keys-only", "expect": "R12.10", "edits": [(R, _SAME_ARGS, "            and set(self.defaults) <= rule.arguments\n")]},
    # R12.11 (build order of the per-endpoint rule lists) -----------------------------------------
    {"name": "build-key-alias-flag-last", "expect": "R12.11", "edits": [(R, _BUILD_KEY, "        return (-len(self.arguments), -len(self.defaults or ()), 1 if self.alias else 0)\n")]},
    {"name": "build-key-alias-flag-polarity-inverted", "expect": "R12.11", "edits": [(R, _BUILD_KEY, "        return (0 if self.alias else 1, -len(self.arguments), -len(self.defaults or ()))\n")]},
    {"name": "build-key-without-the-alias-flag", "expect": "R12.11", "edits": [(R, _BUILD_KEY, "        return (-len(self.arguments), -len(self.defaults or ()))\n")]},
    {"name": "rule-lists-sorted-in-reverse", "expect": "R12.11", "edits": [(M, _SORT, "                rules.sort(key=lambda x: x.build_compare_key(), reverse=True)\n")]},
    {"name": "inline-sort-key-orders-by-defaults-before-the-alias-flag", "expect": "R12.11", "edits": [(M, _SORT, "                rules.sort(key=lambda r: (-len(r.defaults or ()), bool(r.alias), -len(r.arguments)))\n")]},
    {"name": "build-key-alias-flag-folded-into-the-defaults-count", "expect": "R12.11", "edits": [(R, _BUILD_KEY, "        return (-len(self.arguments), int(self.alias) - len(self.defaults or ()))\n")]},
]

TWINS = [
    {"name": "redirect-url-locals-renamed-tuple-via-local", "edits": [(M,
        "        scheme = self.url_scheme or \"http\"\n        host = self.get_host(domain_part)\n" + _PATH_JOIN + "\n        return urlunsplit((scheme, host, path, query_str, None))",
        "        netloc = self.get_host(domain_part)\n        root = self.script_name.strip(\"/\")\n        rest = path_info.lstrip(\"/\")\n        target = f\"{root}/{rest}\"\n        parts = (self.url_scheme or \"http\", netloc, target, query_str, None)\n        return urlunsplit(parts)")]},
    {"name": "encode-query-args-early-return-flipped", "edits": [(M, "        if not isinstance(query_args, str):\n            return _urlencode(query_args)\n        return query_args", "        if isinstance(query_args, str):\n            return query_args\n        return _urlencode(query_args)")]},
    {"name": "encode-query-args-conditional-expression", "edits": [(M, "        if not isinstance(query_args, str):\n            return _urlencode(query_args)\n        return query_args", "        return query_args if isinstance(query_args, str) else _urlencode(query_args)")]},
    {"name": "slash-loop-continue-style", "edits": [(T, _SLASH_LOOP,
        "                        if websocket != rule.websocket:\n"
        "                            continue\n"
        "                        if rule.methods is not None and method not in rule.methods:\n"
        "                            if not rule.strict_slashes:\n"
        "                                have_match_for.update(rule.methods)\n"
        "                            continue\n"
        "                        if not rule.strict_slashes:\n"
        "                            return rule, values\n"
        "                        raise SlashRequired()\n")]},
    {"name": "match-url-in-a-local-and-path-by-concatenation", "edits": [
        (M, _SLASH_SITE, "            target = self.make_redirect_url(new_path, query_args=query_args)\n            raise RequestRedirect(target) from None"),
        (M, "        path_part = f\"/{path_info.lstrip('/')}\" if path_info else \"\"", "        path_part = \"\"\n        if path_info:\n            path_part = \"/\" + path_info.lstrip(\"/\")"),
    ]},
    {"name": "alias-query-appended-by-concatenation", "edits": [(M, "            url += f\"?{self.encode_query_args(query_args)}\"", "            url = url + \"?\" + self.encode_query_args(query_args)")]},
    {"name": "default-redirect-indexes-the-built-pair", "edits": [(M,
        "                domain_part, path = r.build(values)  # type: ignore\n                return self.make_redirect_url(path, query_args, domain_part=domain_part)",
        "                built = r.build(values)  # type: ignore\n                return self.make_redirect_url(built[1], query_args, domain_part=built[0])")]},
    {"name": "merged-slash-early-raise-style", "edits": [(T,
        "            if rv is None or rv[0].merge_slashes is False:\n                raise NoMatch(have_match_for, websocket_mismatch)\n            else:\n                raise RequestPath(f\"{path}\")",
        "            if rv is not None and rv[0].merge_slashes is not False:\n                raise RequestPath(f\"{path}\")\n            raise NoMatch(have_match_for, websocket_mismatch)")]},
    {"name": "slash-loop-admission-in-a-flag-local", "edits": [(T, _SLASH_LOOP,
        "                        admits = websocket == rule.websocket and (\n"
        "                            rule.methods is None or method in rule.methods\n"
        "                        )\n"
        "                        if admits and rule.strict_slashes:\n"
        "                            raise SlashRequired()\n"
        "                        if admits:\n"
        "                            return rule, values\n"
        "                        if (\n"
        "                            not rule.strict_slashes\n"
        "                            and rule.methods is not None\n"
        "                            and method not in rule.methods\n"
        "                        ):\n"
        "                            have_match_for.update(rule.methods)\n")]},
    {"name": "slash-loop-methods-through-an-alias-and-de-morgan", "edits": [(T, _ADMIT_IF,
        "                        allowed = rule.methods\n"
        "                        if not (rule.websocket != websocket or (\n"
        "                            allowed is not None and method not in allowed\n"
        "                        )):\n")]},
    {"name": "slash-loop-admission-in-a-predicate-helper", "edits": [
        (T, _DEF_MATCH,
        "        def _admits(r: Rule) -> bool:\n"
        "            return websocket == r.websocket and (\n"
        "                r.methods is None or method in r.methods\n"
        "            )\n\n" + _DEF_MATCH),
        (T, _ADMIT_IF, "                        if _admits(rule):\n"),
    ]},
    {"name": "walk-wrapped-in-a-non-catching-helper-and-parts-in-a-local", "edits": [
        (T, _FIRST_PASS,
        "        def _walk(p: str) -> tuple[Rule, list[str]] | None:\n"
        "            parts = [domain, *p.split(\"/\")]\n"
        "            return _match(self._root, parts, [])\n"
        "\n"
        "        try:\n"
        "            rv = _walk(path)\n"
        "        except SlashRequired:\n"
        "            raise RequestPath(f\"{path}/\") from None\n"
        "\n"
        "        if self.merge_slashes and rv is None:\n"),
        (T, _SECOND_PASS,
        "            path = re.sub(\"/{2,}?\", \"/\", path)\n"
        "            try:\n"
        "                rv = _walk(path)\n"
        "            except SlashRequired:\n"
        "                target = path + \"/\"\n"
        "                raise RequestPath(target) from None\n"),
    ]},
    {"name": "both-passes-through-one-catching-helper-walrus-result", "edits": [
        (T, _FIRST_PASS,
        "        def _try_path(candidate: str) -> tuple[Rule, list[str]] | None:\n"
        "            try:\n"
        "                return _match(self._root, [domain, *candidate.split(\"/\")], [])\n"
        "            except SlashRequired:\n"
        "                raise RequestPath(f\"{candidate}/\") from None\n"
        "\n"
        "        rv = _try_path(path)\n"
        "\n"
        "        if self.merge_slashes and rv is None:\n"),
        (T, _SECOND_PASS + "            if rv is None or rv[0].merge_slashes is False:\n                raise NoMatch(have_match_for, websocket_mismatch)\n            else:\n                raise RequestPath(f\"{path}\")",
        "            path = re.sub(\"/{2,}?\", \"/\", path)\n"
        "            if (again := _try_path(path)) and again[0].merge_slashes is not False:\n"
        "                raise RequestPath(path)\n"
        "            raise NoMatch(have_match_for, websocket_mismatch)"),
    ]},
    # R12.7 ----------------------------------------------------------------
    {"name": "defaults-merged-by-rebuilding-the-dict", "edits": [(T, "            if rule.defaults:\n                result.update(rule.defaults)\n", "            if rule.defaults:\n                result = {**result, **rule.defaults}\n")]},
    {"name": "alias-signal-given-a-copy-of-the-complete-result-by-keyword", "edits": [(T, "                raise RequestAliasRedirect(result, rule.endpoint)\n", "                raise RequestAliasRedirect(endpoint=rule.endpoint, matched_values=dict(result))\n")]},
    {"name": "defaults-merged-separately-on-the-alias-and-the-result-path", "edits": [(T, _ALIAS_TAIL,
        "            if rule.alias and rule.map.redirect_defaults:\n"
        "                if rule.defaults:\n"
        "                    result.update(rule.defaults)\n"
        "                raise RequestAliasRedirect(result, rule.endpoint)\n"
        "\n"
        "            if rule.defaults:\n"
        "                result.update(rule.defaults)\n"
        "\n"
        "            return rule, result\n")]},
    {"name": "defaults-through-a-local-merged-unconditionally-pair-in-a-local", "edits": [(T, _ALIAS_TAIL,
        "            extra = rule.defaults or {}\n"
        "            result.update(extra)\n"
        "            found = (rule, result)\n"
        "\n"
        "            if rule.alias and rule.map.redirect_defaults:\n"
        "                raise RequestAliasRedirect(result, rule.endpoint)\n"
        "\n"
        "            return found\n")]},
    {"name": "alias-check-in-a-helper-called-after-the-defaults", "edits": [(T, _ALIAS_TAIL,
        "            def _canonicalise(matched: dict[str, t.Any]) -> None:\n"
        "                if rule.alias and rule.map.redirect_defaults:\n"
        "                    raise RequestAliasRedirect(matched, rule.endpoint)\n"
        "\n"
        "            if rule.defaults:\n"
        "                result.update(rule.defaults)\n"
        "\n"
        "            _canonicalise(result)\n"
        "            return rule, result\n")]},
    {"name": "defaults-merged-by-in-place-union-under-a-flipped-test", "edits": [(T, "            if rule.defaults:\n                result.update(rule.defaults)\n", "            if not rule.defaults:\n                pass\n            else:\n                result |= rule.defaults\n")]},
    # R12.8 ----------------------------------------------------------------
    {"name": "effective-scheme-in-a-local-by-conditional-expression", "edits": [
        (M, _FALLBACK, "        bound = self.url_scheme if url_scheme is None else url_scheme\n"),
        (M, _SECURE, "        secure = bound in (\"https\", \"wss\")\n"),
        (M, _HTTP_SCHEME, "        elif bound:\n            url_scheme = \"https\" if secure else \"http\"\n        else:\n            url_scheme = bound\n"),
    ]},
    {"name": "secure-flag-by-two-equality-tests", "edits": [(M, _SECURE, "        secure = url_scheme == \"https\" or url_scheme == \"wss\"\n")]},
    {"name": "scheme-fallback-in-a-helper-method", "edits": [
        (M, "    def _partial_build(\n", "    def _effective_scheme(self, url_scheme: str | None) -> str:\n        return self.url_scheme if url_scheme is None else url_scheme\n\n    def _partial_build(\n"),
        (M, _FALLBACK, "        url_scheme = self._effective_scheme(url_scheme)\n"),
    ]},
    {"name": "redirect-scheme-default-by-conditional-expression", "edits": [(M, _REDIRECT_SCHEME, "        scheme = self.url_scheme if self.url_scheme else \"http\"\n")]},
    {"name": "scheme-prefix-by-if-statement-and-concatenation", "edits": [(M, _PREFIX, "        scheme = \"\"\n        if url_scheme:\n            scheme = url_scheme + \":\"\n")]},
    {"name": "websocket-scheme-from-a-lookup-table-secure-set-as-module-constant", "edits": [
        (M, "class MapAdapter:\n", "_SECURE_SCHEMES = frozenset({\"https\", \"wss\"})\n\n\nclass MapAdapter:\n"),
        (M, _SECURE, "        secure = url_scheme in _SECURE_SCHEMES\n"),
        (M, _WS_SCHEME, "            url_scheme = {True: \"wss\", False: \"ws\"}[secure]\n"),
    ]},
    {"name": "secure-flag-computed-after-the-fallback-inside-both-branches", "edits": [
        (M, _SECURE, ""),
        (M, "        if websocket:\n            force_external = True\n" + _WS_SCHEME + _HTTP_SCHEME,
         "        if websocket:\n            force_external = True\n            url_scheme = \"wss\" if url_scheme in {\"https\", \"wss\"} else \"ws\"\n"
         "        elif url_scheme:\n            url_scheme = \"https\" if url_scheme in {\"https\", \"wss\"} else \"http\"\n"),
    ]},
    {"name": "alias-redirect-passes-the-bound-scheme-explicitly-through-a-local", "edits": [(M,
        "        url = self.build(\n" + _ALIAS_BUILD_ARGS + "        )\n",
        "        bound = self.url_scheme\n        url = self.build(\n            endpoint, values, method, append_unknown=False, force_external=True, url_scheme=bound\n        )\n")]},
    # round 3 ------------------------------------------------------------------
    {"name": "partial-build-candidates-collected-in-a-list", "edits": [(M, _RULE_LOOP, _candidate_list("(build_rv[0], build_rv[1], rule.websocket)"))]},
    {"name": "partial-build-generator-helper-drained-by-iter-sentinel", "edits": _generator_helper("build_rv[0], build_rv[1], rule.websocket", _PICK_SENTINEL_LOOP)},
    {"name": "partial-build-generator-helper-listed-and-filtered", "edits": _generator_helper("(build_rv[0], build_rv[1], rule.websocket)", _PICK_LIST_OF_GENERATOR)},
    {"name": "partial-build-choice-in-a-static-helper-fed-by-a-generator", "edits": _generator_helper("build_rv[0], build_rv[1], rule.websocket", _PICK_BY_STATIC_HELPER) + [(M, _DEF_BUILD, _STATIC_PICK % "(domain, path, ws)" + _DEF_BUILD)]},
    {"name": "partial-build-generator-expression-and-next", "edits": [(M, _RULE_LOOP,
        "        built = (\n"
        "            (r.build(values, append_unknown), r.websocket)\n"
        "            for r in self.map._rules_by_endpoint.get(endpoint, ())\n"
        "            if r.suitable_for(values, method)\n"
        "        )\n"
        "        found = ((b[0], b[1], ws) for b, ws in built if b is not None)\n"
        "        first_match = next(found, None)\n"
        "        if first_match is None or not self.map.host_matching:\n"
        "            return first_match\n"
        "        if first_match[0] == self.server_name:\n"
        "            return first_match\n"
        "        return next((rv for rv in found if rv[0] == self.server_name), first_match)\n")]},
    {"name": "build-result-kept-in-a-keyed-record", "edits": [(M, _UNPACK_RV,
        "        built = {\"domain\": rv[0], \"path\": rv[1], \"websocket\": rv[2]}\n        path, websocket = built[\"path\"], built[\"websocket\"]\n        host = self.get_host(built.get(\"domain\"))\n")]},
    {"name": "build-result-record-made-by-dict-keywords", "edits": [(M, _UNPACK_RV,
        "        built = dict(domain=rv[0], path=rv[1], websocket=rv[2])\n        path = built[\"path\"]\n        websocket = built[\"websocket\"]\n        host = self.get_host(built[\"domain\"])\n")]},
    {"name": "external-url-root-attribute-followed-directly-by-the-stripped-path", "edits": [(M, _EXTERNAL_URL, "        return f\"{scheme}//{host}{self.script_name}{path.lstrip('/')}\"")]},
    {"name": "external-url-root-and-rest-in-locals", "edits": [(M, _EXTERNAL_URL, "        rest = path.lstrip('/')\n        root = self.script_name[:-1]\n        return f\"{scheme}//{host}{root}/{rest}\"")]},
    {"name": "slash-redirect-raised-by-a-module-level-helper", "edits": [(M, _SLASH_SITE, "            _redirect_to(self.make_redirect_url(new_path, query_args))"), (M, "class MapAdapter:\n", _MODULE_RAISER + "class MapAdapter:\n")]},
    {"name": "alias-build-options-from-a-table", "edits": [(M, _ALIAS_BUILD,
        "        options = {\"append_unknown\": False, \"force_external\": True}\n        url = self.build(endpoint, values, method, **options)\n")]},
    {"name": "alias-build-positional-arguments-from-a-tuple", "edits": [(M, _ALIAS_BUILD,
        "        call_args = (endpoint, values, method)\n        url = self.build(*call_args, append_unknown=False, force_external=True)\n")]},
    {"name": "build-values-normalised-by-a-module-level-helper-filling-a-dict", "edits": [
        (M, _VALUES_NORM, "        values = _clean_values(values)\n"),
        (M, "class MapAdapter:\n", _MODULE_CLEAN + "class MapAdapter:\n"),
    ]},
    {"name": "build-values-normalised-by-a-static-helper-called-through-the-class", "edits": [
        (M, _VALUES_NORM, "        values = MapAdapter._clean_values(values)\n"),
        (M, _DEF_BUILD, "    @staticmethod\n" + "".join("    " + ln + "\n" for ln in _MODULE_CLEAN.rstrip("\n").split("\n")) + "\n" + _DEF_BUILD),
    ]},
    # R12.9 ------------------------------------------------------------------
    {"name": "host-subdomain-chosen-by-conditional-expression", "edits": [(M, _SUB_CHOICE, "        subdomain = self.subdomain if domain_part is None else domain_part\n")]},
    {"name": "host-matching-branch-as-one-conditional-return", "edits": [(M, _HM_BRANCH, "        if self.map.host_matching:\n            return self.server_name if domain_part is None else domain_part\n")]},
    {"name": "host-subdomain-mode-handled-first", "edits": [(M, _GET_HOST_BODY,
        "        if not self.map.host_matching:\n"
        "            subdomain = self.subdomain if domain_part is None else domain_part\n"
        "            return f\"{subdomain}.{self.server_name}\" if subdomain else self.server_name\n"
        "        if domain_part is None:\n"
        "            return self.server_name\n"
        "        return domain_part\n")]},
    {"name": "host-joined-with-str-join", "edits": [(M, _SUB_HOST, "            return \".\".join((subdomain, self.server_name))\n")]},
    {"name": "slash-redirect-passes-no-domain-part-explicitly-host-in-a-renamed-local", "edits": [
        (M, _SLASH_SITE, "            raise RequestRedirect(\n                self.make_redirect_url(new_path, query_args, domain_part=None)\n            ) from None"),
        (M, _REDIRECT_HOST + "\n        return urlunsplit((scheme, host, path, query_str, None))",
         "        netloc = self.get_host(domain_part)\n" + _PATH_JOIN + "\n        return urlunsplit((scheme, netloc, path, query_str, None))"),
    ]},
    {"name": "bound-host-in-a-helper-method-explicit-domain-handled-separately", "edits": [
        (M, _GET_HOST_BODY,
        "        if domain_part is None:\n"
        "            return self._bound_host()\n"
        "        if self.map.host_matching:\n"
        "            return domain_part\n"
        "        if not domain_part:\n"
        "            return self.server_name\n"
        "        return f\"{domain_part}.{self.server_name}\"\n"),
        (M, _DEF_GET_HOST,
        "    def _bound_host(self) -> str:\n"
        "        if self.map.host_matching or not self.subdomain:\n"
        "            return self.server_name\n"
        "        return f\"{self.subdomain}.{self.server_name}\"\n\n" + _DEF_GET_HOST),
    ]},
    # R12.10 -----------------------------------------------------------------
    {"name": "defaults-provider-early-return-style", "edits": [(R, _PROVIDES,
        "        if self.build_only or not self.defaults:\n            return False\n\n"
        "        return (\n            self.endpoint == rule.endpoint\n            and self != rule\n            and self.arguments == rule.arguments\n        )\n")]},
    {"name": "defaults-provider-empty-symmetric-difference", "edits": [(R, _SAME_ARGS, "            and not (self.arguments ^ rule.arguments)\n")]},
    {"name": "defaults-provider-mutual-subset", "edits": [(R, _SAME_ARGS, "            and self.arguments <= rule.arguments\n            and rule.arguments <= self.arguments\n")]},
    {"name": "defaults-provider-conjuncts-in-flag-locals", "edits": [(R, _PROVIDES,
        "        usable = not self.build_only and bool(self.defaults)\n"
        "        same_arguments = rule.arguments == self.arguments\n"
        "        return usable and same_arguments and self.endpoint == rule.endpoint and self != rule\n")]},
    {"name": "defaults-provider-as-one-conditional-expression", "edits": [(R, _PROVIDES,
        "        return False if self.build_only or not self.defaults else bool(\n"
        "            self.endpoint == rule.endpoint and not self == rule and self.arguments.issubset(rule.arguments) and self.arguments.issuperset(rule.arguments)\n"
        "        )\n")]},
    {"name": "defaults-provider-found-with-next-over-a-filtering-generator", "edits": [(M, _DEFAULTS_LOOP,
        "        candidates = self.map._rules_by_endpoint[rule.endpoint]\n"
        "        before = candidates[: next(i for i, r in enumerate(candidates) if r is rule)]\n"
        "        provider = next(\n"
        "            (r for r in before if r.provides_defaults_for(rule) and r.suitable_for(values, method)),\n"
        "            None,\n"
        "        )\n"
        "        if provider is None:\n"
        "            return None\n"
        "        values.update(provider.defaults)  # type: ignore\n"
        "        domain_part, path = provider.build(values)  # type: ignore\n"
        "        return self.make_redirect_url(path, query_args, domain_part=domain_part)\n")]},
    # R12.11 -----------------------------------------------------------------
    {"name": "build-key-parts-in-locals", "edits": [(R, _BUILD_KEY,
        "        alias_rank = int(bool(self.alias))\n        n_defaults = len(self.defaults) if self.defaults else 0\n        return (alias_rank, -len(self.arguments), -n_defaults)\n")]},
    {"name": "sort-key-inlined-as-a-lambda", "edits": [(M, _SORT, "                rules.sort(key=lambda r: (1 if r.alias else 0, -len(r.arguments), -len(r.defaults or ())))\n")]},
    {"name": "sort-key-as-the-unbound-method", "edits": [(M, _SORT, "                rules.sort(key=Rule.build_compare_key)\n")]},
    {"name": "rule-lists-replaced-by-sorted-copies", "edits": [(M, _SORT_LOOP,
        "            for endpoint, rules in self._rules_by_endpoint.items():\n                self._rules_by_endpoint[endpoint] = sorted(rules, key=lambda x: x.build_compare_key())\n")]},
    {"name": "negated-key-sorted-in-reverse", "edits": [
        (R, _BUILD_KEY, "        return (0 if self.alias else 1, len(self.arguments), len(self.defaults or ()))\n"),
        (M, _SORT, "                rules.sort(key=lambda x: x.build_compare_key(), reverse=True)\n"),
    ]},
    {"name": "sort-key-through-operator-methodcaller", "edits": [
        (M, "import typing as t\n", "import operator\nimport typing as t\n"),
        (M, _SORT, "                rules.sort(key=operator.methodcaller(\"build_compare_key\"))\n"),
    ]},
]
