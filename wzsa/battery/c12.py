"""self-validation battery for C12."""
M = "routing/map.py"
T = "routing/matcher.py"

_SLASH_SITE = "            raise RequestRedirect(\n                self.make_redirect_url(new_path, query_args)\n            ) from None"
_PATH_JOIN = '        path = "/".join((self.script_name.strip("/"), path_info.lstrip("/")))'
_SLASH_LOOP = (
    "                        if websocket == rule.websocket and (\n"
    "                            rule.methods is None or method in rule.methods\n"
    "                        ):\n"
    "                            if rule.strict_slashes:\n"
    "                                raise SlashRequired()\n"
    "                            else:\n"
    "                                return rule, values\n"
    "                        elif (\n"
    "                            not rule.strict_slashes\n"
    "                            and rule.methods is not None\n"
    "                            and method not in rule.methods\n"
    "                        ):\n"
    "                            have_match_for.update(rule.methods)\n"
)

_ADMIT_IF = (
    "                        if websocket == rule.websocket and (\n"
    "                            rule.methods is None or method in rule.methods\n"
    "                        ):\n"
)
_FIRST_PASS = (
    "        try:\n"
    "            rv = _match(self._root, [domain, *path.split(\"/\")], [])\n"
    "        except SlashRequired:\n"
    "            raise RequestPath(f\"{path}/\") from None\n"
    "\n"
    "        if self.merge_slashes and rv is None:\n"
)
_SECOND_PASS = (
    "            path = re.sub(\"/{2,}?\", \"/\", path)\n"
    "            try:\n"
    "                rv = _match(self._root, [domain, *path.split(\"/\")], [])\n"
    "            except SlashRequired:\n"
    "                raise RequestPath(f\"{path}/\") from None\n"
)
_DEF_MATCH = "        def _match(\n            state: State, parts: list[str], values: list[str]\n        )"

_ALIAS_TAIL = (
    "            if rule.defaults:\n"
    "                result.update(rule.defaults)\n"
    "\n"
    "            if rule.alias and rule.map.redirect_defaults:\n"
    "                raise RequestAliasRedirect(result, rule.endpoint)\n"
    "\n"
    "            return rule, result\n"
)
_FALLBACK = "        if url_scheme is None:\n            url_scheme = self.url_scheme\n"
_SECURE = "        secure = url_scheme in {\"https\", \"wss\"}\n"
_WS_SCHEME = "            url_scheme = \"wss\" if secure else \"ws\"\n"
_HTTP_SCHEME = "        elif url_scheme:\n            url_scheme = \"https\" if secure else \"http\"\n"
_REDIRECT_SCHEME = "        scheme = self.url_scheme or \"http\"\n"
_ALIAS_BUILD_ARGS = "            endpoint, values, method, append_unknown=False, force_external=True\n"
_PREFIX = "        scheme = f\"{url_scheme}:\" if url_scheme else \"\"\n"

# ---- round 3: the rule loop of MapAdapter._partial_build / the values normalisation of MapAdapter.build restructured
_RULE_LOOP = (
    "        first_match = None\n"
    "\n"
    "        for rule in self.map._rules_by_endpoint.get(endpoint, ()):\n"
    "            if rule.suitable_for(values, method):\n"
    "                build_rv = rule.build(values, append_unknown)\n"
    "\n"
    "                if build_rv is not None:\n"
    "                    rv = (build_rv[0], build_rv[1], rule.websocket)\n"
    "                    if self.map.host_matching:\n"
    "                        if rv[0] == self.server_name:\n"
    "                            return rv\n"
    "                        elif first_match is None:\n"
    "                            first_match = rv\n"
    "                    else:\n"
    "                        return rv\n"
    "\n"
    "        return first_match\n"
)
_DEF_BUILD = "    def build(\n        self,\n        endpoint: t.Any,\n        values: t.Mapping[str, t.Any] | None = None,\n"
_UNPACK_RV = "        domain_part, path, websocket = rv\n        host = self.get_host(domain_part)\n"
_ALIAS_BUILD = "        url = self.build(\n" + _ALIAS_BUILD_ARGS + "        )\n"
_VALUES_NORM = (
    "        if values:\n"
    "            if isinstance(values, MultiDict):\n"
    "                values = {\n"
    "                    k: (v[0] if len(v) == 1 else v)\n"
    "                    for k, v in dict.items(values)\n"
    "                    if len(v) != 0\n"
    "                }\n"
    "            else:  # plain dict\n"
    "                values = {k: v for k, v in values.items() if v is not None}\n"
    "        else:\n"
    "            values = {}\n"
)
_EXTERNAL_URL = "        return f\"{scheme}//{host}{self.script_name[:-1]}/{path.lstrip('/')}\""
_MODULE_RAISER = "def _redirect_to(url):\n    raise RequestRedirect(url)\n\n\n"

# ---- round 4: host position (R12.9), defaults-provider predicate (R12.10), build order (R12.11)
R = "routing/rules.py"
_GET_HOST_BODY = (
    "        if self.map.host_matching:\n"
    "            if domain_part is None:\n"
    "                return self.server_name\n"
    "\n"
    "            return domain_part\n"
    "\n"
    "        if domain_part is None:\n"
    "            subdomain = self.subdomain\n"
    "        else:\n"
    "            subdomain = domain_part\n"
    "\n"
    "        if subdomain:\n"
    "            return f\"{subdomain}.{self.server_name}\"\n"
    "        else:\n"
    "            return self.server_name\n"
)
_HM_BRANCH = "        if self.map.host_matching:\n            if domain_part is None:\n                return self.server_name\n\n            return domain_part\n"
_SUB_CHOICE = "        if domain_part is None:\n            subdomain = self.subdomain\n        else:\n            subdomain = domain_part\n"
_SUB_HOST = "            return f\"{subdomain}.{self.server_name}\"\n"
_REDIRECT_HOST = "        host = self.get_host(domain_part)\n" + _PATH_JOIN
_DEF_GET_HOST = "    def get_host(self, domain_part: str | None) -> str:\n"
_PROVIDES = (
    "        return bool(\n"
    "            not self.build_only\n"
    "            and self.defaults\n"
    "            and self.endpoint == rule.endpoint\n"
    "            and self != rule\n"
    "            and self.arguments == rule.arguments\n"
    "        )\n"
)
_SAME_ARGS = "            and self.arguments == rule.arguments\n"
_BUILD_KEY = "        return (1 if self.alias else 0, -len(self.arguments), -len(self.defaults or ()))\n"
_SORT = "                rules.sort(key=lambda x: x.build_compare_key())\n"
_SORT_LOOP = "            for rules in self._rules_by_endpoint.values():\n" + _SORT
_DEFAULTS_LOOP = (
    "        for r in self.map._rules_by_endpoint[rule.endpoint]:\n"
    "            # every rule that comes after this one, including ourself\n"
    "            # has a lower priority for the defaults.  We order the ones\n"
    "            # with the highest priority up for building.\n"
    "            if r is rule:\n"
    "                break\n"
    "            if r.provides_defaults_for(rule) and r.suitable_for(values, method):\n"
    "                values.update(r.defaults)  # type: ignore\n"
    "                domain_part, path = r.build(values)  # type: ignore\n"
    "                return self.make_redirect_url(path, query_args, domain_part=domain_part)\n"
    "        return None\n"
)


def _candidate_list(elem: str) -> str:
    """the rule loop collecting every candidate in a list (append), the choice made afterwards."""
    return (
        "        candidates = []\n"
        "\n"
        "        for rule in self.map._rules_by_endpoint.get(endpoint, ()):\n"
        "            if not rule.suitable_for(values, method):\n"
        "                continue\n"
        "            build_rv = rule.build(values, append_unknown)\n"
        "            if build_rv is not None:\n"
        "                candidates.append(" + elem + ")\n"
        "\n"
        "        if not candidates:\n"
        "            return None\n"
        "        if self.map.host_matching:\n"
        "            for rv in candidates:\n"
        "                if rv[0] == self.server_name:\n"
        "                    return rv\n"
        "        return candidates[0]\n"
    )


def _generator_helper(yielded: str, pick: str) -> list:
    """the rule loop as a generator method; the caller picks with `pick`."""
    return [
        (M, _RULE_LOOP, pick),
        (M, _DEF_BUILD,
         "    def _built_candidates(self, endpoint, values, method, append_unknown):\n"
         "        for rule in self.map._rules_by_endpoint.get(endpoint, ()):\n"
         "            if rule.suitable_for(values, method):\n"
         "                build_rv = rule.build(values, append_unknown)\n"
         "                if build_rv is not None:\n"
         "                    yield " + yielded + "\n"
         "\n" + _DEF_BUILD),
    ]


_PICK_SENTINEL_LOOP = (
    "        found = self._built_candidates(endpoint, values, method, append_unknown)\n"
    "        first_match = None\n"
    "        for rv in iter(lambda: next(found, None), None):\n"
    "            if not self.map.host_matching or rv[0] == self.server_name:\n"
    "                return rv\n"
    "            if first_match is None:\n"
    "                first_match = rv\n"
    "        return first_match\n"
)
_PICK_LIST_OF_GENERATOR = (
    "        found = list(self._built_candidates(endpoint, values, method, append_unknown))\n"
    "        if self.map.host_matching:\n"
    "            found = [c for c in found if c[0] == self.server_name] + found\n"
    "        return found[0] if found else None\n"
)
_STATIC_PICK = (
    "    @staticmethod\n"
    "    def _pick(candidates, wanted):\n"
    "        first = None\n"
    "        for domain, path, ws in candidates:\n"
    "            if wanted is None or domain == wanted:\n"
    "                return %s\n"
    "            if first is None:\n"
    "                first = (domain, path, ws)\n"
    "        return first\n"
    "\n"
)
_PICK_BY_STATIC_HELPER = (
    "        wanted = self.server_name if self.map.host_matching else None\n"
    "        return self._pick(self._built_candidates(endpoint, values, method, append_unknown), wanted)\n"
)
_MODULE_CLEAN = (
    "def _clean_values(values):\n"
    "    if not values:\n"
    "        return {}\n"
    "    cleaned = {}\n"
    "    if isinstance(values, MultiDict):\n"
    "        for k, v in dict.items(values):\n"
    "            if len(v) != 0:\n"
    "                cleaned[k] = v[0] if len(v) == 1 else v\n"
    "    else:\n"
    "        cleaned.update((k, v) for k, v in values.items() if v is not None)\n"
    "    return cleaned\n"
    "\n\n"
)

MUTANTS = [
    # R12.1 ----------------------------------------------------------------
    {"name": "redirect-path-keeps-leading-slashes", "expect": "R12.1", "edits": [(M, _PATH_JOIN, '        path = "/".join((self.script_name.strip("/"), path_info))')]},
    {"name": "redirect-path-without-script-root", "expect": "R12.1", "edits": [(M, _PATH_JOIN, '        path = "/" + path_info.lstrip("/")')]},
    {"name": "slash-redirect-built-with-urljoin", "expect": "R12.1", "edits": [(M, _SLASH_SITE,
        "            raise RequestRedirect(\n                urljoin(f\"{self.url_scheme or 'http'}://{self.get_host(None)}{self.script_name}\", new_path)\n            ) from None")]},
    {"name": "slash-redirect-host-from-request-path", "expect": "R12.1", "edits": [(M, _SLASH_SITE,
        "            raise RequestRedirect(\n                self.make_redirect_url(new_path, query_args, domain_part=path_part.split(\"/\")[1])\n            ) from None")]},
    {"name": "external-url-drops-slash-and-lstrip", "expect": "R12.1", "edits": [(M, "        return f\"{scheme}//{host}{self.script_name[:-1]}/{path.lstrip('/')}\"", "        return f\"{scheme}//{host}{self.script_name[:-1]}{path}\"")]},
    {"name": "default-redirect-host-from-matched-values", "expect": "R12.1", "edits": [(M, "                return self.make_redirect_url(path, query_args, domain_part=domain_part)", "                return self.make_redirect_url(path, query_args, domain_part=values.get(\"subdomain\", domain_part))")]},
    {"name": "default-redirect-is-a-bare-path", "expect": "R12.1", "edits": [(M, "                return self.make_redirect_url(path, query_args, domain_part=domain_part)", "                return path")]},
    # R12.2 ----------------------------------------------------------------
    {"name": "matcher-path-not-stripped", "expect": "R12.2", "edits": [(M, "        path_part = f\"/{path_info.lstrip('/')}\" if path_info else \"\"", "        path_part = f\"/{path_info}\" if path_info else \"\"")]},
    {"name": "matcher-path-kept-when-it-starts-with-slash", "expect": "R12.2", "edits": [(M, "        path_part = f\"/{path_info.lstrip('/')}\" if path_info else \"\"", "        path_part = path_info if path_info.startswith(\"/\") else f\"/{path_info}\"")]},
    # R12.3 ----------------------------------------------------------------
    {"name": "slash-redirect-omits-query-args", "expect": "R12.3", "edits": [(M, _SLASH_SITE, "            raise RequestRedirect(self.make_redirect_url(new_path)) from None")]},
    {"name": "alias-redirect-drops-query", "expect": "R12.3", "edits": [(M, "        if query_args:\n            url += f\"?{self.encode_query_args(query_args)}\"\n        assert url != path", "        assert url != path")]},
    {"name": "default-redirect-uses-bound-query-only", "expect": "R12.3", "edits": [(M, "                redirect_url = self.get_default_redirect(rule, method, rv, query_args)", "                redirect_url = self.get_default_redirect(rule, method, rv, self.query_args or {})")]},
    {"name": "redirect-query-requoted-at-assembly", "expect": "R12.3", "edits": [(M, "            query_str = self.encode_query_args(query_args)\n        else:", "            query_str = quote(self.encode_query_args(query_args), safe=\"&=+\")\n        else:")]},
    # R12.4 ----------------------------------------------------------------
    {"name": "str-query-requoted", "expect": "R12.4", "edits": [(M, "            return _urlencode(query_args)\n        return query_args", "            return _urlencode(query_args)\n        return quote(query_args, safe=\"&=+\")")]},
    {"name": "str-query-branch-swapped", "expect": "R12.4", "edits": [(M, "        if not isinstance(query_args, str):\n            return _urlencode(query_args)\n        return query_args", "        if isinstance(query_args, str):\n            return _urlencode(query_args)\n        return query_args")]},
    # R12.5 ----------------------------------------------------------------
    {"name": "slash-proposal-before-method-test", "expect": "R12.5", "edits": [(T, _SLASH_LOOP,
        "                        if websocket == rule.websocket:\n"
        "                            if rule.strict_slashes:\n"
        "                                raise SlashRequired()\n"
        "                            elif rule.methods is None or method in rule.methods:\n"
        "                                return rule, values\n")]},
    {"name": "slash-proposal-ignores-websocket", "expect": "R12.5", "edits": [(T, "                        if websocket == rule.websocket and (\n                            rule.methods is None or method in rule.methods\n                        ):", "                        if rule.methods is None or method in rule.methods:")]},
    {"name": "slash-proposal-method-test-dropped", "expect": "R12.5", "edits": [(T, "                        if websocket == rule.websocket and (\n                            rule.methods is None or method in rule.methods\n                        ):", "                        if websocket == rule.websocket:")]},
    {"name": "merged-slash-redirect-without-a-match", "expect": "R12.5", "edits": [(T, "            if rv is None or rv[0].merge_slashes is False:", "            if rv is not None and rv[0].merge_slashes is False:")]},
    {"name": "slash-proposal-admission-flag-not-consulted", "expect": "R12.5", "edits": [(T, _SLASH_LOOP,
        "                        method_ok = rule.methods is None or method in rule.methods\n"
        "                        if websocket == rule.websocket:\n"
        "                            if rule.strict_slashes:\n"
        "                                raise SlashRequired()\n"
        "                            if method_ok:\n"
        "                                return rule, values\n")]},
    {"name": "slash-proposal-admission-flag-of-the-wrong-polarity", "expect": "R12.5", "edits": [(T, _SLASH_LOOP,
        "                        refused = rule.methods is not None and method not in rule.methods\n"
        "                        if websocket == rule.websocket and refused:\n"
        "                            if rule.strict_slashes:\n"
        "                                raise SlashRequired()\n"
        "                            return rule, values\n")]},
    # R12.6 ----------------------------------------------------------------
    {"name": "first-pass-slash-redirect-targets-the-merged-path", "expect": "R12.6", "edits": [(T, _FIRST_PASS,
        "        merged = re.sub(\"/{2,}?\", \"/\", path)\n"
        "        try:\n"
        "            rv = _match(self._root, [domain, *path.split(\"/\")], [])\n"
        "        except SlashRequired:\n"
        "            raise RequestPath(f\"{merged}/\") from None\n"
        "\n"
        "        if self.merge_slashes and rv is None:\n")]},
    {"name": "both-passes-in-one-try-redirect-to-the-merged-path", "expect": "R12.6", "edits": [
        (T, _FIRST_PASS,
        "        merged = re.sub(\"/{2,}?\", \"/\", path) if self.merge_slashes else path\n"
        "        try:\n"
        "            rv = _match(self._root, [domain, *path.split(\"/\")], [])\n"
        "            if rv is None and merged != path:\n"
        "                rv = _match(self._root, [domain, *merged.split(\"/\")], [])\n"
        "                if rv is None or rv[0].merge_slashes is False:\n"
        "                    raise NoMatch(have_match_for, websocket_mismatch)\n"
        "                raise RequestPath(merged)\n"
        "        except SlashRequired:\n"
        "            raise RequestPath(f\"{merged}/\") from None\n"
        "\n"
        "        if False:\n")]},
    {"name": "merged-pass-slash-redirect-targets-the-unmerged-path", "expect": "R12.6", "edits": [(T, _SECOND_PASS,
        "            unmerged = path\n"
        "            path = re.sub(\"/{2,}?\", \"/\", path)\n"
        "            try:\n"
        "                rv = _match(self._root, [domain, *path.split(\"/\")], [])\n"
        "            except SlashRequired:\n"
        "                raise RequestPath(f\"{unmerged}/\") from None\n")]},
    # R12.7 ----------------------------------------------------------------
    {"name": "alias-signal-raised-before-the-defaults-are-merged", "expect": "R12.7", "edits": [(T, _ALIAS_TAIL,
        "            if rule.alias and rule.map.redirect_defaults:\n"
        "                raise RequestAliasRedirect(result, rule.endpoint)\n"
        "\n"
        "            if rule.defaults:\n"
        "                result.update(rule.defaults)\n"
        "\n"
        "            return rule, result\n")]},
    {"name": "defaults-merged-only-for-rules-that-are-not-aliases", "expect": "R12.7", "edits": [(T, "            if rule.defaults:\n                result.update(rule.defaults)\n", "            if rule.defaults and not rule.alias:\n                result.update(rule.defaults)\n")]},
    {"name": "alias-signal-given-a-copy-taken-before-the-defaults", "expect": "R12.7", "edits": [(T, _ALIAS_TAIL,
        "            converted = dict(result)\n"
        "            if rule.defaults:\n"
        "                result.update(rule.defaults)\n"
        "\n"
        "            if rule.alias and rule.map.redirect_defaults:\n"
        "                raise RequestAliasRedirect(converted, rule.endpoint)\n"
        "\n"
        "            return rule, result\n")]},
    {"name": "alias-signal-built-from-the-url-values-alone", "expect": "R12.7", "edits": [(T, "                raise RequestAliasRedirect(result, rule.endpoint)\n", "                raise RequestAliasRedirect(dict(zip(rule._converters, values)), rule.endpoint)\n")]},
    {"name": "alias-check-in-a-helper-called-before-the-defaults", "expect": "R12.7", "edits": [(T, _ALIAS_TAIL,
        "            def _canonicalise(matched: dict[str, t.Any]) -> None:\n"
        "                if rule.alias and rule.map.redirect_defaults:\n"
        "                    raise RequestAliasRedirect(matched, rule.endpoint)\n"
        "\n"
        "            _canonicalise(result)\n"
        "            if rule.defaults:\n"
        "                result.update(rule.defaults)\n"
        "\n"
        "            return rule, result\n")]},
    # R12.8 ----------------------------------------------------------------
    {"name": "secure-flag-computed-before-the-bound-scheme-fallback", "expect": "R12.8", "edits": [(M, _FALLBACK, ""), (M, _SECURE, _SECURE + "\n" + _FALLBACK)]},
    {"name": "slash-redirect-scheme-hard-coded", "expect": "R12.8", "edits": [(M, _REDIRECT_SCHEME, "        scheme = \"http\"\n")]},
    {"name": "alias-redirect-built-with-an-explicit-http-scheme", "expect": "R12.8", "edits": [(M, _ALIAS_BUILD_ARGS, "            endpoint, values, method, append_unknown=False, force_external=True, url_scheme=\"http\"\n")]},
    {"name": "websocket-scheme-polarity-swapped", "expect": "R12.8", "edits": [(M, _WS_SCHEME, "            url_scheme = \"ws\" if secure else \"wss\"\n")]},
    {"name": "secure-flag-forgets-wss", "expect": "R12.8", "edits": [(M, _SECURE, "        secure = url_scheme == \"https\"\n")]},
    {"name": "bound-scheme-fallback-inverted", "expect": "R12.8", "edits": [(M, _FALLBACK, "        if url_scheme is not None:\n            url_scheme = self.url_scheme\n")]},
    {"name": "secure-flag-from-the-argument-in-a-conditional-expression", "expect": "R12.8", "edits": [(M, _FALLBACK, ""), (M, _SECURE,
        "        secure = url_scheme in {\"https\", \"wss\"}\n"
        "        url_scheme = self.url_scheme if url_scheme is None else url_scheme\n")]},
    # round 3 (R12.1 / R12.8 through generator helpers, next(), lists, keyed records, ** tables, static helpers) ----
    {"name": "candidate-list-host-from-the-matched-values", "expect": "R12.1", "edits": [(M, _RULE_LOOP, _candidate_list("(values.get(\"subdomain\") or build_rv[0], build_rv[1], rule.websocket)"))]},
    {"name": "generator-helper-yields-path-in-the-domain-position", "expect": "R12.1", "edits": _generator_helper("build_rv[1], build_rv[0], rule.websocket", _PICK_SENTINEL_LOOP)},
    {"name": "list-of-generator-host-from-the-built-path", "expect": "R12.1", "edits": _generator_helper("build_rv[1].partition(\"/\")[0] or build_rv[0], build_rv[1], rule.websocket", _PICK_LIST_OF_GENERATOR)},
    {"name": "static-pick-helper-returns-path-as-domain", "expect": "R12.1", "edits": _generator_helper("build_rv[0], build_rv[1], rule.websocket", _PICK_BY_STATIC_HELPER) + [(M, _DEF_BUILD, _STATIC_PICK % "(path, path, ws)" + _DEF_BUILD)]},
    {"name": "built-record-host-read-from-the-path-key", "expect": "R12.1", "edits": [(M, _UNPACK_RV,
        "        built = {\"domain\": rv[0], \"path\": rv[1], \"websocket\": rv[2]}\n        path, websocket = built[\"path\"], built[\"websocket\"]\n        host = self.get_host(built.get(\"path\"))\n")]},
    {"name": "alias-build-options-table-forces-http", "expect": "R12.8", "edits": [(M, _ALIAS_BUILD,
        "        options = {\"append_unknown\": False, \"force_external\": True, \"url_scheme\": \"http\"}\n        url = self.build(endpoint, values, method, **options)\n")]},
    {"name": "external-url-root-attribute-followed-by-the-unstripped-path", "expect": "R12.1", "edits": [(M, _EXTERNAL_URL, "        return f\"{scheme}//{host}{self.script_name}{path}\"")]},
    {"name": "external-url-rest-local-not-stripped", "expect": "R12.1", "edits": [(M, _EXTERNAL_URL, "        rest = path\n        root = self.script_name[:-1]\n        return f\"{scheme}//{host}{root}/{rest}\"")]},
    {"name": "redirect-url-helper-joins-the-request-path-with-urljoin", "expect": "R12.1", "edits": [(M, _PATH_JOIN + "\n        return urlunsplit((scheme, host, path, query_str, None))",
        "        root = urlunsplit((scheme, host, self.script_name, None, None))\n        url = urljoin(root, path_info.lstrip(\"/\"))\n        return f\"{url}?{query_str}\" if query_str else url")]},
    {"name": "module-level-raiser-given-the-bare-path", "expect": "R12.1", "edits": [(M, _SLASH_SITE, "            _redirect_to(new_path)"), (M, "class MapAdapter:\n", _MODULE_RAISER + "class MapAdapter:\n")]},
    {"name": "alias-build-arguments-table-puts-values-in-the-scheme", "expect": "R12.1", "edits": [(M, _ALIAS_BUILD,
        "        options = {\"append_unknown\": False, \"force_external\": True, \"url_scheme\": values.get(\"scheme\")}\n        url = self.build(endpoint, values, method, **options)\n")]},
    # R12.9 (host position of the redirect URLs) -----------------------------------------------
    {"name": "host-none-domain-returns-the-bare-server-name-first", "expect": "R12.9", "edits": [(M, _GET_HOST_BODY,
        "        if domain_part is None:\n            return self.server_name\n\n        if self.map.host_matching:\n            return domain_part\n\n"
        "        subdomain = domain_part\n\n        if subdomain:\n" + _SUB_HOST + "        else:\n            return self.server_name\n")]},
    {"name": "redirect-url-helper-short-cuts-the-host-for-no-domain-part", "expect": "R12.9", "edits": [(M, _REDIRECT_HOST,
        "        host = self.server_name if domain_part is None else self.get_host(domain_part)\n" + _PATH_JOIN)]},
    {"name": "host-matching-test-inverted", "expect": "R12.9", "edits": [(M, _HM_BRANCH, _HM_BRANCH.replace("if self.map.host_matching:", "if not self.map.host_matching:"))]},
    {"name": "subdomain-and-server-name-swapped", "expect": "R12.9", "edits": [(M, _SUB_HOST, "            return f\"{self.server_name}.{subdomain}\"\n")]},
    {"name": "explicit-domain-part-loses-the-subdomain-prefix", "expect": "R12.9", "edits": [(M, "        if subdomain:\n" + _SUB_HOST, "        if subdomain and domain_part is None:\n" + _SUB_HOST)]},
    {"name": "slash-redirect-passes-an-empty-domain-part", "expect": "R12.9", "edits": [(M, _SLASH_SITE,
        "            raise RequestRedirect(\n                self.make_redirect_url(new_path, query_args, domain_part=\"\")\n            ) from None")]},
    # R12.10 (defaults-provider predicate) -------------------------------------------------------
    {"name": "defaults-provider-arguments-superset-operator", "expect": "R12.10", "edits": [(R, _SAME_ARGS, "            and self.arguments >= rule.arguments\n")]},
    {"name": "defaults-provider-arguments-compared-by-size", "expect": "R12.10", "edits": [(R, _SAME_ARGS, "            and len(self.arguments) == len(rule.arguments)\n")]},
    {"name": "defaults-provider-arguments-conjunct-dropped", "expect": "R12.10", "edits": [(R, _SAME_ARGS, "")]},
    {"name": "defaults-provider-arguments-only-overlap", "expect": "R12.10", "edits": [(R, _SAME_ARGS, "            and not self.arguments.isdisjoint(rule.arguments)\n")]},
    {"name": "defaults-provider-build-only-conjunct-dropped", "expect": "R12.10", "edits": [(R, "            not self.build_only\n            and self.defaults\n", "            self.defaults\n")]},
    {"name": "defaults-provider-early-returns-and-subset-test", "expect": "R12.10", "edits": [(R, _PROVIDES,
        "        if self.build_only or not self.defaults:\n            return False\n        if self.endpoint != rule.endpoint or self == rule:\n            return False\n"
        "        return rule.arguments.issubset(self.arguments)\n")]},
    {"name": "defaults-provider-compares-the-defaulted-keys-only", "expect": "R12.10", "edits": [(R, _SAME_ARGS, "            and set(self.defaults) <= rule.arguments\n")]},
    # R12.11 (build order of the per-endpoint rule lists) -----------------------------------------
    {"name": "build-key-alias-flag-last", "expect": "R12.11", "edits": [(R, _BUILD_KEY, "        return (-len(self.arguments), -len(self.defaults or ()), 1 if self.alias else 0)\n")]},
    {"name": "build-key-alias-flag-polarity-inverted", "expect": "R12.11", "edits": [(R, _BUILD_KEY, "        return (0 if self.alias else 1, -len(self.arguments), -len(self.defaults or ()))\n")]},
    {"name": "build-key-without-the-alias-flag", "expect": "R12.11", "edits": [(R, _BUILD_KEY, "        return (-len(self.arguments), -len(self.defaults or ()))\n")]},
    {"name": "rule-lists-sorted-in-reverse", "expect": "R12.11", "edits": [(M, _SORT, "                rules.sort(key=lambda x: x.build_compare_key(), reverse=True)\n")]},
    {"name": "inline-sort-key-orders-by-defaults-before-the-alias-flag", "expect": "R12.11", "edits": [(M, _SORT, "                rules.sort(key=lambda r: (-len(r.defaults or ()), bool(r.alias), -len(r.arguments)))\n")]},
    {"name": "build-key-alias-flag-folded-into-the-defaults-count", "expect": "R12.11", "edits": [(R, _BUILD_KEY, "        return (-len(self.arguments), int(self.alias) - len(self.defaults or ()))\n")]},
]

TWINS = [
    {"name": "redirect-url-locals-renamed-tuple-via-local", "edits": [(M,
        "        scheme = self.url_scheme or \"http\"\n        host = self.get_host(domain_part)\n" + _PATH_JOIN + "\n        return urlunsplit((scheme, host, path, query_str, None))",
        "        netloc = self.get_host(domain_part)\n        root = self.script_name.strip(\"/\")\n        rest = path_info.lstrip(\"/\")\n        target = f\"{root}/{rest}\"\n        parts = (self.url_scheme or \"http\", netloc, target, query_str, None)\n        return urlunsplit(parts)")]},
    {"name": "encode-query-args-early-return-flipped", "edits": [(M, "        if not isinstance(query_args, str):\n            return _urlencode(query_args)\n        return query_args", "        if isinstance(query_args, str):\n            return query_args\n        return _urlencode(query_args)")]},
    {"name": "encode-query-args-conditional-expression", "edits": [(M, "        if not isinstance(query_args, str):\n            return _urlencode(query_args)\n        return query_args", "        return query_args if isinstance(query_args, str) else _urlencode(query_args)")]},
    {"name": "slash-loop-continue-style", "edits": [(T, _SLASH_LOOP,
        "                        if websocket != rule.websocket:\n"
        "                            continue\n"
        "                        if rule.methods is not None and method not in rule.methods:\n"
        "                            if not rule.strict_slashes:\n"
        "                                have_match_for.update(rule.methods)\n"
        "                            continue\n"
        "                        if not rule.strict_slashes:\n"
        "                            return rule, values\n"
        "                        raise SlashRequired()\n")]},
    {"name": "match-url-in-a-local-and-path-by-concatenation", "edits": [
        (M, _SLASH_SITE, "            target = self.make_redirect_url(new_path, query_args=query_args)\n            raise RequestRedirect(target) from None"),
        (M, "        path_part = f\"/{path_info.lstrip('/')}\" if path_info else \"\"", "        path_part = \"\"\n        if path_info:\n            path_part = \"/\" + path_info.lstrip(\"/\")"),
    ]},
    {"name": "alias-query-appended-by-concatenation", "edits": [(M, "            url += f\"?{self.encode_query_args(query_args)}\"", "            url = url + \"?\" + self.encode_query_args(query_args)")]},
    {"name": "default-redirect-indexes-the-built-pair", "edits": [(M,
        "                domain_part, path = r.build(values)  # type: ignore\n                return self.make_redirect_url(path, query_args, domain_part=domain_part)",
        "                built = r.build(values)  # type: ignore\n                return self.make_redirect_url(built[1], query_args, domain_part=built[0])")]},
    {"name": "merged-slash-early-raise-style", "edits": [(T,
        "            if rv is None or rv[0].merge_slashes is False:\n                raise NoMatch(have_match_for, websocket_mismatch)\n            else:\n                raise RequestPath(f\"{path}\")",
        "            if rv is not None and rv[0].merge_slashes is not False:\n                raise RequestPath(f\"{path}\")\n            raise NoMatch(have_match_for, websocket_mismatch)")]},
    {"name": "slash-loop-admission-in-a-flag-local", "edits": [(T, _SLASH_LOOP,
        "                        admits = websocket == rule.websocket and (\n"
        "                            rule.methods is None or method in rule.methods\n"
        "                        )\n"
        "                        if admits and rule.strict_slashes:\n"
        "                            raise SlashRequired()\n"
        "                        if admits:\n"
        "                            return rule, values\n"
        "                        if (\n"
        "                            not rule.strict_slashes\n"
        "                            and rule.methods is not None\n"
        "                            and method not in rule.methods\n"
        "                        ):\n"
        "                            have_match_for.update(rule.methods)\n")]},
    {"name": "slash-loop-methods-through-an-alias-and-de-morgan", "edits": [(T, _ADMIT_IF,
        "                        allowed = rule.methods\n"
        "                        if not (rule.websocket != websocket or (\n"
        "                            allowed is not None and method not in allowed\n"
        "                        )):\n")]},
    {"name": "slash-loop-admission-in-a-predicate-helper", "edits": [
        (T, _DEF_MATCH,
        "        def _admits(r: Rule) -> bool:\n"
        "            return websocket == r.websocket and (\n"
        "                r.methods is None or method in r.methods\n"
        "            )\n\n" + _DEF_MATCH),
        (T, _ADMIT_IF, "                        if _admits(rule):\n"),
    ]},
    {"name": "walk-wrapped-in-a-non-catching-helper-and-parts-in-a-local", "edits": [
        (T, _FIRST_PASS,
        "        def _walk(p: str) -> tuple[Rule, list[str]] | None:\n"
        "            parts = [domain, *p.split(\"/\")]\n"
        "            return _match(self._root, parts, [])\n"
        "\n"
        "        try:\n"
        "            rv = _walk(path)\n"
        "        except SlashRequired:\n"
        "            raise RequestPath(f\"{path}/\") from None\n"
        "\n"
        "        if self.merge_slashes and rv is None:\n"),
        (T, _SECOND_PASS,
        "            path = re.sub(\"/{2,}?\", \"/\", path)\n"
        "            try:\n"
        "                rv = _walk(path)\n"
        "            except SlashRequired:\n"
        "                target = path + \"/\"\n"
        "                raise RequestPath(target) from None\n"),
    ]},
    {"name": "both-passes-through-one-catching-helper-walrus-result", "edits": [
        (T, _FIRST_PASS,
        "        def _try_path(candidate: str) -> tuple[Rule, list[str]] | None:\n"
        "            try:\n"
        "                return _match(self._root, [domain, *candidate.split(\"/\")], [])\n"
        "            except SlashRequired:\n"
        "                raise RequestPath(f\"{candidate}/\") from None\n"
        "\n"
        "        rv = _try_path(path)\n"
        "\n"
        "        if self.merge_slashes and rv is None:\n"),
        (T, _SECOND_PASS + "            if rv is None or rv[0].merge_slashes is False:\n                raise NoMatch(have_match_for, websocket_mismatch)\n            else:\n                raise RequestPath(f\"{path}\")",
        "            path = re.sub(\"/{2,}?\", \"/\", path)\n"
        "            if (again := _try_path(path)) and again[0].merge_slashes is not False:\n"
        "                raise RequestPath(path)\n"
        "            raise NoMatch(have_match_for, websocket_mismatch)"),
    ]},
    # R12.7 ----------------------------------------------------------------
    {"name": "defaults-merged-by-rebuilding-the-dict", "edits": [(T, "            if rule.defaults:\n                result.update(rule.defaults)\n", "            if rule.defaults:\n                result = {**result, **rule.defaults}\n")]},
    {"name": "alias-signal-given-a-copy-of-the-complete-result-by-keyword", "edits": [(T, "                raise RequestAliasRedirect(result, rule.endpoint)\n", "                raise RequestAliasRedirect(endpoint=rule.endpoint, matched_values=dict(result))\n")]},
    {"name": "defaults-merged-separately-on-the-alias-and-the-result-path", "edits": [(T, _ALIAS_TAIL,
        "            if rule.alias and rule.map.redirect_defaults:\n"
        "                if rule.defaults:\n"
        "                    result.update(rule.defaults)\n"
        "                raise RequestAliasRedirect(result, rule.endpoint)\n"
        "\n"
        "            if rule.defaults:\n"
        "                result.update(rule.defaults)\n"
        "\n"
        "            return rule, result\n")]},
    {"name": "defaults-through-a-local-merged-unconditionally-pair-in-a-local", "edits": [(T, _ALIAS_TAIL,
        "            extra = rule.defaults or {}\n"
        "            result.update(extra)\n"
        "            found = (rule, result)\n"
        "\n"
        "            if rule.alias and rule.map.redirect_defaults:\n"
        "                raise RequestAliasRedirect(result, rule.endpoint)\n"
        "\n"
        "            return found\n")]},
    {"name": "alias-check-in-a-helper-called-after-the-defaults", "edits": [(T, _ALIAS_TAIL,
        "            def _canonicalise(matched: dict[str, t.Any]) -> None:\n"
        "                if rule.alias and rule.map.redirect_defaults:\n"
        "                    raise RequestAliasRedirect(matched, rule.endpoint)\n"
        "\n"
        "            if rule.defaults:\n"
        "                result.update(rule.defaults)\n"
        "\n"
        "            _canonicalise(result)\n"
        "            return rule, result\n")]},
    {"name": "defaults-merged-by-in-place-union-under-a-flipped-test", "edits": [(T, "            if rule.defaults:\n                result.update(rule.defaults)\n", "            if not rule.defaults:\n                pass\n            else:\n                result |= rule.defaults\n")]},
    # R12.8 ----------------------------------------------------------------
    {"name": "effective-scheme-in-a-local-by-conditional-expression", "edits": [
        (M, _FALLBACK, "        bound = self.url_scheme if url_scheme is None else url_scheme\n"),
        (M, _SECURE, "        secure = bound in (\"https\", \"wss\")\n"),
        (M, _HTTP_SCHEME, "        elif bound:\n            url_scheme = \"https\" if secure else \"http\"\n        else:\n            url_scheme = bound\n"),
    ]},
    {"name": "secure-flag-by-two-equality-tests", "edits": [(M, _SECURE, "        secure = url_scheme == \"https\" or url_scheme == \"wss\"\n")]},
    {"name": "scheme-fallback-in-a-helper-method", "edits": [
        (M, "    def _partial_build(\n", "    def _effective_scheme(self, url_scheme: str | None) -> str:\n        return self.url_scheme if url_scheme is None else url_scheme\n\n    def _partial_build(\n"),
        (M, _FALLBACK, "        url_scheme = self._effective_scheme(url_scheme)\n"),
    ]},
    {"name": "redirect-scheme-default-by-conditional-expression", "edits": [(M, _REDIRECT_SCHEME, "        scheme = self.url_scheme if self.url_scheme else \"http\"\n")]},
    {"name": "scheme-prefix-by-if-statement-and-concatenation", "edits": [(M, _PREFIX, "        scheme = \"\"\n        if url_scheme:\n            scheme = url_scheme + \":\"\n")]},
    {"name": "websocket-scheme-from-a-lookup-table-secure-set-as-module-constant", "edits": [
        (M, "class MapAdapter:\n", "_SECURE_SCHEMES = frozenset({\"https\", \"wss\"})\n\n\nclass MapAdapter:\n"),
        (M, _SECURE, "        secure = url_scheme in _SECURE_SCHEMES\n"),
        (M, _WS_SCHEME, "            url_scheme = {True: \"wss\", False: \"ws\"}[secure]\n"),
    ]},
    {"name": "secure-flag-computed-after-the-fallback-inside-both-branches", "edits": [
        (M, _SECURE, ""),
        (M, "        if websocket:\n            force_external = True\n" + _WS_SCHEME + _HTTP_SCHEME,
         "        if websocket:\n            force_external = True\n            url_scheme = \"wss\" if url_scheme in {\"https\", \"wss\"} else \"ws\"\n"
         "        elif url_scheme:\n            url_scheme = \"https\" if url_scheme in {\"https\", \"wss\"} else \"http\"\n"),
    ]},
    {"name": "alias-redirect-passes-the-bound-scheme-explicitly-through-a-local", "edits": [(M,
        "        url = self.build(\n" + _ALIAS_BUILD_ARGS + "        )\n",
        "        bound = self.url_scheme\n        url = self.build(\n            endpoint, values, method, append_unknown=False, force_external=True, url_scheme=bound\n        )\n")]},
    # round 3 ------------------------------------------------------------------
    {"name": "partial-build-candidates-collected-in-a-list", "edits": [(M, _RULE_LOOP, _candidate_list("(build_rv[0], build_rv[1], rule.websocket)"))]},
    {"name": "partial-build-generator-helper-drained-by-iter-sentinel", "edits": _generator_helper("build_rv[0], build_rv[1], rule.websocket", _PICK_SENTINEL_LOOP)},
    {"name": "partial-build-generator-helper-listed-and-filtered", "edits": _generator_helper("(build_rv[0], build_rv[1], rule.websocket)", _PICK_LIST_OF_GENERATOR)},
    {"name": "partial-build-choice-in-a-static-helper-fed-by-a-generator", "edits": _generator_helper("build_rv[0], build_rv[1], rule.websocket", _PICK_BY_STATIC_HELPER) + [(M, _DEF_BUILD, _STATIC_PICK % "(domain, path, ws)" + _DEF_BUILD)]},
    {"name": "partial-build-generator-expression-and-next", "edits": [(M, _RULE_LOOP,
        "        built = (\n"
        "            (r.build(values, append_unknown), r.websocket)\n"
        "            for r in self.map._rules_by_endpoint.get(endpoint, ())\n"
        "            if r.suitable_for(values, method)\n"
        "        )\n"
        "        found = ((b[0], b[1], ws) for b, ws in built if b is not None)\n"
        "        first_match = next(found, None)\n"
        "        if first_match is None or not self.map.host_matching:\n"
        "            return first_match\n"
        "        if first_match[0] == self.server_name:\n"
        "            return first_match\n"
        "        return next((rv for rv in found if rv[0] == self.server_name), first_match)\n")]},
    {"name": "build-result-kept-in-a-keyed-record", "edits": [(M, _UNPACK_RV,
        "        built = {\"domain\": rv[0], \"path\": rv[1], \"websocket\": rv[2]}\n        path, websocket = built[\"path\"], built[\"websocket\"]\n        host = self.get_host(built.get(\"domain\"))\n")]},
    {"name": "build-result-record-made-by-dict-keywords", "edits": [(M, _UNPACK_RV,
        "        built = dict(domain=rv[0], path=rv[1], websocket=rv[2])\n        path = built[\"path\"]\n        websocket = built[\"websocket\"]\n        host = self.get_host(built[\"domain\"])\n")]},
    {"name": "external-url-root-attribute-followed-directly-by-the-stripped-path", "edits": [(M, _EXTERNAL_URL, "        return f\"{scheme}//{host}{self.script_name}{path.lstrip('/')}\"")]},
    {"name": "external-url-root-and-rest-in-locals", "edits": [(M, _EXTERNAL_URL, "        rest = path.lstrip('/')\n        root = self.script_name[:-1]\n        return f\"{scheme}//{host}{root}/{rest}\"")]},
    {"name": "slash-redirect-raised-by-a-module-level-helper", "edits": [(M, _SLASH_SITE, "            _redirect_to(self.make_redirect_url(new_path, query_args))"), (M, "class MapAdapter:\n", _MODULE_RAISER + "class MapAdapter:\n")]},
    {"name": "alias-build-options-from-a-table", "edits": [(M, _ALIAS_BUILD,
        "        options = {\"append_unknown\": False, \"force_external\": True}\n        url = self.build(endpoint, values, method, **options)\n")]},
    {"name": "alias-build-positional-arguments-from-a-tuple", "edits": [(M, _ALIAS_BUILD,
        "        call_args = (endpoint, values, method)\n        url = self.build(*call_args, append_unknown=False, force_external=True)\n")]},
    {"name": "build-values-normalised-by-a-module-level-helper-filling-a-dict", "edits": [
        (M, _VALUES_NORM, "        values = _clean_values(values)\n"),
        (M, "class MapAdapter:\n", _MODULE_CLEAN + "class MapAdapter:\n"),
    ]},
    {"name": "build-values-normalised-by-a-static-helper-called-through-the-class", "edits": [
        (M, _VALUES_NORM, "        values = MapAdapter._clean_values(values)\n"),
        (M, _DEF_BUILD, "    @staticmethod\n" + "".join("    " + ln + "\n" for ln in _MODULE_CLEAN.rstrip("\n").split("\n")) + "\n" + _DEF_BUILD),
    ]},
    # R12.9 ------------------------------------------------------------------
    {"name": "host-subdomain-chosen-by-conditional-expression", "edits": [(M, _SUB_CHOICE, "        subdomain = self.subdomain if domain_part is None else domain_part\n")]},
    {"name": "host-matching-branch-as-one-conditional-return", "edits": [(M, _HM_BRANCH, "        if self.map.host_matching:\n            return self.server_name if domain_part is None else domain_part\n")]},
    {"name": "host-subdomain-mode-handled-first", "edits": [(M, _GET_HOST_BODY,
        "        if not self.map.host_matching:\n"
        "            subdomain = self.subdomain if domain_part is None else domain_part\n"
        "            return f\"{subdomain}.{self.server_name}\" if subdomain else self.server_name\n"
        "        if domain_part is None:\n"
        "            return self.server_name\n"
        "        return domain_part\n")]},
    {"name": "host-joined-with-str-join", "edits": [(M, _SUB_HOST, "            return \".\".join((subdomain, self.server_name))\n")]},
    {"name": "slash-redirect-passes-no-domain-part-explicitly-host-in-a-renamed-local", "edits": [
        (M, _SLASH_SITE, "            raise RequestRedirect(\n                self.make_redirect_url(new_path, query_args, domain_part=None)\n            ) from None"),
        (M, _REDIRECT_HOST + "\n        return urlunsplit((scheme, host, path, query_str, None))",
         "        netloc = self.get_host(domain_part)\n" + _PATH_JOIN + "\n        return urlunsplit((scheme, netloc, path, query_str, None))"),
    ]},
    {"name": "bound-host-in-a-helper-method-explicit-domain-handled-separately", "edits": [
        (M, _GET_HOST_BODY,
        "        if domain_part is None:\n"
        "            return self._bound_host()\n"
        "        if self.map.host_matching:\n"
        "            return domain_part\n"
        "        if not domain_part:\n"
        "            return self.server_name\n"
        "        return f\"{domain_part}.{self.server_name}\"\n"),
        (M, _DEF_GET_HOST,
        "    def _bound_host(self) -> str:\n"
        "        if self.map.host_matching or not self.subdomain:\n"
        "            return self.server_name\n"
        "        return f\"{self.subdomain}.{self.server_name}\"\n\n" + _DEF_GET_HOST),
    ]},
    # R12.10 -----------------------------------------------------------------
    {"name": "defaults-provider-early-return-style", "edits": [(R, _PROVIDES,
        "        if self.build_only or not self.defaults:\n            return False\n\n"
        "        return (\n            self.endpoint == rule.endpoint\n            and self != rule\n            and self.arguments == rule.arguments\n        )\n")]},
    {"name": "defaults-provider-empty-symmetric-difference", "edits": [(R, _SAME_ARGS, "            and not (self.arguments ^ rule.arguments)\n")]},
    {"name": "defaults-provider-mutual-subset", "edits": [(R, _SAME_ARGS, "            and self.arguments <= rule.arguments\n            and rule.arguments <= self.arguments\n")]},
    {"name": "defaults-provider-conjuncts-in-flag-locals", "edits": [(R, _PROVIDES,
        "        usable = not self.build_only and bool(self.defaults)\n"
        "        same_arguments = rule.arguments == self.arguments\n"
        "        return usable and same_arguments and self.endpoint == rule.endpoint and self != rule\n")]},
    {"name": "defaults-provider-as-one-conditional-expression", "edits": [(R, _PROVIDES,
        "        return False if self.build_only or not self.defaults else bool(\n"
        "            self.endpoint == rule.endpoint and not self == rule and self.arguments.issubset(rule.arguments) and self.arguments.issuperset(rule.arguments)\n"
        "        )\n")]},
    {"name": "defaults-provider-found-with-next-over-a-filtering-generator", "edits": [(M, _DEFAULTS_LOOP,
        "        candidates = self.map._rules_by_endpoint[rule.endpoint]\n"
        "        before = candidates[: next(i for i, r in enumerate(candidates) if r is rule)]\n"
        "        provider = next(\n"
        "            (r for r in before if r.provides_defaults_for(rule) and r.suitable_for(values, method)),\n"
        "            None,\n"
        "        )\n"
        "        if provider is None:\n"
        "            return None\n"
        "        values.update(provider.defaults)  # type: ignore\n"
        "        domain_part, path = provider.build(values)  # type: ignore\n"
        "        return self.make_redirect_url(path, query_args, domain_part=domain_part)\n")]},
    # R12.11 -----------------------------------------------------------------
    {"name": "build-key-parts-in-locals", "edits": [(R, _BUILD_KEY,
        "        alias_rank = int(bool(self.alias))\n        n_defaults = len(self.defaults) if self.defaults else 0\n        return (alias_rank, -len(self.arguments), -n_defaults)\n")]},
    {"name": "sort-key-inlined-as-a-lambda", "edits": [(M, _SORT, "                rules.sort(key=lambda r: (1 if r.alias else 0, -len(r.arguments), -len(r.defaults or ())))\n")]},
    {"name": "sort-key-as-the-unbound-method", "edits": [(M, _SORT, "                rules.sort(key=Rule.build_compare_key)\n")]},
    {"name": "rule-lists-replaced-by-sorted-copies", "edits": [(M, _SORT_LOOP,
        "            for endpoint, rules in self._rules_by_endpoint.items():\n                self._rules_by_endpoint[endpoint] = sorted(rules, key=lambda x: x.build_compare_key())\n")]},
    {"name": "negated-key-sorted-in-reverse", "edits": [
        (R, _BUILD_KEY, "        return (0 if self.alias else 1, len(self.arguments), len(self.defaults or ()))\n"),
        (M, _SORT, "                rules.sort(key=lambda x: x.build_compare_key(), reverse=True)\n"),
    ]},
    {"name": "sort-key-through-operator-methodcaller", "edits": [
        (M, "import typing as t\n", "import operator\nimport typing as t\n"),
        (M, _SORT, "                rules.sort(key=operator.methodcaller(\"build_compare_key\"))\n"),
    ]},
]


# ---- stress round (fresh ordinary-style refactorings, 2026-10-03): every shape that tripped a rule + regression anchors
_STRESS = {
    'alias-query-suffix-in-a-local-by-conditional-expression': [
        ('routing/map.py',
         '        url = self.build(\n            endpoint, values, method, append_unknown=False, force_external=True\n        )\n        if query_args:\n            url += f"?{self.encode_query_args(query_args)}"\n        assert url != path, "detected invalid alias setting. No canonical URL found"\n        return url\n',
         '        url = self.build(\n            endpoint, values, method, append_unknown=False, force_external=True\n        )\n        suffix = f"?{self.encode_query_args(query_args)}" if query_args else ""\n        url = url + suffix\n        assert url != path, "detected invalid alias setting. No canonical URL found"\n        return url\n'),
    ],
    'both-walks-in-one-try-handler-reads-the-current-path': [
        ('routing/matcher.py',
         '        try:\n            rv = _match(self._root, [domain, *path.split("/")], [])\n        except SlashRequired:\n            raise RequestPath(f"{path}/") from None\n\n        if self.merge_slashes and rv is None:\n            # Try to match again, but with slashes merged\n            path = re.sub("/{2,}?", "/", path)\n            try:\n                rv = _match(self._root, [domain, *path.split("/")], [])\n            except SlashRequired:\n                raise RequestPath(f"{path}/") from None\n            if rv is None or rv[0].merge_slashes is False:\n                raise NoMatch(have_match_for, websocket_mismatch)\n            else:\n                raise RequestPath(f"{path}")\n        elif rv is not None:\n',
         '        try:\n            rv = _match(self._root, [domain, *path.split("/")], [])\n\n            if self.merge_slashes and rv is None:\n                # Try to match again, but with slashes merged\n                path = re.sub("/{2,}?", "/", path)\n                rv = _match(self._root, [domain, *path.split("/")], [])\n                if rv is None or rv[0].merge_slashes is False:\n                    raise NoMatch(have_match_for, websocket_mismatch)\n                raise RequestPath(f"{path}")\n        except SlashRequired:\n            raise RequestPath(f"{path}/") from None\n\n        if rv is not None:\n'),
    ],
    'slash-target-by-str-format-parts-in-a-local': [
        ('routing/matcher.py',
         '        try:\n            rv = _match(self._root, [domain, *path.split("/")], [])\n        except SlashRequired:\n            raise RequestPath(f"{path}/") from None\n\n        if self.merge_slashes and rv is None:\n',
         '        parts = [domain] + path.split("/")\n        try:\n            rv = _match(self._root, parts, [])\n        except SlashRequired:\n            raise RequestPath("{}/".format(path)) from None\n\n        if self.merge_slashes and rv is None:\n'),
    ],
    'match-post-processing-in-a-nested-helper-returning-the-pair': [
        ('routing/matcher.py',
         '            rule, values = rv\n\n            result = {}\n            for name, value in zip(rule._converters.keys(), values):\n                try:\n                    value = rule._converters[name].to_python(value)\n                except ValidationError:\n                    raise NoMatch(have_match_for, websocket_mismatch) from None\n                result[str(name)] = value\n            if rule.defaults:\n                result.update(rule.defaults)\n\n            if rule.alias and rule.map.redirect_defaults:\n                raise RequestAliasRedirect(result, rule.endpoint)\n\n            return rule, result\n',
         '            return _finish(*rv)\n'),
        ('routing/matcher.py',
         '        try:\n            rv = _match(self._root, [domain, *path.split("/")], [])\n        except SlashRequired:\n            raise RequestPath(f"{path}/") from None\n\n        if self.merge_slashes and rv is None:\n',
         '        def _finish(\n            rule: Rule, values: list[str]\n        ) -> tuple[Rule, t.MutableMapping[str, t.Any]]:\n            result = {}\n            for name, value in zip(rule._converters.keys(), values):\n                try:\n                    value = rule._converters[name].to_python(value)\n                except ValidationError:\n                    raise NoMatch(have_match_for, websocket_mismatch) from None\n                result[str(name)] = value\n            if rule.defaults:\n                result.update(rule.defaults)\n\n            if rule.alias and rule.map.redirect_defaults:\n                raise RequestAliasRedirect(result, rule.endpoint)\n\n            return rule, result\n\n        try:\n            rv = _match(self._root, [domain, *path.split("/")], [])\n        except SlashRequired:\n            raise RequestPath(f"{path}/") from None\n\n        if self.merge_slashes and rv is None:\n'),
    ],
    'alias-query-appended-with-str-join': [
        ('routing/map.py',
         '        url = self.build(\n            endpoint, values, method, append_unknown=False, force_external=True\n        )\n        if query_args:\n            url += f"?{self.encode_query_args(query_args)}"\n        assert url != path, "detected invalid alias setting. No canonical URL found"\n        return url\n',
         '        url = self.build(\n            endpoint, values, method, append_unknown=False, force_external=True\n        )\n        if query_args:\n            query_string = self.encode_query_args(query_args)\n            url = "?".join((url, query_string))\n        assert url != path, "detected invalid alias setting. No canonical URL found"\n        return url\n'),
    ],
    'scheme-pair-chosen-by-websocket-force-external-by-or': [
        ('routing/map.py',
         '        if url_scheme is None:\n            url_scheme = self.url_scheme\n\n        # Always build WebSocket routes with the scheme (browsers\n        # require full URLs). If bound to a WebSocket, ensure that HTTP\n        # routes are built with an HTTP scheme.\n        secure = url_scheme in {"https", "wss"}\n\n        if websocket:\n            force_external = True\n            url_scheme = "wss" if secure else "ws"\n        elif url_scheme:\n            url_scheme = "https" if secure else "http"\n',
         '        if url_scheme is None:\n            url_scheme = self.url_scheme\n\n        # Always build WebSocket routes with the scheme (browsers\n        # require full URLs). If bound to a WebSocket, ensure that HTTP\n        # routes are built with an HTTP scheme.\n        secure = url_scheme in {"https", "wss"}\n        force_external = force_external or websocket\n\n        if websocket or url_scheme:\n            plain, encrypted = ("ws", "wss") if websocket else ("http", "https")\n            url_scheme = encrypted if secure else plain\n'),
    ],
    'scheme-prefix-by-str-format': [
        ('routing/map.py',
         '        scheme = f"{url_scheme}:" if url_scheme else ""\n        return f"{scheme}//{host}{self.script_name[:-1]}/{path.lstrip(\'/\')}"\n',
         '        scheme = "{}:".format(url_scheme) if url_scheme else ""\n        return f"{scheme}//{host}{self.script_name[:-1]}/{path.lstrip(\'/\')}"\n'),
    ],
    'rule-list-sorted-by-a-module-level-helper': [
        ('routing/map.py',
         'class Map:\n',
         'def _sort_for_building(rules: list[Rule]) -> None:\n    rules.sort(key=lambda rule: rule.build_compare_key())\n\n\nclass Map:\n'),
        ('routing/map.py',
         '            for rules in self._rules_by_endpoint.values():\n                rules.sort(key=lambda x: x.build_compare_key())\n',
         '            for rules in self._rules_by_endpoint.values():\n                _sort_for_building(rules)\n'),
    ],
    'defaults-provider-all-over-a-list': [
        ('routing/rules.py',
         '        return bool(\n            not self.build_only\n            and self.defaults\n            and self.endpoint == rule.endpoint\n            and self != rule\n            and self.arguments == rule.arguments\n        )\n',
         '        return all(\n            [\n                not self.build_only,\n                self.defaults,\n                self.endpoint == rule.endpoint,\n                self != rule,\n                self.arguments == rule.arguments,\n            ]\n        )\n'),
    ],
    'defaults-provider-signature-test-in-a-module-level-helper': [
        ('routing/rules.py',
         '        return bool(\n            not self.build_only\n            and self.defaults\n            and self.endpoint == rule.endpoint\n            and self != rule\n            and self.arguments == rule.arguments\n        )\n',
         '        if self.build_only or not self.defaults:\n            return False\n\n        return self != rule and _same_signature(self, rule)\n'),
        ('routing/rules.py',
         'class Rule(RuleFactory):\n',
         'def _same_signature(first: Rule, second: Rule) -> bool:\n    """Both rules lead to the same endpoint with the same argument names."""\n    return first.endpoint == second.endpoint and first.arguments == second.arguments\n\n\nclass Rule(RuleFactory):\n'),
    ],
    'build-key-alias-rank-by-tuple-index': [
        ('routing/rules.py',
         '        return (1 if self.alias else 0, -len(self.arguments), -len(self.defaults or ()))\n',
         '        defaults = self.defaults if self.defaults is not None else {}\n        return ((0, 1)[bool(self.alias)], -len(self.arguments), -len(defaults))\n'),
    ],
    'build-key-sizes-negated-by-a-starred-generator': [
        ('routing/rules.py',
         '        return (1 if self.alias else 0, -len(self.arguments), -len(self.defaults or ()))\n',
         '        sizes = (len(self.arguments), len(self.defaults or ()))\n        return (1 if self.alias else 0, *(-size for size in sizes))\n'),
    ],
    'both-walks-through-a-catching-nested-helper-segments-in-a-local': [
        ('routing/matcher.py',
         '        try:\n            rv = _match(self._root, [domain, *path.split("/")], [])\n        except SlashRequired:\n            raise RequestPath(f"{path}/") from None\n\n        if self.merge_slashes and rv is None:\n            # Try to match again, but with slashes merged\n            path = re.sub("/{2,}?", "/", path)\n            try:\n                rv = _match(self._root, [domain, *path.split("/")], [])\n            except SlashRequired:\n                raise RequestPath(f"{path}/") from None\n            if rv is None or rv[0].merge_slashes is False:\n                raise NoMatch(have_match_for, websocket_mismatch)\n            else:\n                raise RequestPath(f"{path}")\n        elif rv is not None:\n            rule, values = rv\n\n            result = {}\n            for name, value in zip(rule._converters.keys(), values):\n                try:\n                    value = rule._converters[name].to_python(value)\n                except ValidationError:\n                    raise NoMatch(have_match_for, websocket_mismatch) from None\n                result[str(name)] = value\n            if rule.defaults:\n                result.update(rule.defaults)\n\n            if rule.alias and rule.map.redirect_defaults:\n                raise RequestAliasRedirect(result, rule.endpoint)\n\n            return rule, result\n\n        raise NoMatch(have_match_for, websocket_mismatch)\n',
         '        def _walk(request_path: str) -> tuple[Rule, list[str]] | None:\n            segments = [domain, *request_path.split("/")]\n            try:\n                return _match(self._root, segments, [])\n            except SlashRequired:\n                raise RequestPath(f"{request_path}/") from None\n\n        rv = _walk(path)\n\n        if self.merge_slashes and rv is None:\n            # Try to match again, but with slashes merged\n            path = re.sub("/{2,}?", "/", path)\n            rv = _walk(path)\n            if rv is None or rv[0].merge_slashes is False:\n                raise NoMatch(have_match_for, websocket_mismatch)\n            else:\n                raise RequestPath(f"{path}")\n        elif rv is not None:\n            rule, values = rv\n\n            result = {}\n            for name, value in zip(rule._converters.keys(), values):\n                try:\n                    value = rule._converters[name].to_python(value)\n                except ValidationError:\n                    raise NoMatch(have_match_for, websocket_mismatch) from None\n                result[str(name)] = value\n            if rule.defaults:\n                result.update(rule.defaults)\n\n            if rule.alias and rule.map.redirect_defaults:\n                raise RequestAliasRedirect(result, rule.endpoint)\n\n            return rule, result\n\n        raise NoMatch(have_match_for, websocket_mismatch)\n'),
    ],
    'matcher-tail-guard-clauses': [
        ('routing/matcher.py',
         '        if self.merge_slashes and rv is None:\n            # Try to match again, but with slashes merged\n            path = re.sub("/{2,}?", "/", path)\n            try:\n                rv = _match(self._root, [domain, *path.split("/")], [])\n            except SlashRequired:\n                raise RequestPath(f"{path}/") from None\n            if rv is None or rv[0].merge_slashes is False:\n                raise NoMatch(have_match_for, websocket_mismatch)\n            else:\n                raise RequestPath(f"{path}")\n        elif rv is not None:\n            rule, values = rv\n\n            result = {}\n            for name, value in zip(rule._converters.keys(), values):\n                try:\n                    value = rule._converters[name].to_python(value)\n                except ValidationError:\n                    raise NoMatch(have_match_for, websocket_mismatch) from None\n                result[str(name)] = value\n            if rule.defaults:\n                result.update(rule.defaults)\n\n            if rule.alias and rule.map.redirect_defaults:\n                raise RequestAliasRedirect(result, rule.endpoint)\n\n            return rule, result\n\n        raise NoMatch(have_match_for, websocket_mismatch)\n',
         '        if rv is None:\n            if not self.merge_slashes:\n                raise NoMatch(have_match_for, websocket_mismatch)\n\n            # Try to match again, but with slashes merged\n            path = re.sub("/{2,}?", "/", path)\n            try:\n                rv = _match(self._root, [domain, *path.split("/")], [])\n            except SlashRequired:\n                raise RequestPath(f"{path}/") from None\n            if rv is None or rv[0].merge_slashes is False:\n                raise NoMatch(have_match_for, websocket_mismatch)\n            raise RequestPath(f"{path}")\n\n        rule, values = rv\n\n        result = {}\n        for name, value in zip(rule._converters.keys(), values):\n            try:\n                value = rule._converters[name].to_python(value)\n            except ValidationError:\n                raise NoMatch(have_match_for, websocket_mismatch) from None\n            result[str(name)] = value\n        if rule.defaults:\n            result.update(rule.defaults)\n\n        if rule.alias and rule.map.redirect_defaults:\n            raise RequestAliasRedirect(result, rule.endpoint)\n\n        return rule, result\n'),
    ],
    'converted-values-from-a-static-helper-of-the-matcher': [
        ('routing/matcher.py',
         '            result = {}\n            for name, value in zip(rule._converters.keys(), values):\n                try:\n                    value = rule._converters[name].to_python(value)\n                except ValidationError:\n                    raise NoMatch(have_match_for, websocket_mismatch) from None\n                result[str(name)] = value\n            if rule.defaults:\n                result.update(rule.defaults)\n\n            if rule.alias and rule.map.redirect_defaults:\n                raise RequestAliasRedirect(result, rule.endpoint)\n\n            return rule, result\n',
         '            result = self._convert_values(rule, values)\n            if result is None:\n                raise NoMatch(have_match_for, websocket_mismatch) from None\n\n            if rule.alias and rule.map.redirect_defaults:\n                raise RequestAliasRedirect(result, rule.endpoint)\n\n            return rule, result\n'),
        ('routing/matcher.py',
         '    def match(\n        self, domain: str, path: str, method: str, websocket: bool\n    ) -> tuple[Rule, t.MutableMapping[str, t.Any]]:\n',
         '    @staticmethod\n    def _convert_values(\n        rule: Rule, values: list[str]\n    ) -> t.MutableMapping[str, t.Any] | None:\n        converted: dict[str, t.Any] = {}\n        for name, value in zip(rule._converters.keys(), values):\n            try:\n                converted[str(name)] = rule._converters[name].to_python(value)\n            except ValidationError:\n                return None\n        if rule.defaults:\n            converted.update(rule.defaults)\n        return converted\n\n    def match(\n        self, domain: str, path: str, method: str, websocket: bool\n    ) -> tuple[Rule, t.MutableMapping[str, t.Any]]:\n'),
    ],
    'host-guard-clauses-host-matching-flag-in-a-local': [
        ('routing/map.py',
         '        if self.map.host_matching:\n            if domain_part is None:\n                return self.server_name\n\n            return domain_part\n\n        if domain_part is None:\n            subdomain = self.subdomain\n        else:\n            subdomain = domain_part\n\n        if subdomain:\n            return f"{subdomain}.{self.server_name}"\n        else:\n            return self.server_name\n',
         '        host_matching = self.map.host_matching\n\n        if host_matching and domain_part is not None:\n            return domain_part\n\n        if host_matching:\n            return self.server_name\n\n        subdomain = domain_part if domain_part is not None else self.subdomain\n\n        if not subdomain:\n            return self.server_name\n\n        return f"{subdomain}.{self.server_name}"\n'),
    ],
    'effective-scheme-in-a-private-method': [
        ('routing/map.py',
         '        domain_part, path, websocket = rv\n        host = self.get_host(domain_part)\n\n        if url_scheme is None:\n            url_scheme = self.url_scheme\n\n        # Always build WebSocket routes with the scheme (browsers\n        # require full URLs). If bound to a WebSocket, ensure that HTTP\n        # routes are built with an HTTP scheme.\n        secure = url_scheme in {"https", "wss"}\n\n        if websocket:\n            force_external = True\n            url_scheme = "wss" if secure else "ws"\n        elif url_scheme:\n            url_scheme = "https" if secure else "http"\n\n        # shortcut this.\n        if not force_external and (\n            (self.map.host_matching and host == self.server_name)\n            or (not self.map.host_matching and domain_part == self.subdomain)\n        ):\n            return f"{self.script_name.rstrip(\'/\')}/{path.lstrip(\'/\')}"\n\n        scheme = f"{url_scheme}:" if url_scheme else ""\n        return f"{scheme}//{host}{self.script_name[:-1]}/{path.lstrip(\'/\')}"\n',
         '        domain_part, path, websocket = rv\n        host = self.get_host(domain_part)\n\n        url_scheme = self._effective_scheme(url_scheme, websocket)\n        if websocket:\n            force_external = True\n\n        # shortcut this.\n        if not force_external and (\n            (self.map.host_matching and host == self.server_name)\n            or (not self.map.host_matching and domain_part == self.subdomain)\n        ):\n            return f"{self.script_name.rstrip(\'/\')}/{path.lstrip(\'/\')}"\n\n        scheme = f"{url_scheme}:" if url_scheme else ""\n        return f"{scheme}//{host}{self.script_name[:-1]}/{path.lstrip(\'/\')}"\n\n    def _effective_scheme(self, url_scheme: str | None, websocket: bool) -> str | None:\n        if url_scheme is None:\n            url_scheme = self.url_scheme\n\n        # Always build WebSocket routes with the scheme (browsers\n        # require full URLs). If bound to a WebSocket, ensure that HTTP\n        # routes are built with an HTTP scheme.\n        secure = url_scheme in {"https", "wss"}\n\n        if websocket:\n            return "wss" if secure else "ws"\n\n        if url_scheme:\n            return "https" if secure else "http"\n\n        return url_scheme\n'),
    ],
    'defaults-provider-found-with-takewhile-and-next': [
        ('routing/map.py',
         'from threading import Lock\n',
         'from itertools import takewhile\nfrom threading import Lock\n'),
        ('routing/map.py',
         '        for r in self.map._rules_by_endpoint[rule.endpoint]:\n            # every rule that comes after this one, including ourself\n            # has a lower priority for the defaults.  We order the ones\n            # with the highest priority up for building.\n            if r is rule:\n                break\n            if r.provides_defaults_for(rule) and r.suitable_for(values, method):\n                values.update(r.defaults)  # type: ignore\n                domain_part, path = r.build(values)  # type: ignore\n                return self.make_redirect_url(path, query_args, domain_part=domain_part)\n        return None\n',
         '        # every rule that comes after this one, including ourself\n        # has a lower priority for the defaults.  We order the ones\n        # with the highest priority up for building.\n        higher = takewhile(\n            lambda r: r is not rule, self.map._rules_by_endpoint[rule.endpoint]\n        )\n        provider = next(\n            (\n                r\n                for r in higher\n                if r.provides_defaults_for(rule) and r.suitable_for(values, method)\n            ),\n            None,\n        )\n        if provider is None:\n            return None\n\n        values.update(provider.defaults)  # type: ignore\n        domain_part, path = provider.build(values)  # type: ignore\n        return self.make_redirect_url(path, query_args, domain_part=domain_part)\n'),
    ],
    'defaults-provider-loop-for-else-redirect-built-after-the-loop': [
        ('routing/map.py',
         '            if r is rule:\n                break\n            if r.provides_defaults_for(rule) and r.suitable_for(values, method):\n                values.update(r.defaults)  # type: ignore\n                domain_part, path = r.build(values)  # type: ignore\n                return self.make_redirect_url(path, query_args, domain_part=domain_part)\n        return None\n',
         '            if r is rule:\n                return None\n            if r.provides_defaults_for(rule) and r.suitable_for(values, method):\n                break\n        else:\n            return None\n\n        values.update(r.defaults)  # type: ignore\n        domain_part, path = r.build(values)  # type: ignore\n        return self.make_redirect_url(path, query_args, domain_part=domain_part)\n'),
    ],
    'defaults-provider-property-and-method-helper': [
        ('routing/rules.py',
         '        return bool(\n            not self.build_only\n            and self.defaults\n            and self.endpoint == rule.endpoint\n            and self != rule\n            and self.arguments == rule.arguments\n        )\n',
         '        return self._can_provide_defaults and self._is_variant_of(rule)\n\n    @property\n    def _can_provide_defaults(self) -> bool:\n        return not self.build_only and bool(self.defaults)\n\n    def _is_variant_of(self, other: Rule) -> bool:\n        if self == other:\n            return False\n\n        return self.endpoint == other.endpoint and self.arguments == other.arguments\n'),
    ],
}
TWINS += [{"name": k, "edits": v} for k, v in _STRESS.items()]


def _stress_mutant(twin: str, old: str, new: str) -> list:
    """the refactored shape `twin` with one fragment of its new text replaced (the defect in that shape)."""
    hits = sum(e[2].count(old) for e in _STRESS[twin])
    assert hits == 1, (twin, old, hits)
    return [(rel, o, n.replace(old, new)) for rel, o, n in _STRESS[twin]]


MUTANTS += [
    {"name": "stress-alias-query-suffix-local-encodes-the-bound-query", "expect": "R12.3", "edits": _stress_mutant(
        "alias-query-suffix-in-a-local-by-conditional-expression", "self.encode_query_args(query_args)}\" if query_args", "self.encode_query_args(self.query_args or {})}\" if query_args")},
    {"name": "stress-one-try-handler-redirects-to-the-path-saved-before-merging", "expect": "R12.6", "edits": _stress_mutant(
        "both-walks-in-one-try-handler-reads-the-current-path", "            raise RequestPath(f\"{path}/\") from None\n\n        if rv is not None:", "            raise RequestPath(f\"{requested}/\") from None\n\n        if rv is not None:")
        + [(T, "        have_match_for = set()\n", "        have_match_for = set()\n        requested = path\n")]},
    {"name": "stress-format-target-names-the-merged-path", "expect": "R12.6", "edits": _stress_mutant(
        "slash-target-by-str-format-parts-in-a-local", "        parts = [domain] + path.split(\"/\")\n", "        parts = [domain] + path.split(\"/\")\n        path = re.sub(\"/{2,}?\", \"/\", path)\n")},
    {"name": "stress-finish-helper-raises-the-alias-signal-before-the-defaults", "expect": "R12.7", "edits": _stress_mutant(
        "match-post-processing-in-a-nested-helper-returning-the-pair",
        "            if rule.defaults:\n                result.update(rule.defaults)\n\n            if rule.alias and rule.map.redirect_defaults:\n                raise RequestAliasRedirect(result, rule.endpoint)\n",
        "            if rule.alias and rule.map.redirect_defaults:\n                raise RequestAliasRedirect(result, rule.endpoint)\n\n            if rule.defaults:\n                result.update(rule.defaults)\n")},
    {"name": "stress-join-appends-the-bound-query", "expect": "R12.3", "edits": _stress_mutant(
        "alias-query-appended-with-str-join", "query_string = self.encode_query_args(query_args)", "query_string = self.encode_query_args(self.query_args or {})")},
    {"name": "stress-websocket-scheme-pair-swapped", "expect": "R12.8", "edits": _stress_mutant(
        "scheme-pair-chosen-by-websocket-force-external-by-or", "(\"ws\", \"wss\") if websocket", "(\"wss\", \"ws\") if websocket")},
    {"name": "stress-format-prefix-appends-an-s", "expect": "R12.8", "edits": _stress_mutant(
        "scheme-prefix-by-str-format", "\"{}:\".format(url_scheme)", "\"{}s:\".format(url_scheme)")},
    {"name": "stress-module-level-sort-helper-sorts-in-reverse", "expect": "R12.11", "edits": _stress_mutant(
        "rule-list-sorted-by-a-module-level-helper", "rules.sort(key=lambda rule: rule.build_compare_key())", "rules.sort(key=lambda rule: rule.build_compare_key(), reverse=True)")},
    {"name": "stress-all-list-with-a-superset-test", "expect": "R12.10", "edits": _stress_mutant(
        "defaults-provider-all-over-a-list", "self.arguments == rule.arguments,", "self.arguments >= rule.arguments,")},
    {"name": "stress-module-level-signature-helper-compares-sizes", "expect": "R12.10", "edits": _stress_mutant(
        "defaults-provider-signature-test-in-a-module-level-helper", "first.arguments == second.arguments", "len(first.arguments) == len(second.arguments)")},
    {"name": "stress-alias-rank-tuple-inverted", "expect": "R12.11", "edits": _stress_mutant(
        "build-key-alias-rank-by-tuple-index", "(0, 1)[bool(self.alias)]", "(1, 0)[bool(self.alias)]")},
    {"name": "stress-starred-sizes-before-the-alias-flag", "expect": "R12.11", "edits": _stress_mutant(
        "build-key-sizes-negated-by-a-starred-generator", "(1 if self.alias else 0, *(-size for size in sizes))", "(*(-size for size in sizes), 1 if self.alias else 0)")},
    {"name": "stress-property-helper-forgets-build-only", "expect": "R12.10", "edits": _stress_mutant(
        "defaults-provider-property-and-method-helper", "return not self.build_only and bool(self.defaults)", "return bool(self.defaults)")},
    {"name": "stress-effective-scheme-helper-ignores-the-secure-flag-for-websockets", "expect": "R12.8", "edits": _stress_mutant(
        "effective-scheme-in-a-private-method", "return \"wss\" if secure else \"ws\"", "return \"ws\"")},
    {"name": "stress-guard-clause-host-drops-the-subdomain", "expect": "R12.9", "edits": _stress_mutant(
        "host-guard-clauses-host-matching-flag-in-a-local", "        if not subdomain:\n            return self.server_name\n", "        if subdomain:\n            return self.server_name\n")},
]


# ---- stress round, batch 3 (logic moved between caller and callee)
_STRESS3 = {
    'external-url-assembled-by-a-helper-given-the-normalised-scheme': [
        ('routing/map.py',
         '        scheme = f"{url_scheme}:" if url_scheme else ""\n        return f"{scheme}//{host}{self.script_name[:-1]}/{path.lstrip(\'/\')}"\n',
         '        return self._external_url(url_scheme, host, path)\n\n    def _external_url(self, url_scheme: str | None, host: str, path: str) -> str:\n        scheme = f"{url_scheme}:" if url_scheme else ""\n        return f"{scheme}//{host}{self.script_name[:-1]}/{path.lstrip(\'/\')}"\n'),
    ],
    'alias-decision-in-a-static-method-given-rule-and-values': [
        ('routing/matcher.py',
         '            if rule.alias and rule.map.redirect_defaults:\n                raise RequestAliasRedirect(result, rule.endpoint)\n\n            return rule, result\n',
         '            self._check_alias(rule, result)\n            return rule, result\n'),
        ('routing/matcher.py',
         '    def match(\n        self, domain: str, path: str, method: str, websocket: bool\n    ) -> tuple[Rule, t.MutableMapping[str, t.Any]]:\n',
         '    @staticmethod\n    def _check_alias(rule: Rule, matched: t.MutableMapping[str, t.Any]) -> None:\n        if not rule.alias:\n            return\n\n        if rule.map.redirect_defaults:\n            raise RequestAliasRedirect(matched, rule.endpoint)\n\n    def match(\n        self, domain: str, path: str, method: str, websocket: bool\n    ) -> tuple[Rule, t.MutableMapping[str, t.Any]]:\n'),
    ],
    'merged-pass-target-chosen-in-a-local-raised-once': [
        ('routing/matcher.py',
         '            path = re.sub("/{2,}?", "/", path)\n            try:\n                rv = _match(self._root, [domain, *path.split("/")], [])\n            except SlashRequired:\n                raise RequestPath(f"{path}/") from None\n            if rv is None or rv[0].merge_slashes is False:\n                raise NoMatch(have_match_for, websocket_mismatch)\n            else:\n                raise RequestPath(f"{path}")\n',
         '            path = _merge_slashes(path)\n            try:\n                rv = _match(self._root, [domain, *path.split("/")], [])\n            except SlashRequired:\n                redirect_path = f"{path}/"\n            else:\n                if rv is None or rv[0].merge_slashes is False:\n                    raise NoMatch(have_match_for, websocket_mismatch)\n                redirect_path = path\n            raise RequestPath(redirect_path)\n'),
        ('routing/matcher.py',
         'class SlashRequired(Exception):\n',
         'def _merge_slashes(path: str) -> str:\n    return re.sub("/{2,}?", "/", path)\n\n\nclass SlashRequired(Exception):\n'),
    ],
    'sort-key-function-defined-inside-update': [
        ('routing/map.py',
         '            for rules in self._rules_by_endpoint.values():\n                rules.sort(key=lambda x: x.build_compare_key())\n',
         '            def build_order(rule: Rule) -> tuple[int, int, int]:\n                return rule.build_compare_key()\n\n            for rules in self._rules_by_endpoint.values():\n                rules.sort(key=build_order)\n'),
    ],
    'redirect-scheme-through-a-property': [
        ('routing/map.py',
         '        scheme = self.url_scheme or "http"\n        host = self.get_host(domain_part)\n',
         '        scheme = self._redirect_scheme\n        host = self.get_host(domain_part)\n'),
        ('routing/map.py',
         '    def get_host(self, domain_part: str | None) -> str:\n',
         '    @property\n    def _redirect_scheme(self) -> str:\n        if self.url_scheme:\n            return self.url_scheme\n\n        return "http"\n\n    def get_host(self, domain_part: str | None) -> str:\n'),
    ],
    'defaults-redirect-built-by-a-helper-given-the-provider-rule': [
        ('routing/map.py',
         '            if r.provides_defaults_for(rule) and r.suitable_for(values, method):\n                values.update(r.defaults)  # type: ignore\n                domain_part, path = r.build(values)  # type: ignore\n                return self.make_redirect_url(path, query_args, domain_part=domain_part)\n        return None\n',
         '            if r.provides_defaults_for(rule) and r.suitable_for(values, method):\n                return self._redirect_to_rule(r, values, query_args)\n        return None\n\n    def _redirect_to_rule(\n        self,\n        rule: Rule,\n        values: t.MutableMapping[str, t.Any],\n        query_args: t.Mapping[str, t.Any] | str,\n    ) -> str:\n        values.update(rule.defaults)  # type: ignore\n        domain_part, path = rule.build(values)  # type: ignore\n        return self.make_redirect_url(path, query_args, domain_part=domain_part)\n'),
    ],
    'alias-query-appended-by-a-helper-method': [
        ('routing/map.py',
         '        if query_args:\n            url += f"?{self.encode_query_args(query_args)}"\n        assert url != path, "detected invalid alias setting. No canonical URL found"\n        return url\n',
         '        url = self._with_query(url, query_args)\n        assert url != path, "detected invalid alias setting. No canonical URL found"\n        return url\n\n    def _with_query(self, url: str, query_args: t.Mapping[str, t.Any] | str) -> str:\n        if not query_args:\n            return url\n\n        return f"{url}?{self.encode_query_args(query_args)}"\n'),
    ],
    'sort-key-in-a-module-level-methodcaller-constant': [
        ('routing/map.py', "from pprint import pformat\n", "from operator import methodcaller\nfrom pprint import pformat\n"),
        ('routing/map.py', "class Map:\n", "_build_order = methodcaller(\"build_compare_key\")\n\n\nclass Map:\n"),
        ('routing/map.py', _SORT, "                rules.sort(key=_build_order)\n"),
    ],
    'scheme-normalisation-in-a-module-level-function': [
        ('routing/map.py', "class MapAdapter:\n", "def _normalise_scheme(url_scheme, websocket):\n    secure = url_scheme in {\"https\", \"wss\"}\n    if websocket:\n        return \"wss\" if secure else \"ws\"\n    if url_scheme:\n        return \"https\" if secure else \"http\"\n    return url_scheme\n\n\nclass MapAdapter:\n"),
        ('routing/map.py', _SECURE + "\n        if websocket:\n            force_external = True\n" + _WS_SCHEME + _HTTP_SCHEME,
         "        url_scheme = _normalise_scheme(url_scheme, websocket)\n        if websocket:\n            force_external = True\n"),
    ],
}
_STRESS.update(_STRESS3)
TWINS += [{"name": k, "edits": v} for k, v in _STRESS3.items()]


MUTANTS += [
    {"name": "stress-external-url-helper-given-a-swapped-websocket-scheme", "expect": "R12.8", "edits": _STRESS["external-url-assembled-by-a-helper-given-the-normalised-scheme"] + [(M, _WS_SCHEME, "            url_scheme = \"ws\" if secure else \"wss\"\n")]},
    {"name": "stress-static-alias-check-called-before-the-defaults", "expect": "R12.7", "edits": [
        (T, _ALIAS_TAIL, "            self._check_alias(rule, result)\n            if rule.defaults:\n                result.update(rule.defaults)\n\n            return rule, result\n"),
        _STRESS["alias-decision-in-a-static-method-given-rule-and-values"][1]]},
    {"name": "stress-merged-target-local-chosen-without-a-match", "expect": "R12.5", "edits": _stress_mutant(
        "merged-pass-target-chosen-in-a-local-raised-once", "                if rv is None or rv[0].merge_slashes is False:\n                    raise NoMatch(have_match_for, websocket_mismatch)\n                redirect_path = path\n", "                redirect_path = path\n")},
    {"name": "stress-merged-handler-local-names-the-path-without-a-slash", "expect": "R12.6", "edits": _stress_mutant(
        "merged-pass-target-chosen-in-a-local-raised-once", "                redirect_path = f\"{path}/\"\n", "                redirect_path = f\"{path}\"\n")},
    {"name": "stress-local-sort-key-function-negates-the-key", "expect": "R12.11", "edits": _stress_mutant(
        "sort-key-function-defined-inside-update", "                return rule.build_compare_key()\n", "                return tuple(-x for x in rule.build_compare_key())\n")},
    {"name": "stress-methodcaller-constant-sorted-in-reverse", "expect": "R12.11", "edits": _stress_mutant(
        "sort-key-in-a-module-level-methodcaller-constant", "rules.sort(key=_build_order)", "rules.sort(key=_build_order, reverse=True)")},
    {"name": "stress-module-level-scheme-function-forgets-wss", "expect": "R12.8", "edits": _stress_mutant(
        "scheme-normalisation-in-a-module-level-function", "secure = url_scheme in {\"https\", \"wss\"}", "secure = url_scheme == \"https\"")},
    {"name": "stress-redirect-scheme-property-always-http", "expect": "R12.8", "edits": _stress_mutant(
        "redirect-scheme-through-a-property", "            return self.url_scheme\n", "            return \"http\"\n")},
    {"name": "stress-query-helper-encodes-the-bound-query", "expect": "R12.3", "edits": _stress_mutant(
        "alias-query-appended-by-a-helper-method", "return f\"{url}?{self.encode_query_args(query_args)}\"", "return f\"{url}?{self.encode_query_args(self.query_args or {})}\"")},
]


# ---- stress round: the fresh authors' refactorings that tripped a rule (as minimal text edits)
_FRESH = {
    'fresh-sort-key-hoisted-methodcaller-guard-flipped': [
        ('routing/map.py',
         'import warnings\n',
         'import warnings\nfrom operator import methodcaller\n'),
        ('routing/map.py',
         '    from .rules import RuleFactory\n',
         '    from .rules import RuleFactory\n\n_build_compare_key = methodcaller("build_compare_key")\n'),
        ('routing/map.py',
         '            if not self._remap:\n                return\n\n            self._matcher.update()\n            for rules in self._rules_by_endpoint.values():\n                rules.sort(key=lambda x: x.build_compare_key())\n            self._remap = False\n',
         '            if self._remap:\n                self._matcher.update()\n                for endpoint_rules in self._rules_by_endpoint.values():\n                    endpoint_rules.sort(key=_build_compare_key)\n                self._remap = False\n'),
        ('routing/rules.py',
         '        return (1 if self.alias else 0, -len(self.arguments), -len(self.defaults or ()))\n',
         '        defaults = self.defaults or ()\n        return int(bool(self.alias)), -len(self.arguments), -len(defaults)\n'),
    ],
    'fresh-alias-suffix-conditional-expression-defaults-loop-continue': [
        ('routing/map.py',
         '            if r.provides_defaults_for(rule) and r.suitable_for(values, method):\n                values.update(r.defaults)  # type: ignore\n                domain_part, path = r.build(values)  # type: ignore\n                return self.make_redirect_url(path, query_args, domain_part=domain_part)\n',
         '            if not r.provides_defaults_for(rule) or not r.suitable_for(values, method):\n                continue\n            values.update(r.defaults)  # type: ignore\n            domain_part, path = r.build(values)  # type: ignore\n            return self.make_redirect_url(path, query_args, domain_part=domain_part)\n'),
        ('routing/map.py',
         '        url = self.build(\n            endpoint, values, method, append_unknown=False, force_external=True\n        )\n        if query_args:\n            url += f"?{self.encode_query_args(query_args)}"\n',
         '        canonical = self.build(\n            endpoint, values, method, append_unknown=False, force_external=True\n        )\n        suffix = f"?{self.encode_query_args(query_args)}" if query_args else ""\n        url = canonical + suffix\n'),
    ],
    'fresh-scheme-split-in-a-module-level-function': [
        ('routing/map.py',
         '    from .rules import RuleFactory\n',
         '    from .rules import RuleFactory\n\n_SECURE_SCHEMES = frozenset({"https", "wss"})\n\n\ndef _normalize_scheme(url_scheme: str | None, websocket: bool) -> str | None:\n    """Pick the scheme to build a URL with. WebSocket routes always get a\n    WebSocket scheme. If bound to a WebSocket, ensure that HTTP routes are\n    built with an HTTP scheme. An empty scheme is kept as is.\n    """\n    secure = url_scheme in _SECURE_SCHEMES\n\n    if websocket:\n        return "wss" if secure else "ws"\n\n    if url_scheme:\n        return "https" if secure else "http"\n\n    return url_scheme\n'),
        ('routing/map.py',
         '        # require full URLs). If bound to a WebSocket, ensure that HTTP\n        # routes are built with an HTTP scheme.\n        secure = url_scheme in {"https", "wss"}\n\n        if websocket:\n            force_external = True\n            url_scheme = "wss" if secure else "ws"\n        elif url_scheme:\n            url_scheme = "https" if secure else "http"\n',
         '        # require full URLs).\n        if websocket:\n            force_external = True\n\n        url_scheme = _normalize_scheme(url_scheme, websocket)\n'),
    ],
    'fresh-one-try-spanning-both-walks-merged-flag': [
        ('routing/matcher.py',
         '        try:\n            rv = _match(self._root, [domain, *path.split("/")], [])\n        except SlashRequired:\n            raise RequestPath(f"{path}/") from None\n\n        if self.merge_slashes and rv is None:\n            # Try to match again, but with slashes merged\n            path = re.sub("/{2,}?", "/", path)\n            try:\n                rv = _match(self._root, [domain, *path.split("/")], [])\n            except SlashRequired:\n                raise RequestPath(f"{path}/") from None\n',
         '        merged = False\n\n        try:\n            rv = _match(self._root, [domain, *path.split("/")], [])\n\n            if self.merge_slashes and rv is None:\n                # Try to match again, but with slashes merged\n                merged = True\n                path = re.sub("/{2,}?", "/", path)\n                rv = _match(self._root, [domain, *path.split("/")], [])\n        except SlashRequired:\n            # ``path`` is whichever variant was being matched.\n            raise RequestPath(f"{path}/") from None\n\n        if merged:\n'),
    ],
    'fresh-alias-url-parts-list-joined-with-question-mark': [
        ('routing/map.py',
         '        url = self.build(\n            endpoint, values, method, append_unknown=False, force_external=True\n        )\n        if query_args:\n            url += f"?{self.encode_query_args(query_args)}"\n',
         '        parts = [\n            self.build(\n                endpoint, values, method, force_external=True, append_unknown=False\n            )\n        ]\n\n        if query_args:\n            parts.append(self.encode_query_args(query_args))\n\n        url = "?".join(parts)\n'),
    ],
    'fresh-netloc-local-by-conditional-expression-percent-formatting': [
        ('routing/map.py',
         '            values = {}\n\n',
         '            values = {}\n\n        if url_scheme is None:\n            url_scheme = self.url_scheme\n\n'),
        ('routing/map.py',
         '\n        if url_scheme is None:\n            url_scheme = self.url_scheme\n',
         '        # The rule\'s path is joined below with exactly one slash.\n        path = path.lstrip("/")\n'),
        ('routing/map.py',
         '            return f"{self.script_name.rstrip(\'/\')}/{path.lstrip(\'/\')}"\n\n        scheme = f"{url_scheme}:" if url_scheme else ""\n        return f"{scheme}//{host}{self.script_name[:-1]}/{path.lstrip(\'/\')}"\n',
         '            return "%s/%s" % (self.script_name.rstrip("/"), path)\n\n        netloc = f"{url_scheme}://{host}" if url_scheme else f"//{host}"\n        return "%s%s/%s" % (netloc, self.script_name[:-1], path)\n'),
    ],
    'fresh-match-parts-from-a-private-method-returning-a-pair': [
        ('routing/map.py',
         '        domain_part = self.server_name\n\n        if not self.map.host_matching and self.subdomain is not None:\n            domain_part = self.subdomain\n\n        path_part = f"/{path_info.lstrip(\'/\')}" if path_info else ""\n',
         '        domain_part, path_part = self._get_match_parts(path_info)\n'),
        ('routing/map.py',
         '                return rule.endpoint, rv\n',
         '                return rule.endpoint, rv\n\n    def _get_match_parts(self, path_info: str) -> tuple[str, str]:\n        """The domain part and the normalized path that are handed to the\n        matcher for the given path info.\n\n        :internal:\n        """\n        use_subdomain = not self.map.host_matching and self.subdomain is not None\n        domain_part = self.subdomain if use_subdomain else self.server_name\n        path_part = "/%s" % path_info.lstrip("/") if path_info else ""\n        return domain_part, path_part  # type: ignore[return-value]\n'),
    ],
    'fresh-one-handler-for-both-signals-url-chosen-by-isinstance': [
        ('routing/map.py',
         '        except RequestPath as e:\n            # safe = https://url.spec.whatwg.org/#url-path-segment-string\n            new_path = quote(e.path_info, safe="!$&\'()*+,/:;=@")\n            raise RequestRedirect(\n                self.make_redirect_url(new_path, query_args)\n            ) from None\n        except RequestAliasRedirect as e:\n            raise RequestRedirect(\n                self.make_alias_redirect_url(\n',
         '        except (RequestPath, RequestAliasRedirect) as e:\n            # Both are answered with a redirect, only the target differs.\n            if isinstance(e, RequestPath):\n                # safe = https://url.spec.whatwg.org/#url-path-segment-string\n                new_path = quote(e.path_info, safe="!$&\'()*+,/:;=@")\n                redirect_url = self.make_redirect_url(new_path, query_args)\n            else:\n                redirect_url = self.make_alias_redirect_url(\n'),
        ('routing/map.py',
         '                )\n            ) from None\n',
         '                )\n\n            raise RequestRedirect(redirect_url) from None\n'),
        ('routing/map.py',
         '            if self.map.redirect_defaults:\n                redirect_url = self.get_default_redirect(rule, method, rv, query_args)\n                if redirect_url is not None:\n                    raise RequestRedirect(redirect_url)\n',
         '            if (\n                self.map.redirect_defaults\n                and (url := self.get_default_redirect(rule, method, rv, query_args))\n                is not None\n            ):\n                raise RequestRedirect(url)\n'),
    ],
    'fresh-rule-lists-slice-assigned-sorted-with-a-local-key-function': [
        ('routing/map.py',
         '            self._matcher.update()\n            for rules in self._rules_by_endpoint.values():\n                rules.sort(key=lambda x: x.build_compare_key())\n',
         '            def build_key(rule: Rule) -> tuple[int, int, int]:\n                return rule.build_compare_key()\n\n            self._matcher.update()\n            for rules in self._rules_by_endpoint.values():\n                # Reorder in place, other code may hold on to the list.\n                rules[:] = sorted(rules, key=build_key)\n'),
    ],
}
_FRESH = {k: v[::-1] for k, v in _FRESH.items()}  # applied bottom-up: a block moved upwards is removed before it is inserted
TWINS += [{"name": k, "edits": v} for k, v in _FRESH.items()]


def _fresh_mutant(twin: str, old: str, new: str) -> list:
    hits = sum(e[2].count(old) for e in _FRESH[twin])
    assert hits == 1, (twin, old, hits)
    return [(rel, o, n.replace(old, new)) for rel, o, n in _FRESH[twin]]


MUTANTS += [
    {"name": "fresh-one-try-merged-path-computed-after-the-second-walk", "expect": "R12.6", "edits": _fresh_mutant(
        "fresh-one-try-spanning-both-walks-merged-flag",
        "                path = re.sub(\"/{2,}?\", \"/\", path)\n                rv = _match(self._root, [domain, *path.split(\"/\")], [])\n",
        "                squeezed = re.sub(\"/{2,}?\", \"/\", path)\n                rv = _match(self._root, [domain, *squeezed.split(\"/\")], [])\n                path = squeezed\n")},
    {"name": "fresh-parts-list-gets-the-bound-query", "expect": "R12.3", "edits": _fresh_mutant(
        "fresh-alias-url-parts-list-joined-with-question-mark", "parts.append(self.encode_query_args(query_args))", "parts.append(self.encode_query_args(self.query_args or {}))")},
    {"name": "fresh-netloc-local-hard-codes-http", "expect": "R12.8", "edits": _fresh_mutant(
        "fresh-netloc-local-by-conditional-expression-percent-formatting", "netloc = f\"{url_scheme}://{host}\" if url_scheme", "netloc = f\"http://{host}\" if url_scheme")},
    {"name": "fresh-percent-formatted-url-without-the-lstrip", "expect": "R12.1", "edits": _fresh_mutant(
        "fresh-netloc-local-by-conditional-expression-percent-formatting", "        path = path.lstrip(\"/\")\n", "        path = path\n")},
    {"name": "fresh-match-parts-helper-keeps-the-leading-slashes", "expect": "R12.2", "edits": _fresh_mutant(
        "fresh-match-parts-from-a-private-method-returning-a-pair", "path_part = \"/%s\" % path_info.lstrip(\"/\") if path_info else \"\"", "path_part = \"/%s\" % path_info if path_info else \"\"")},
    {"name": "fresh-merged-handler-slash-redirect-drops-the-query", "expect": "R12.3", "edits": _fresh_mutant(
        "fresh-one-handler-for-both-signals-url-chosen-by-isinstance", "redirect_url = self.make_redirect_url(new_path, query_args)", "redirect_url = self.make_redirect_url(new_path)")},
    {"name": "fresh-sorted-slice-assignment-in-reverse", "expect": "R12.11", "edits": _fresh_mutant(
        "fresh-rule-lists-slice-assigned-sorted-with-a-local-key-function", "sorted(rules, key=build_key)", "sorted(rules, key=build_key, reverse=True)")},
    {"name": "fresh-module-level-scheme-function-inverts-the-websocket-pair", "expect": "R12.8", "edits": _fresh_mutant(
        "fresh-scheme-split-in-a-module-level-function", "\"wss\" if secure else \"ws\"", "\"ws\" if secure else \"wss\"")},
]


# ---------------------------------------------------------------------
# third detection round: R12.12 (safe sets of the quote calls that make redirect path text), R12.13 (append_unknown on
# the alias values)
C = "routing/converters.py"
R = "routing/rules.py"
_SAFE = "\"!$&'()*+,/:;=@\""
_H_QUOTE = f"            new_path = quote(e.path_info, safe={_SAFE})\n"
_C_QUOTE = f"        return quote(str(value), safe={_SAFE})\n"
_R_QUOTE = f"                opl.append((False, quote(data, safe={_SAFE})))\n"
_ALIAS_BUILD = (
    "        url = self.build(\n"
    "            endpoint, values, method, append_unknown=False, force_external=True\n"
    "        )\n"
)
_PB_CALL = "                build_rv = rule.build(values, append_unknown)\n"
_MAP_CONST_AT = "if t.TYPE_CHECKING:\n"
_ADAPTER_HOST = "    def get_host(self, domain_part: str | None) -> str:\n"

_DET3 = {
    "det3-handler-safe-set-in-a-module-constant": [
        (M, _MAP_CONST_AT, f"_PATH_SAFE = {_SAFE}\n\n" + _MAP_CONST_AT),
        (M, _H_QUOTE, "            new_path = quote(e.path_info, safe=_PATH_SAFE)\n"),
    ],
    "det3-handler-safe-set-concatenated-from-two-constants": [
        (M, _MAP_CONST_AT, "_SUB_DELIMS = \"!$&'()*+,;=\"\n_PATH_SAFE = _SUB_DELIMS + \"/:@\"\n\n" + _MAP_CONST_AT),
        (M, _H_QUOTE, "            new_path = quote(e.path_info, safe=_PATH_SAFE)\n"),
    ],
    "det3-requote-helper-with-safe-default-parameter": [
        (M, _MAP_CONST_AT, f"_PATH_SAFE = {_SAFE}\n\n\ndef _requote_path(text: str, safe: str = _PATH_SAFE) -> str:\n    return quote(text, safe=safe)\n\n\n" + _MAP_CONST_AT),
        (M, _H_QUOTE, "            new_path = _requote_path(e.path_info)\n"),
    ],
    "det3-requote-method-safe-passed-positionally-from-a-class-constant": [
        (M, _ADAPTER_HOST, f"    _path_safe = {_SAFE}\n\n    def _requote(self, text: str) -> str:\n        return quote(text, self._path_safe)\n\n" + _ADAPTER_HOST),
        (M, _H_QUOTE, "            new_path = self._requote(e.path_info)\n"),
    ],
    "det3-handler-quote-inlined-into-the-redirect-call": [
        (M, _H_QUOTE + "            raise RequestRedirect(\n                self.make_redirect_url(new_path, query_args)\n            ) from None\n",
         f"            raise RequestRedirect(\n                self.make_redirect_url(\n                    quote(e.path_info, safe={_SAFE}), query_args\n                )\n            ) from None\n"),
    ],
    "det3-converter-safe-set-in-a-class-constant": [
        (C, "    def to_url(self, value: t.Any) -> str:\n        # safe = https://url.spec.whatwg.org/#url-path-segment-string\n" + _C_QUOTE,
         f"    #: safe = https://url.spec.whatwg.org/#url-path-segment-string\n    url_safe = {_SAFE}\n\n    def to_url(self, value: t.Any) -> str:\n        text = str(value)\n        return quote(text, safe=self.url_safe)\n"),
    ],
    "det3-rule-builder-safe-set-in-a-module-constant": [
        (R, "@dataclass\nclass RulePart:", f"_STATIC_SAFE = {_SAFE}\n\n\n@dataclass\nclass RulePart:"),
        (R, _R_QUOTE, "                static = quote(data, safe=_STATIC_SAFE)\n                opl.append((False, static))\n"),
    ],
    "det3-alias-build-flags-in-locals": [
        (M, _ALIAS_BUILD, "        keep_unknown = False\n        url = self.build(\n            endpoint, values, method, force_external=True, append_unknown=keep_unknown\n        )\n"),
    ],
    "det3-alias-build-flags-positional": [
        (M, _ALIAS_BUILD, "        url = self.build(endpoint, values, method, True, False)\n"),
    ],
    "det3-alias-build-through-a-forwarding-helper-and-keyword-at-the-rule": [
        (M, _ADAPTER_HOST, "    def _external_url(self, endpoint: t.Any, values: t.Mapping[str, t.Any], method: str, unknown: bool) -> str:\n"
                           "        return self.build(endpoint, values, method, force_external=True, append_unknown=unknown)\n\n" + _ADAPTER_HOST),
        (M, _ALIAS_BUILD, "        url = self._external_url(endpoint, values, method, False)\n"),
        (M, _PB_CALL, "                build_rv = rule.build(values, append_unknown=append_unknown)\n"),
    ],
}
TWINS += [{"name": k, "edits": v} for k, v in _DET3.items()]


def _det3_mutant(twin: str, old: str, new: str) -> list:
    hits = sum(e[2].count(old) for e in _DET3[twin])
    assert hits == 1, (twin, old, hits)
    return [(rel, o, n.replace(old, new)) for rel, o, n in _DET3[twin]]


_SAFE_Q = "\"!$&'()*+,/:;=?@\""
MUTANTS += [
    {"name": "det3-handler-safe-set-gains-question-mark", "expect": "R12.12", "edits": [(M, _H_QUOTE, f"            new_path = quote(e.path_info, safe={_SAFE_Q})\n")]},
    {"name": "det3-handler-safe-set-loses-the-slash", "expect": "R12.12", "edits": [(M, _H_QUOTE, "            new_path = quote(e.path_info, safe=\"!$&'()*+,:;=@\")\n")]},
    {"name": "det3-handler-module-constant-gains-hash", "expect": "R12.12", "edits": _det3_mutant(
        "det3-handler-safe-set-in-a-module-constant", f"_PATH_SAFE = {_SAFE}", "_PATH_SAFE = \"!#$&'()*+,/:;=@\"")},
    {"name": "det3-concatenated-safe-set-gains-percent", "expect": "R12.12", "edits": _det3_mutant(
        "det3-handler-safe-set-concatenated-from-two-constants", "_SUB_DELIMS + \"/:@\"", "_SUB_DELIMS + \"%/:@\"")},
    {"name": "det3-requote-helper-default-gains-question-mark", "expect": "R12.12", "edits": _det3_mutant(
        "det3-requote-helper-with-safe-default-parameter", f"_PATH_SAFE = {_SAFE}", f"_PATH_SAFE = {_SAFE_Q}")},
    {"name": "det3-requote-method-class-constant-gains-question-mark", "expect": "R12.12", "edits": _det3_mutant(
        "det3-requote-method-safe-passed-positionally-from-a-class-constant", f"_path_safe = {_SAFE}", f"_path_safe = {_SAFE_Q}")},
    {"name": "det3-inlined-quote-uses-the-query-safe-set", "expect": "R12.12", "edits": _det3_mutant(
        "det3-handler-quote-inlined-into-the-redirect-call", f"safe={_SAFE}", f"safe={_SAFE_Q}")},
    {"name": "det3-converter-to-url-safe-set-gains-question-mark", "expect": "R12.12", "edits": [(C, _C_QUOTE, f"        return quote(str(value), safe={_SAFE_Q})\n")]},
    {"name": "det3-converter-class-constant-gains-hash", "expect": "R12.12", "edits": _det3_mutant(
        "det3-converter-safe-set-in-a-class-constant", f"url_safe = {_SAFE}", "url_safe = \"!#$&'()*+,/:;=@\"")},
    {"name": "det3-rule-builder-static-text-safe-set-gains-question-mark", "expect": "R12.12", "edits": [(R, _R_QUOTE, f"                opl.append((False, quote(data, safe={_SAFE_Q})))\n")]},
    {"name": "det3-rule-builder-module-constant-gains-percent", "expect": "R12.12", "edits": _det3_mutant(
        "det3-rule-builder-safe-set-in-a-module-constant", f"_STATIC_SAFE = {_SAFE}", "_STATIC_SAFE = \"!$%&'()*+,/:;=@\"")},
    {"name": "det3-alias-build-without-the-unknown-flag", "expect": "R12.13", "edits": [(M, _ALIAS_BUILD, "        url = self.build(endpoint, values, method, force_external=True)\n")]},
    {"name": "det3-alias-build-flag-local-true", "expect": "R12.13", "edits": _det3_mutant(
        "det3-alias-build-flags-in-locals", "keep_unknown = False", "keep_unknown = True")},
    {"name": "det3-alias-build-positional-stops-before-the-flag", "expect": "R12.13", "edits": _det3_mutant(
        "det3-alias-build-flags-positional", "method, True, False)", "method, True)")},
    {"name": "det3-forwarding-helper-called-with-true", "expect": "R12.13", "edits": _det3_mutant(
        "det3-alias-build-through-a-forwarding-helper-and-keyword-at-the-rule", "self._external_url(endpoint, values, method, False)", "self._external_url(endpoint, values, method, True)")},
    {"name": "det3-partial-build-does-not-hand-the-flag-to-the-rule", "expect": "R12.13", "edits": [(M, _PB_CALL, "                build_rv = rule.build(values)\n")]},
]

# shapes of the fresh refactorings written for the stress pass of R12.12 / R12.13 (all silent at first run)
_DET3B = {
    "det3-rules-module-level-quote-helper-with-literal-default": [
        (R, "@dataclass\nclass RulePart:", f"def _quote_static(text: str, safe: str = {_SAFE}) -> str:\n    return quote(text, safe=safe)\n\n\n@dataclass\nclass RulePart:"),
        (R, _R_QUOTE, "                opl.append((False, _quote_static(data)))\n"),
    ],
    "det3-converters-module-level-quote-helper-and-own-to-url": [
        (C, "class BaseConverter:", f"_URL_SAFE = {_SAFE}\n\n\ndef _quote_value(value: t.Any, safe: str = _URL_SAFE) -> str:\n    return quote(str(value), safe=safe)\n\n\nclass BaseConverter:"),
        (C, _C_QUOTE, "        return _quote_value(value)\n"),
    ],
    "det3-adapter-static-requote-method-with-literal-default": [
        (M, _ADAPTER_HOST, f"    @staticmethod\n    def _requote_path(path_info: str, safe: str = {_SAFE}) -> str:\n        return quote(path_info, safe=safe)\n\n" + _ADAPTER_HOST),
        (M, _H_QUOTE, "            new_path = self._requote_path(e.path_info)\n"),
    ],
    "det3-handler-safe-set-in-a-local": [
        (M, _H_QUOTE, f"            path_safe = {_SAFE}\n            new_path = quote(e.path_info, safe=path_safe)\n"),
    ],
}
TWINS += [{"name": k, "edits": v} for k, v in _DET3B.items()]
_DET3.update(_DET3B)
MUTANTS += [
    {"name": "det3-rules-quote-helper-default-gains-question-mark", "expect": "R12.12", "edits": _det3_mutant(
        "det3-rules-module-level-quote-helper-with-literal-default", f"safe: str = {_SAFE}", f"safe: str = {_SAFE_Q}")},
    {"name": "det3-converters-quote-helper-constant-gains-hash", "expect": "R12.12", "edits": _det3_mutant(
        "det3-converters-module-level-quote-helper-and-own-to-url", f"_URL_SAFE = {_SAFE}", "_URL_SAFE = \"!#$&'()*+,/:;=@\"")},
    {"name": "det3-static-requote-method-default-gains-question-mark", "expect": "R12.12", "edits": _det3_mutant(
        "det3-adapter-static-requote-method-with-literal-default", f"safe: str = {_SAFE}", f"safe: str = {_SAFE_Q}")},
    {"name": "det3-handler-local-safe-set-gains-question-mark", "expect": "R12.12", "edits": _det3_mutant(
        "det3-handler-safe-set-in-a-local", f"path_safe = {_SAFE}", f"path_safe = {_SAFE_Q}")},
]

_DET3C = {
    "det3-quote-through-the-parse-module-alias": [
        (M, "from urllib.parse import quote\n", "from urllib import parse as _up\nfrom urllib.parse import quote\n"),
        (M, _H_QUOTE, f"            new_path = _up.quote(e.path_info, safe={_SAFE})\n"),
    ],
    "det3-alias-build-flags-from-a-dict-local": [
        (M, _ALIAS_BUILD, "        opts = dict(append_unknown=False, force_external=True)\n        url = self.build(endpoint, values, method, **opts)\n"),
    ],
    "det3-requote-function-safe-set-passed-by-the-handler": [
        (M, _MAP_CONST_AT, f"_PATH_SAFE = {_SAFE}\n\n\ndef _requote(text: str, safe: str) -> str:\n    return quote(text, safe=safe)\n\n\n" + _MAP_CONST_AT),
        (M, _H_QUOTE, "            new_path = _requote(e.path_info, safe=_PATH_SAFE)\n"),
    ],
}
TWINS += [{"name": k, "edits": v} for k, v in _DET3C.items()]
_DET3.update(_DET3C)
MUTANTS += [
    {"name": "det3-parse-module-quote-gains-hash", "expect": "R12.12", "edits": _det3_mutant(
        "det3-quote-through-the-parse-module-alias", f"_up.quote(e.path_info, safe={_SAFE})", "_up.quote(e.path_info, safe=\"!#$&'()*+,/:;=@\")")},
    {"name": "det3-dict-local-flag-true", "expect": "R12.13", "edits": _det3_mutant(
        "det3-alias-build-flags-from-a-dict-local", "dict(append_unknown=False", "dict(append_unknown=True")},
    {"name": "det3-handler-passes-the-query-safe-set-to-the-requote-function", "expect": "R12.12", "edits": _det3_mutant(
        "det3-requote-function-safe-set-passed-by-the-handler", f"_PATH_SAFE = {_SAFE}", f"_PATH_SAFE = {_SAFE_Q}")},
]
