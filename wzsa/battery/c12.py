"""self-validation battery for C12."""
M = "routing/map.py"
T = "routing/matcher.py"

_SLASH_SITE = "            raise RequestRedirect(\n                self.make_redirect_url(new_path, query_args)\n            ) from None"
_PATH_JOIN = '        path = "/".join((self.script_name.strip("/"), path_info.lstrip("/")))'
_SLASH_LOOP = (
    "                        if websocket == rule.websocket and (\n"
    "                            rule.methods is None or method in rule.methods\n"
    "                        ):\n"
    "                            if rule.strict_slashes:\n"
    "                                raise SlashRequired()\n"
    "                            else:\n"
    "                                return rule, values\n"
    "                        elif (\n"
    "                            not rule.strict_slashes\n"
    "                            and rule.methods is not None\n"
    "                            and method not in rule.methods\n"
    "                        ):\n"
    "                            have_match_for.update(rule.methods)\n"
)

_ADMIT_IF = (
    "                        if websocket == rule.websocket and (\n"
    "                            rule.methods is None or method in rule.methods\n"
    "                        ):\n"
)
_FIRST_PASS = (
    "        try:\n"
    "            rv = _match(self._root, [domain, *path.split(\"/\")], [])\n"
    "        except SlashRequired:\n"
    "            raise RequestPath(f\"{path}/\") from None\n"
    "\n"
    "        if self.merge_slashes and rv is None:\n"
)
_SECOND_PASS = (
    "            path = re.sub(\"/{2,}?\", \"/\", path)\n"
    "            try:\n"
    "                rv = _match(self._root, [domain, *path.split(\"/\")], [])\n"
    "            except SlashRequired:\n"
    "                raise RequestPath(f\"{path}/\") from None\n"
)
_DEF_MATCH = "        def _match(\n            state: State, parts: list[str], values: list[str]\n        )"

MUTANTS = [
    # R12.1 ----------------------------------------------------------------
    {"name": "redirect-path-keeps-leading-slashes", "expect": "R12.1", "edits": [(M, _PATH_JOIN, '        path = "/".join((self.script_name.strip("/"), path_info))')]},
    {"name": "redirect-path-without-script-root", "expect": "R12.1", "edits": [(M, _PATH_JOIN, '        path = "/" + path_info.lstrip("/")')]},
    {"name": "slash-redirect-built-with-urljoin", "expect": "R12.1", "edits": [(M, _SLASH_SITE,
        "            raise RequestRedirect(\n                urljoin(f\"{self.url_scheme or 'http'}://{self.get_host(None)}{self.script_name}\", new_path)\n            ) from None")]},
    {"name": "slash-redirect-host-from-request-path", "expect": "R12.1", "edits": [(M, _SLASH_SITE,
        "            raise RequestRedirect(\n                self.make_redirect_url(new_path, query_args, domain_part=path_part.split(\"/\")[1])\n            ) from None")]},
    {"name": "external-url-drops-slash-and-lstrip", "expect": "R12.1", "edits": [(M, "        return f\"{scheme}//{host}{self.script_name[:-1]}/{path.lstrip('/')}\"", "        return f\"{scheme}//{host}{self.script_name[:-1]}{path}\"")]},
    {"name": "default-redirect-host-from-matched-values", "expect": "R12.1", "edits": [(M, "                return self.make_redirect_url(path, query_args, domain_part=domain_part)", "                return self.make_redirect_url(path, query_args, domain_part=values.get(\"subdomain\", domain_part))")]},
    {"name": "default-redirect-is-a-bare-path", "expect": "R12.1", "edits": [(M, "                return self.make_redirect_url(path, query_args, domain_part=domain_part)", "                return path")]},
    # R12.2 ----------------------------------------------------------------
    {"name": "matcher-path-not-stripped", "expect": "R12.2", "edits": [(M, "        path_part = f\"/{path_info.lstrip('/')}\" if path_info else \"\"", "        path_part = f\"/{path_info}\" if path_info else \"\"")]},
    {"name": "matcher-path-kept-when-it-starts-with-slash", "expect": "R12.2", "edits": [(M, "        path_part = f\"/{path_info.lstrip('/')}\" if path_info else \"\"", "        path_part = path_info if path_info.startswith(\"/\") else f\"/{path_info}\"")]},
    # R12.3 ----------------------------------------------------------------
    {"name": "slash-redirect-omits-query-args", "expect": "R12.3", "edits": [(M, _SLASH_SITE, "            raise RequestRedirect(self.make_redirect_url(new_path)) from None")]},
    {"name": "alias-redirect-drops-query", "expect": "R12.3", "edits": [(M, "        if query_args:\n            url += f\"?{self.encode_query_args(query_args)}\"\n        assert url != path", "        assert url != path")]},
    {"name": "default-redirect-uses-bound-query-only", "expect": "R12.3", "edits": [(M, "                redirect_url = self.get_default_redirect(rule, method, rv, query_args)", "                redirect_url = self.get_default_redirect(rule, method, rv, self.query_args or {})")]},
    {"name": "redirect-query-requoted-at-assembly", "expect": "R12.3", "edits": [(M, "            query_str = self.encode_query_args(query_args)\n        else:", "            query_str = quote(self.encode_query_args(query_args), safe=\"&=+\")\n        else:")]},
    # R12.4 ----------------------------------------------------------------
    {"name": "str-query-requoted", "expect": "R12.4", "edits": [(M, "            return _urlencode(query_args)\n        return query_args", "            return _urlencode(query_args)\n        return quote(query_args, safe=\"&=+\")")]},
    {"name": "str-query-branch-swapped", "expect": "R12.4", "edits": [(M, "        if not isinstance(query_args, str):\n            return _urlencode(query_args)\n        return query_args", "        if isinstance(query_args, str):\n            return _urlencode(query_args)\n        return query_args")]},
    # R12.5 ----------------------------------------------------------------
    {"name": "slash-proposal-before-method-test", "expect": "R12.5", "edits": [(T, _SLASH_LOOP,
        "                        if websocket == rule.websocket:\n"
        "                            if rule.strict_slashes:\n"
        "                                raise SlashRequired()\n"
        "                            elif rule.methods is None or method in rule.methods:\n"
        "                                return rule, values\n")]},
    {"name": "slash-proposal-ignores-websocket", "expect": "R12.5", "edits": [(T, "                        if websocket == rule.websocket and (\n                            rule.methods is None or method in rule.methods\n                        ):", "                        if rule.methods is None or method in rule.methods:")]},
    {"name": "slash-proposal-method-test-dropped", "expect": "R12.5", "edits": [(T, "                        if websocket == rule.websocket and (\n                            rule.methods is None or method in rule.methods\n                        ):", "                        if websocket == rule.websocket:")]},
    {"name": "merged-slash-redirect-without-a-match", "expect": "R12.5", "edits": [(T, "            if rv is None or rv[0].merge_slashes is False:", "            if rv is not None and rv[0].merge_slashes is False:")]},
    {"name": "slash-proposal-admission-flag-not-consulted", "expect": "R12.5", "edits": [(T, _SLASH_LOOP,
        "                        method_ok = rule.methods is None or method in rule.methods\n"
        "                        if websocket == rule.websocket:\n"
        "                            if rule.strict_slashes:\n"
        "                                raise SlashRequired()\n"
        "                            if method_ok:\n"
        "                                return rule, values\n")]},
    {"name": "slash-proposal-admission-flag-of-the-wrong-polarity", "expect": "R12.5", "edits": [(T, _SLASH_LOOP,
        "                        refused = rule.methods is not None and method not in rule.methods\n"
        "                        if websocket == rule.websocket and refused:\n"
        "                            if rule.strict_slashes:\n"
        "                                raise SlashRequired()\n"
        "                            return rule, values\n")]},
    # R12.6 ----------------------------------------------------------------
    {"name": "first-pass-slash-redirect-targets-the-merged-path", "expect": "R12.6", "edits": [(T, _FIRST_PASS,
        "        merged = re.sub(\"/{2,}?\", \"/\", path)\n"
        "        try:\n"
        "            rv = _match(self._root, [domain, *path.split(\"/\")], [])\n"
        "        except SlashRequired:\n"
        "            raise RequestPath(f\"{merged}/\") from None\n"
        "\n"
        "        if self.merge_slashes and rv is None:\n")]},
    {"name": "both-passes-in-one-try-redirect-to-the-merged-path", "expect": "R12.6", "edits": [
        (T, _FIRST_PASS,
        "        merged = re.sub(\"/{2,}?\", \"/\", path) if self.merge_slashes else path\n"
        "        try:\n"
        "            rv = _match(self._root, [domain, *path.split(\"/\")], [])\n"
        "            if rv is None and merged != path:\n"
        "                rv = _match(self._root, [domain, *merged.split(\"/\")], [])\n"
        "                if rv is None or rv[0].merge_slashes is False:\n"
        "                    raise NoMatch(have_match_for, websocket_mismatch)\n"
        "                raise RequestPath(merged)\n"
        "        except SlashRequired:\n"
        "            raise RequestPath(f\"{merged}/\") from None\n"
        "\n"
        "        if False:\n")]},
    {"name": "merged-pass-slash-redirect-targets-the-unmerged-path", "expect": "R12.6", "edits": [(T, _SECOND_PASS,
        "            unmerged = path\n"
        "            path = re.sub(\"/{2,}?\", \"/\", path)\n"
        "            try:\n"
        "                rv = _match(self._root, [domain, *path.split(\"/\")], [])\n"
        "            except SlashRequired:\n"
        "                raise RequestPath(f\"{unmerged}/\") from None\n")]},
]

TWINS = [
    {"name": "redirect-url-locals-renamed-tuple-via-local", "edits": [(M,
        "        scheme = self.url_scheme or \"http\"\n        host = self.get_host(domain_part)\n" + _PATH_JOIN + "\n        return urlunsplit((scheme, host, path, query_str, None))",
        "        netloc = self.get_host(domain_part)\n        root = self.script_name.strip(\"/\")\n        rest = path_info.lstrip(\"/\")\n        target = f\"{root}/{rest}\"\n        parts = (self.url_scheme or \"http\", netloc, target, query_str, None)\n        return urlunsplit(parts)")]},
    {"name": "encode-query-args-early-return-flipped", "edits": [(M, "        if not isinstance(query_args, str):\n            return _urlencode(query_args)\n        return query_args", "        if isinstance(query_args, str):\n            return query_args\n        return _urlencode(query_args)")]},
    {"name": "encode-query-args-conditional-expression", "edits": [(M, "        if not isinstance(query_args, str):\n            return _urlencode(query_args)\n        return query_args", "        return query_args if isinstance(query_args, str) else _urlencode(query_args)")]},
    {"name": "slash-loop-continue-style", "edits": [(T, _SLASH_LOOP,
        "                        if websocket != rule.websocket:\n"
        "                            continue\n"
        "                        if rule.methods is not None and method not in rule.methods:\n"
        "                            if not rule.strict_slashes:\n"
        "                                have_match_for.update(rule.methods)\n"
        "                            continue\n"
        "                        if not rule.strict_slashes:\n"
        "                            return rule, values\n"
        "                        raise SlashRequired()\n")]},
    {"name": "match-url-in-a-local-and-path-by-concatenation", "edits": [
        (M, _SLASH_SITE, "            target = self.make_redirect_url(new_path, query_args=query_args)\n            raise RequestRedirect(target) from None"),
        (M, "        path_part = f\"/{path_info.lstrip('/')}\" if path_info else \"\"", "        path_part = \"\"\n        if path_info:\n            path_part = \"/\" + path_info.lstrip(\"/\")"),
    ]},
    {"name": "alias-query-appended-by-concatenation", "edits": [(M, "            url += f\"?{self.encode_query_args(query_args)}\"", "            url = url + \"?\" + self.encode_query_args(query_args)")]},
    {"name": "default-redirect-indexes-the-built-pair", "edits": [(M,
        "                domain_part, path = r.build(values)  # type: ignore\n                return self.make_redirect_url(path, query_args, domain_part=domain_part)",
        "                built = r.build(values)  # type: ignore\n                return self.make_redirect_url(built[1], query_args, domain_part=built[0])")]},
    {"name": "merged-slash-early-raise-style", "edits": [(T,
        "            if rv is None or rv[0].merge_slashes is False:\n                raise NoMatch(have_match_for, websocket_mismatch)\n            else:\n                raise RequestPath(f\"{path}\")",
        "            if rv is not None and rv[0].merge_slashes is not False:\n                raise RequestPath(f\"{path}\")\n            raise NoMatch(have_match_for, websocket_mismatch)")]},
    {"name": "slash-loop-admission-in-a-flag-local", "edits": [(T, _SLASH_LOOP,
        "                        admits = websocket == rule.websocket and (\n"
        "                            rule.methods is None or method in rule.methods\n"
        "                        )\n"
        "                        if admits and rule.strict_slashes:\n"
        "                            raise SlashRequired()\n"
        "                        if admits:\n"
        "                            return rule, values\n"
        "                        if (\n"
        "                            not rule.strict_slashes\n"
        "                            and rule.methods is not None\n"
        "                            and method not in rule.methods\n"
        "                        ):\n"
        "                            have_match_for.update(rule.methods)\n")]},
    {"name": "slash-loop-methods-through-an-alias-and-de-morgan", "edits": [(T, _ADMIT_IF,
        "                        allowed = rule.methods\n"
        "                        if not (rule.websocket != websocket or (\n"
        "                            allowed is not None and method not in allowed\n"
        "                        )):\n")]},
    {"name": "slash-loop-admission-in-a-predicate-helper", "edits": [
        (T, _DEF_MATCH,
        "        def _admits(r: Rule) -> bool:\n"
        "            return websocket == r.websocket and (\n"
        "                r.methods is None or method in r.methods\n"
        "            )\n\n" + _DEF_MATCH),
        (T, _ADMIT_IF, "                        if _admits(rule):\n"),
    ]},
    {"name": "walk-wrapped-in-a-non-catching-helper-and-parts-in-a-local", "edits": [
        (T, _FIRST_PASS,
        "        def _walk(p: str) -> tuple[Rule, list[str]] | None:\n"
        "            parts = [domain, *p.split(\"/\")]\n"
        "            return _match(self._root, parts, [])\n"
        "\n"
        "        try:\n"
        "            rv = _walk(path)\n"
        "        except SlashRequired:\n"
        "            raise RequestPath(f\"{path}/\") from None\n"
        "\n"
        "        if self.merge_slashes and rv is None:\n"),
        (T, _SECOND_PASS,
        "            path = re.sub(\"/{2,}?\", \"/\", path)\n"
        "            try:\n"
        "                rv = _walk(path)\n"
        "            except SlashRequired:\n"
        "                target = path + \"/\"\n"
        "                raise RequestPath(target) from None\n"),
    ]},
    {"name": "both-passes-through-one-catching-helper-walrus-result", "edits": [
        (T, _FIRST_PASS,
        "        def _try_path(candidate: str) -> tuple[Rule, list[str]] | None:\n"
        "            try:\n"
        "                return _match(self._root, [domain, *candidate.split(\"/\")], [])\n"
        "            except SlashRequired:\n"
        "                raise RequestPath(f\"{candidate}/\") from None\n"
        "\n"
        "        rv = _try_path(path)\n"
        "\n"
        "        if self.merge_slashes and rv is None:\n"),
        (T, _SECOND_PASS + "            if rv is None or rv[0].merge_slashes is False:\n                raise NoMatch(have_match_for, websocket_mismatch)\n            else:\n                raise RequestPath(f\"{path}\")",
        "            path = re.sub(\"/{2,}?\", \"/\", path)\n"
        "            if (again := _try_path(path)) and again[0].merge_slashes is not False:\n"
        "                raise RequestPath(path)\n"
        "            raise NoMatch(have_match_for, websocket_mismatch)"),
    ]},
]
