"""self-validation battery for C10."""
M = "sansio/multipart.py"
F = "formparser.py"
W = "wsgi.py"
R = "wrappers/request.py"
MUTANTS = [
    {"name": "size-test-ignores-buffer", "expect": "R10.1", "edits": [(M, "            and len(self.buffer) + len(data) > self.max_form_memory_size", "            and len(data) > self.max_form_memory_size")]},
    {"name": "extend-before-test", "expect": "R10.1", "edits": [(M, "        if data is None:\n            self.complete = True\n        elif (", "        if data is not None:\n            self.buffer.extend(data)\n        if data is None:\n            self.complete = True\n        elif (")]},
    {"name": "size-test-does-not-raise", "expect": "R10.1", "edits": [(M, "            # Also checked across accumulated events in MultiPartParser.\n            raise RequestEntityTooLarge()", "            # Also checked across accumulated events in MultiPartParser.\n            self.complete = True")]},
    {"name": "parts-counted-only-for-fields", "expect": "R10.2", "edits": [(M, "                self.state = State.DATA_START\n                self._search_position = 0\n                self._parts_decoded += 1\n", "                self.state = State.DATA_START\n                self._search_position = 0\n                if filename is None:\n                    self._parts_decoded += 1\n")]},
    {"name": "parts-test-no-raise", "expect": "R10.2", "edits": [(M, "                if self.max_parts is not None and self._parts_decoded > self.max_parts:\n                    raise RequestEntityTooLarge()\n", "")]},
    {"name": "field-write-before-test", "expect": "R10.3", "edits": [(F, "                    _write(event.data)\n                    if not event.more_data:", "                    if not event.more_data:"), (F, "                elif isinstance(event, Data):\n", "                elif isinstance(event, Data):\n                    _write(event.data)\n")]},
    {"name": "field-size-not-reset", "expect": "R10.3", "edits": [(F, "                    current_part = event\n                    field_size = 0\n", "                    current_part = event\n")]},
    {"name": "field-size-counts-chunks", "expect": "R10.3", "edits": [(F, "field_size += len(event.data)", "field_size += 1")]},
    {"name": "urlencoded-test-dropped", "expect": "R10.4", "edits": [(F, "            and content_length > self.max_form_memory_size\n        ):\n            raise RequestEntityTooLarge()", "            and content_length > self.max_form_memory_size\n        ):\n            pass")]},
    {"name": "terminated-stream-unlimited", "expect": "R10.4", "edits": [(W, "            return t.cast(\n                t.IO[bytes], LimitedStream(stream, max_content_length, is_max=True)\n            )\n", "            return stream\n")]},
    {"name": "multipart-parser-drops-max-parts", "expect": "R10.5", "edits": [(F, "            max_form_memory_size=self.max_form_memory_size,\n            max_form_parts=self.max_form_parts,\n            cls=self.cls,", "            max_form_memory_size=self.max_form_memory_size,\n            cls=self.cls,")]},
    {"name": "decoder-gets-wrong-limit", "expect": "R10.5", "edits": [(F, "            max_parts=self.max_form_parts,", "            max_parts=self.max_form_memory_size,")]},
    {"name": "request-default-parts", "expect": "R10.5", "edits": [(R, "    max_form_parts = 1000", "    max_form_parts = None")]},
    {"name": "limit-used-as-read-size", "expect": "R10.6", "edits": [(F, "        for data in _chunk_iter(stream.read, self.buffer_size):", "        for data in _chunk_iter(stream.read, min(self.buffer_size, self.max_form_memory_size or self.buffer_size)):")]},
    {"name": "limit-truncates-field", "expect": "R10.6", "edits": [(F, "                    _write(event.data)\n", "                    _write(event.data[: self.max_form_memory_size])\n")]},
]
TWINS = [
    {"name": "size-test-ge", "edits": [(M, "            and len(self.buffer) + len(data) > self.max_form_memory_size", "            and len(self.buffer) + len(data) >= self.max_form_memory_size")]},
    {"name": "size-test-operands-swapped", "edits": [(M, "            and len(self.buffer) + len(data) > self.max_form_memory_size", "            and len(data) + len(self.buffer) > self.max_form_memory_size")]},
    {"name": "parts-test-nested-if", "edits": [(M, "                if self.max_parts is not None and self._parts_decoded > self.max_parts:\n                    raise RequestEntityTooLarge()", "                if self.max_parts is not None:\n                    if self._parts_decoded > self.max_parts:\n                        raise RequestEntityTooLarge()")]},
]
