"""self-validation battery for C16."""
M = "datastructures/mixins.py"
S = "datastructures/structures.py"
R = "sansio/response.py"
A = "datastructures/auth.py"
RG = "datastructures/range.py"
MUTANTS = [
    {"name": "clear-not-decorated", "expect": "R16.1", "edits": [(M, "    @_always_update\n    def clear(self) -> None:\n        super().clear()", "    def clear(self) -> None:\n        super().clear()")]},
    {"name": "ior-removed", "expect": "R16.1", "edits": [(M, "    @_always_update\n    def __ior__(  # type: ignore[override]\n        self, other: cabc.Mapping[K, V] | cabc.Iterable[tuple[K, V]]\n    ) -> te.Self:\n        return super().__ior__(other)\n", "")]},
    {"name": "pop-forgets-notify", "expect": "R16.1", "edits": [(M, "            rv = super().pop(key, default)  # type: ignore[arg-type]\n        if modified and self.on_update is not None:\n            self.on_update(self)\n        return rv", "            rv = super().pop(key, default)  # type: ignore[arg-type]\n        return rv")]},
    {"name": "wrapper-notifies-before", "expect": "R16.1", "edits": [(M, "        rv = f(self, *args, **kwargs)\n\n        if self.on_update is not None:\n            self.on_update(self)\n\n        return rv", "        if self.on_update is not None:\n            self.on_update(self)\n\n        rv = f(self, *args, **kwargs)\n        return rv")]},
    {"name": "headerset-sort-silent", "expect": "R16.2", "edits": [(S, "    def as_set(self, preserve_casing: bool = False) -> set[str]:", "    def sort(self) -> None:\n        self._headers.sort()\n\n    def as_set(self, preserve_casing: bool = False) -> set[str]:")]},
    {"name": "headerset-delitem-silent", "expect": "R16.2", "edits": [(S, "        rv = self._headers.pop(idx)\n        self._set.remove(rv.lower())\n        if self.on_update is not None:\n            self.on_update(self)", "        rv = self._headers.pop(idx)\n        self._set.remove(rv.lower())")]},
    {"name": "token-setter-silent", "expect": "R16.3", "edits": [(A, "        self._token = value\n        self._trigger_on_update()", "        self._token = value")]},
    {"name": "parameters-dict-without-trigger", "expect": "R16.3", "edits": [(A, "        self._parameters = CallbackDict(value, lambda _: self._trigger_on_update())", "        self._parameters = CallbackDict(value)")]},
    {"name": "content-range-length-or-star", "expect": "R16.3", "edits": [(RG, "        if self._length is None:\n            length: str | int = \"*\"\n        else:\n            length = self._length\n", "        length: str | int = self._length or \"*\"\n")]},
    {"name": "setattr-forgets-token", "expect": "R16.4", "edits": [(A, '            "token",\n            "_type",', '            "_type",')]},
    {"name": "allow-callback-writes-vary", "expect": "R16.5", "edits": [(R, "            elif header_set:\n                self.headers[name] = header_set.to_header()", "            elif header_set:\n                self.headers[\"Vary\"] = header_set.to_header()")]},
    {"name": "content-range-fallback-detached", "expect": "R16.5", "edits": [(R, "            rv = ContentRange(None, None, None, on_update=on_update)", "            rv = ContentRange(None, None, None)")]},
    {"name": "csp-report-only-writes-plain", "expect": "R16.5", "edits": [(R, '                self.headers["Content-Security-policy-report-only"] = csp.to_header()', '                self.headers["Content-Security-Policy"] = csp.to_header()')]},
    {"name": "cache-control-no-delete", "expect": "R16.5", "edits": [(R, "            if not cache_control and \"cache-control\" in self.headers:\n                del self.headers[\"cache-control\"]\n            elif cache_control:", "            if cache_control:")]},
    {"name": "date-dumped-with-str", "expect": "R16.6", "edits": [(R, '        "Date",\n        None,\n        parse_date,\n        http_date,', '        "Date",\n        None,\n        parse_date,\n        str,')]},
    {"name": "type-setter-raw", "expect": "R16.7", "edits": [(A, "        self._type = value.lower()\n        self._trigger_on_update()", "        self._type = value\n        self._trigger_on_update()")]},
]
TWINS = [
    {"name": "pop-early-return-style", "edits": [(M, "        if modified and self.on_update is not None:\n            self.on_update(self)\n        return rv\n\n    @_always_update\n    def __setitem__", "        if not modified or self.on_update is None:\n            return rv\n        self.on_update(self)\n        return rv\n\n    @_always_update\n    def __setitem__")]},
    {"name": "headerset-new-method-through-update", "edits": [(S, "    def as_set(self, preserve_casing: bool = False) -> set[str]:", "    def add_all(self, *headers: str) -> None:\n        self.update(headers)\n\n    def as_set(self, preserve_casing: bool = False) -> set[str]:")]},
]

# ---------------------------------------------------------------------------------------------------------------------
# round 2: further behaviour-preserving shapes the rules accept (decided on the inlined call graph), and for each of
# them a defect planted in that shape (``_derive``: the twin's edits with one fragment of the new text replaced)
CC = "datastructures/cache_control.py"
I = "_internal.py"

ROUND2_TWINS = [
    {"name": "headerset-module-level-notify-truthiness", "edits": [
        (S, "class HeaderSet(cabc.MutableSet[str]):", "def _fire(hs: t.Any) -> None:\n    cb = hs.on_update\n    if cb:\n        cb(hs)\n\n\nclass HeaderSet(cabc.MutableSet[str]):"),
        (S, "        self._set.clear()\n        self._headers.clear()\n\n        if self.on_update is not None:\n            self.on_update(self)", "        self._set.clear()\n        self._headers.clear()\n        _fire(self)"),
        (S, "        rv = self._headers.pop(idx)\n        self._set.remove(rv.lower())\n        if self.on_update is not None:\n            self.on_update(self)", "        rv = self._headers.pop(idx)\n        self._set.remove(rv.lower())\n        _fire(self)"),
    ]},
    {"name": "headerset-update-accumulator-list", "edits": [
        (S, "        inserted_any = False\n        for header in iterable:\n            key = header.lower()\n            if key not in self._set:\n                self._headers.append(header)\n                self._set.add(key)\n                inserted_any = True\n        if inserted_any and self.on_update is not None:\n            self.on_update(self)",
            "        added = []\n        for header in iterable:\n            if header.lower() in self._set:\n                continue\n            self._set.add(header.lower())\n            self._headers.append(header)\n            added.append(header)\n        if not added:\n            return\n        if self.on_update is not None:\n            self.on_update(self)"),
    ]},
    {"name": "headerset-update-insert-helper-returns-flag", "edits": [
        (S, "        inserted_any = False\n        for header in iterable:\n            key = header.lower()\n            if key not in self._set:\n                self._headers.append(header)\n                self._set.add(key)\n                inserted_any = True\n        if inserted_any and self.on_update is not None:\n            self.on_update(self)",
            "        changed = False\n        for header in iterable:\n            changed = self._insert(header, header.lower()) or changed\n        if changed and self.on_update is not None:\n            self.on_update(self)\n\n    def _insert(self, item: str, folded: str) -> bool:\n        if folded in self._set:\n            return False\n        self._headers.append(item)\n        self._set.add(folded)\n        return True"),
    ]},
    {"name": "updatedict-pop-setdefault-early-return", "edits": [
        (M, "        modified = key in self\n        if default is _missing:\n            rv = super().pop(key)\n        else:\n            rv = super().pop(key, default)  # type: ignore[arg-type]\n        if modified and self.on_update is not None:\n            self.on_update(self)\n        return rv",
            "        if key not in self:\n            if default is _missing:\n                raise KeyError(key)\n            return default\n        rv = super().pop(key)\n        callback = self.on_update\n        if callback is not None:\n            callback(self)\n        return rv"),
        (M, "        modified = key not in self\n        rv = super().setdefault(key, default)  # type: ignore[arg-type]\n        if modified and self.on_update is not None:\n            self.on_update(self)\n        return rv",
            "        if key in self:\n            return super().__getitem__(key)\n        super().__setitem__(key, default)  # type: ignore[assignment]\n        if self.on_update is not None:\n            self.on_update(self)\n        return default  # type: ignore[return-value]"),
    ]},
    {"name": "always-update-wraps-decorator-early-return", "edits": [
        (M, "        rv = f(self, *args, **kwargs)\n\n        if self.on_update is not None:\n            self.on_update(self)\n\n        return rv\n\n    return update_wrapper(wrapper, f)  # type: ignore[return-value]",
            "        result = f(self, *args, **kwargs)\n        notify = self.on_update\n\n        if notify is None:\n            return result\n\n        notify(self)\n        return result\n\n    update_wrapper(wrapper, f)\n    return wrapper  # type: ignore[return-value]"),
    ]},
    {"name": "wwwauth-trigger-renamed-bound-method-callback", "edits": [
        (A, "    def _trigger_on_update(self) -> None:\n        if self._on_update is not None:\n            self._on_update(self)", "    def _trigger_on_update(self) -> None:\n        hook = self._on_update\n        if hook is None:\n            return\n        hook(self)\n\n    def _child_changed(self, _child: t.Any) -> None:\n        self._trigger_on_update()"),
        (A, "        self._parameters: dict[str, str | None] = CallbackDict(\n            values, lambda _: self._trigger_on_update()\n        )", "        self._parameters: dict[str, str | None] = CallbackDict(\n            values, on_update=self._child_changed\n        )"),
    ]},
    {"name": "content-range-set-tuple-assignment-alias", "edits": [
        (RG, "        self._units: str | None = units\n        self._start: int | None = start\n        self._stop: int | None = stop\n        self._length: int | None = length\n        if self.on_update is not None:\n            self.on_update(self)",
             "        self._units, self._start = units, start\n        self._stop, self._length = stop, length\n        callback = self.on_update\n        if callback is None:\n            return\n        callback(self)"),
        (RG, "        instance.__dict__[self.attr] = value\n\n        if instance.on_update is not None:\n            instance.on_update(instance)", "        vars(instance)[self.attr] = value\n        notify = instance.on_update\n\n        if notify is not None:\n            notify(instance)"),
    ]},
    {"name": "response-callbacks-renamed-pop-set", "edits": [
        (R, "        def on_update(header_set: HeaderSet) -> None:\n            if not header_set and name in self.headers:\n                del self.headers[name]\n            elif header_set:\n                self.headers[name] = header_set.to_header()\n\n        return parse_set_header(self.headers.get(name), on_update)",
            "        headers = self.headers\n\n        def write_back(hs: HeaderSet) -> None:\n            if hs:\n                headers.set(name, hs.to_header())\n            else:\n                headers.pop(name, None)\n\n        return parse_set_header(headers.get(name), write_back)"),
        (R, "        def on_update(rng: ContentRange) -> None:\n            if not rng:\n                del self.headers[\"content-range\"]\n            else:\n                self.headers[\"Content-Range\"] = rng.to_header()\n\n        rv = parse_content_range_header(self.headers.get(\"content-range\"), on_update)",
            "        def sync(rng: ContentRange) -> None:\n            if rng:\n                self.headers[\"Content-Range\"] = rng.to_header()\n                return\n            del self.headers[\"content-range\"]\n\n        on_update = sync\n        rv = parse_content_range_header(self.headers.get(\"content-range\"), on_update)"),
    ]},
    {"name": "cache-value-flags-and-renamed-params", "edits": [
        (CC, "        self, key: str, value: t.Any, type: type[t.Any] | None\n    ) -> None:\n        \"\"\"Used internally by the accessor properties.\"\"\"\n        if type is bool:\n            if value:\n                self[key] = None\n            else:\n                self.pop(key, None)\n        elif value is None or value is False:\n            self.pop(key, None)\n        elif value is True:\n            self[key] = None\n        else:\n            if type is not None:\n                value = type(value)\n\n            self[key] = str(value)",
             "        self, key: str, val: t.Any, kind: t.Any\n    ) -> None:\n        \"\"\"Used internally by the accessor properties.\"\"\"\n        if kind is bool:\n            remove = not val\n            valueless = True\n        else:\n            remove = val is None or val is False\n            valueless = val is True\n        if remove:\n            self.pop(key, None)\n            return\n        if valueless:\n            self[key] = None\n            return\n        converted = val if kind is None else kind(val)\n        self[key] = str(converted)"),
    ]},
    {"name": "setattr-guard-clause-object-setattr-type-setter-local", "edits": [
        (A, "        if name in {\n            \"type\",\n            \"parameters\",\n            \"token\",\n            \"_type\",\n            \"_parameters\",\n            \"_token\",\n            \"_on_update\",\n        }:\n            super().__setattr__(name, value)\n        else:\n            self[name] = value",
            "        if name not in (\n            \"type\",\n            \"parameters\",\n            \"token\",\n            \"_type\",\n            \"_parameters\",\n            \"_token\",\n            \"_on_update\",\n        ):\n            self[name] = value\n            return\n        object.__setattr__(self, name, value)"),
        (A, "        self._type = value.lower()\n        self._trigger_on_update()", "        scheme = value.lower()\n        self._type = scheme\n        self._trigger_on_update()"),
    ]},
    {"name": "accessor-set-get-through-locals-lambda-params-renamed", "edits": [
        (I, "        if self.dump_func is not None:\n            self.lookup(instance)[self.name] = self.dump_func(value)\n        else:\n            self.lookup(instance)[self.name] = value", "        storage = self.lookup(instance)\n        dump = self.dump_func\n        storage[self.name] = value if dump is None else dump(value)"),
        (R, "        load_func=lambda value: COEP(value),\n        dump_func=lambda value: value.value,", "        load_func=COEP,\n        dump_func=lambda policy: policy.value,"),
    ]},
]


def _derive(twin_name, repl):
    tw = next(t for t in ROUND2_TWINS if t["name"] == twin_name)
    out = []
    hit = 0
    for rel, old, new in tw["edits"]:
        for a, b in repl:
            if a in new:
                assert new.count(a) == 1, (twin_name, a)
                new = new.replace(a, b)
                hit += 1
        out.append((rel, old, new))
    assert hit == len(repl), (twin_name, hit)
    return out


ROUND2_MUTANTS = [
    {"name": "shape:module-level-notify-does-nothing", "expect": "R16.2", "edits": _derive("headerset-module-level-notify-truthiness", [("    if cb:\n        cb(hs)", "    if cb:\n        pass")])},
    {"name": "shape:accumulator-never-filled", "expect": "R16.2", "edits": _derive("headerset-update-accumulator-list", [("            added.append(header)\n", "")])},
    {"name": "shape:insert-helper-flag-lost", "expect": "R16.2", "edits": _derive("headerset-update-insert-helper-returns-flag", [("self._insert(header, header.lower()) or changed", "self._insert(header, header.lower()) and changed")])},
    {"name": "shape:insert-helper-guard-dropped", "expect": "R16.2", "edits": _derive("headerset-update-insert-helper-returns-flag", [("        if folded in self._set:\n            return False\n", "")])},
    {"name": "shape:pop-early-return-forgets-callback", "expect": "R16.1", "edits": _derive("updatedict-pop-setdefault-early-return", [("        if callback is not None:\n            callback(self)\n        return rv", "        return rv")])},
    {"name": "shape:setdefault-notifies-before-store", "expect": "R16.1", "edits": _derive("updatedict-pop-setdefault-early-return", [("        super().__setitem__(key, default)  # type: ignore[assignment]\n        if self.on_update is not None:\n            self.on_update(self)\n", "        if self.on_update is not None:\n            self.on_update(self)\n        super().__setitem__(key, default)  # type: ignore[assignment]\n")])},
    {"name": "shape:wrapper-early-return-inverted", "expect": "R16.1", "edits": _derive("always-update-wraps-decorator-early-return", [("        if notify is None:\n            return result", "        if notify is not None:\n            return result")])},
    {"name": "shape:child-callback-does-not-trigger", "expect": "R16.3", "edits": _derive("wwwauth-trigger-renamed-bound-method-callback", [("    def _child_changed(self, _child: t.Any) -> None:\n        self._trigger_on_update()", "    def _child_changed(self, _child: t.Any) -> None:\n        pass")])},
    {"name": "shape:trigger-hook-guard-inverted", "expect": "R16.3", "edits": _derive("wwwauth-trigger-renamed-bound-method-callback", [("        if hook is None:\n            return\n        hook(self)", "        if hook is not None:\n            return\n        hook(self)")])},
    {"name": "shape:content-range-set-returns-before-callback", "expect": "R16.3", "edits": _derive("content-range-set-tuple-assignment-alias", [("        if callback is None:\n            return\n        callback(self)", "        if callback is not None:\n            return\n        callback(self)")])},
    {"name": "shape:descriptor-notifies-before-store", "expect": "R16.3", "edits": _derive("content-range-set-tuple-assignment-alias", [("        vars(instance)[self.attr] = value\n        notify = instance.on_update\n\n        if notify is not None:\n            notify(instance)", "        notify = instance.on_update\n\n        if notify is not None:\n            notify(instance)\n        vars(instance)[self.attr] = value")])},
    {"name": "shape:renamed-callback-leaves-empty-header", "expect": "R16.5", "edits": _derive("response-callbacks-renamed-pop-set", [("            else:\n                headers.pop(name, None)", "            else:\n                pass")])},
    {"name": "shape:renamed-callback-writes-other-header", "expect": "R16.5", "edits": _derive("response-callbacks-renamed-pop-set", [("                self.headers[\"Content-Range\"] = rng.to_header()\n                return", "                self.headers[\"Content-Length\"] = rng.to_header()\n                return")])},
    {"name": "shape:aliased-callback-not-passed", "expect": "R16.5", "edits": _derive("response-callbacks-renamed-pop-set", [("        return parse_set_header(headers.get(name), write_back)", "        return parse_set_header(headers.get(name))")])},
    {"name": "shape:cache-flags-false-no-longer-removes", "expect": "R16.6", "edits": _derive("cache-value-flags-and-renamed-params", [("            remove = val is None or val is False", "            remove = val is None")])},
    {"name": "shape:guard-clause-forgets-token", "expect": "R16.4", "edits": _derive("setattr-guard-clause-object-setattr-type-setter-local", [("            \"token\",\n            \"_type\",", "            \"_type\",")])},
    {"name": "shape:type-setter-local-raw", "expect": "R16.7", "edits": _derive("setattr-guard-clause-object-setattr-type-setter-local", [("        scheme = value.lower()", "        scheme = value")])},
    {"name": "shape:accessor-dump-condition-flipped", "expect": "R16.6", "edits": _derive("accessor-set-get-through-locals-lambda-params-renamed", [("value if dump is None else dump(value)", "dump(value) if dump is None else value")])},
    {"name": "shape:dump-lambda-returns-object", "expect": "R16.6", "edits": _derive("accessor-set-get-through-locals-lambda-params-renamed", [("lambda policy: policy.value", "lambda policy: policy")])},
]
ROUND2_TWINS.append({"name": "cache-control-callback-is-a-method", "edits": [
    (R, "        def on_update(cache_control: _CacheControl) -> None:\n            if not cache_control and \"cache-control\" in self.headers:\n                del self.headers[\"cache-control\"]\n            elif cache_control:\n                self.headers[\"Cache-Control\"] = cache_control.to_header()\n\n        return parse_cache_control_header(\n            self.headers.get(\"cache-control\"), on_update, ResponseCacheControl\n        )",
        "        return parse_cache_control_header(\n            self.headers.get(\"cache-control\"),\n            self._store_cache_control,\n            ResponseCacheControl,\n        )\n\n    def _store_cache_control(self, cache_control: _CacheControl) -> None:\n        if cache_control:\n            self.headers[\"Cache-Control\"] = cache_control.to_header()\n        elif \"cache-control\" in self.headers:\n            del self.headers[\"cache-control\"]"),
]})
ROUND2_MUTANTS.append({"name": "shape:method-callback-never-deletes", "expect": "R16.5", "edits": _derive("cache-control-callback-is-a-method", [("        elif \"cache-control\" in self.headers:\n            del self.headers[\"cache-control\"]", "        elif \"cache-control\" in self.headers:\n            pass")])})
ROUND2_TWINS.append({"name": "content-range-to-header-length-through-local", "edits": [
    (RG, "        if self._length is None:\n            length: str | int = \"*\"\n        else:\n            length = self._length\n", "        total = self._length\n        length: str | int = \"*\" if total is None else total\n"),
]})
ROUND2_MUTANTS.append({"name": "shape:length-local-or-star", "expect": "R16.3", "edits": _derive("content-range-to-header-length-through-local", [("\"*\" if total is None else total", "total or \"*\"")])})
ROUND2_TWINS.append({"name": 'update-star-ifexp', "edits": [(M, '        if arg is None:\n            super().update(**kwargs)\n        else:\n            super().update(arg, **kwargs)', '        super().update(*(() if arg is None else (arg,)), **kwargs)')]})
ROUND2_TWINS.append({"name": 'remove-via-find', "edits": [(S, '        key = header.lower()\n        if key not in self._set:\n            raise KeyError(header)\n        self._set.remove(key)\n        for idx, item in enumerate(self._headers):\n            if item.lower() == key:\n                del self._headers[idx]\n                break\n        if self.on_update is not None:', '        idx = self.find(header)\n        if idx < 0:\n            raise KeyError(header)\n        del self._headers[idx]\n        self._set.remove(header.lower())\n        if self.on_update is not None:')]})
ROUND2_TWINS.append({"name": 'wwwauth-setitem-params-local', "edits": [(A, '        if value is None:\n            if key in self.parameters:\n                del self.parameters[key]\n        else:\n            self.parameters[key] = value\n\n        self._trigger_on_update()', '        params = self.parameters\n        if value is None:\n            params.pop(key, None)\n        else:\n            params[key] = value\n\n        self._trigger_on_update()')]})
ROUND2_TWINS.append({"name": 'www-authenticate-getter-or', "edits": [(R, '        value = WWWAuthenticate.from_header(self.headers.get("WWW-Authenticate"))\n\n        if value is None:\n            value = WWWAuthenticate("basic")\n\n        def on_update', '        value = WWWAuthenticate.from_header(\n            self.headers.get("WWW-Authenticate")\n        ) or WWWAuthenticate("basic")\n\n        def on_update')]})
ROUND2_TWINS.append({"name": 'headerset-update-walrus-key', "edits": [(S, '            key = header.lower()\n            if key not in self._set:\n                self._headers.append(header)\n                self._set.add(key)\n                inserted_any = True', '            if (key := header.lower()) not in self._set:\n                self._set.add(key)\n                self._headers.append(header)\n                inserted_any = True')]})
TWINS = TWINS + ROUND2_TWINS
MUTANTS = MUTANTS + ROUND2_MUTANTS

# ---------------------------------------------------------------------------------------------------------------------
# detection round (blind seeds E-G): removal half of the HeaderSet pairing (R16.2), replacing write-backs and case-folded
# name comparisons behind them (R16.8), falsy view = nothing to serialise (R16.9)
HD = "datastructures/headers.py"
_DELITEM = "        rv = self._headers.pop(idx)\n        self._set.remove(rv.lower())"
_REMOVE_LOOP = "        for idx, item in enumerate(self._headers):\n            if item.lower() == key:\n                del self._headers[idx]\n                break"
_SETITEM = "        old = self._headers[idx]\n        self._set.remove(old.lower())\n        self._headers[idx] = value\n        self._set.add(value.lower())"
_CC_WRITE = 'self.headers["Cache-Control"] = cache_control.to_header()'

def _derive3(twin_name, repl):
    tw = next(t for t in ROUND3_TWINS if t["name"] == twin_name)
    out = []
    hit = 0
    for rel, old, new in tw["edits"]:
        for a, b in repl:
            if a in new:
                assert new.count(a) == 1, (twin_name, a)
                new = new.replace(a, b)
                hit += 1
        out.append((rel, old, new))
    assert hit == len(repl), (twin_name, hit)
    return out


ROUND3_TWINS = [
    # --- R16.2 removal pairing
    {"name": "delitem-read-del-discard", "edits": [(S, _DELITEM, "        rv = self._headers[idx]\n        del self._headers[idx]\n        self._set.discard(rv.lower())")]},
    {"name": "delitem-set-first", "edits": [(S, _DELITEM, "        self._set.remove(self._headers[idx].lower())\n        del self._headers[idx]")]},
    {"name": "remove-filter-rebuild", "edits": [(S, _REMOVE_LOOP, "        self._headers = [h for h in self._headers if h.lower() != key]")]},
    {"name": "remove-next-search", "edits": [(S, _REMOVE_LOOP, "        found = next(h for h in self._headers if h.lower() == key)\n        self._headers.remove(found)")]},
    {"name": "remove-plain-loop-list-remove", "edits": [(S, _REMOVE_LOOP, "        for item in self._headers:\n            if key == item.lower():\n                self._headers.remove(item)\n                break")]},
    {"name": "setitem-key-through-local", "edits": [(S, _SETITEM, "        dropped = self._headers[idx].lower()\n        self._headers[idx] = value\n        self._set.discard(dropped)\n        self._set.add(value.lower())")]},
    # --- R16.8
    {"name": "headers-set-remaining-filter-loop", "edits": [(HD, "        self._list[idx + 1 :] = [t for t in iter_list if t[0].lower() != ikey]", "        rest = []\n        for item in iter_list:\n            if item[0].lower() == ikey:\n                continue\n            rest.append(item)\n        self._list[idx + 1 :] = rest")]},
    {"name": "headers-set-folded-name-local", "edits": [(HD, "            if old_key.lower() == ikey:", "            folded = old_key.lower()\n            if ikey == folded:")]},
    {"name": "headers-del-key-comprehension", "edits": [(HD, "        key = key.lower()\n        new = []\n\n        for k, v in self._list:\n            if k.lower() != key:\n                new.append((k, v))\n\n        self._list[:] = new", "        wanted = key.lower()\n        self._list[:] = [(k, v) for k, v in self._list if not k.lower() == wanted]")]},
    {"name": "cache-control-callback-calls-set", "edits": [(R, _CC_WRITE, 'self.headers.set("Cache-Control", cache_control.to_header())')]},
    # --- R16.9
    {"name": "content-range-bool-if-return", "edits": [(RG, "    def __bool__(self) -> bool:\n        return self._units is not None", "    def __bool__(self) -> bool:\n        if self._units is None:\n            return False\n        return True")]},
    {"name": "headerset-bool-len-positive-genexp-header", "edits": [
        (S, "    def __bool__(self) -> bool:\n        return bool(self._set)", "    def __bool__(self) -> bool:\n        return len(self._set) > 0"),
        (S, '        return ", ".join(map(http.quote_header_value, self._headers))', '        return ", ".join(http.quote_header_value(x) for x in self._headers)'),
    ]},
    {"name": "headerset-bool-of-list", "edits": [(S, "    def __bool__(self) -> bool:\n        return bool(self._set)", "    def __bool__(self) -> bool:\n        return bool(self._headers)")]},
    {"name": "wwwauth-iter-without-len", "edits": [(A, "    def __contains__(self, key: str) -> bool:\n        return key in self.parameters\n\n    def __eq__(self, other: object) -> bool:\n        if not isinstance(other, WWWAuthenticate):", "    def __contains__(self, key: str) -> bool:\n        return key in self.parameters\n\n    def __iter__(self) -> t.Iterator[str]:\n        return iter(self.parameters)\n\n    def __eq__(self, other: object) -> bool:\n        if not isinstance(other, WWWAuthenticate):")]},
    {"name": "content-range-to-header-not-self", "edits": [(RG, '        if self._units is None:\n            return ""', '        if not self:\n            return ""')]},
]
_WA_ANCHOR = "    def __eq__(self, other: object) -> bool:\n        if not isinstance(other, WWWAuthenticate):"
ROUND3_MUTANTS = [
    # --- R16.2 removal pairing
    {"name": "setitem-drops-the-new-key", "expect": "R16.2", "edits": [(S, "        old = self._headers[idx]\n        self._set.remove(old.lower())", "        old = self._headers[idx]\n        self._set.discard(value.lower())")]},
    {"name": "remove-drops-raw-header", "expect": "R16.2", "edits": [(S, "        self._set.remove(key)\n        for idx, item in enumerate(self._headers):", "        self._set.discard(header)\n        for idx, item in enumerate(self._headers):")]},
    {"name": "delitem-forgets-the-set", "expect": "R16.2", "edits": [(S, _DELITEM, "        self._headers.pop(idx)")]},
    {"name": "delitem-upper-cased-key", "expect": "R16.2", "edits": [(S, _DELITEM, "        rv = self._headers.pop(idx)\n        self._set.discard(rv.upper())")]},
    {"name": "clear-keeps-the-keys", "expect": "R16.2", "edits": [(S, "        self._set.clear()\n        self._headers.clear()", "        self._headers.clear()")]},
    {"name": "setitem-reads-old-after-store", "expect": "R16.2", "edits": [(S, _SETITEM, "        self._headers[idx] = value\n        old = self._headers[idx]\n        self._set.remove(old.lower())\n        self._set.add(value.lower())")]},
    {"name": "shape:read-del-discard-title-cased", "expect": "R16.2", "edits": [(S, _DELITEM, "        rv = self._headers[idx]\n        del self._headers[idx]\n        self._set.discard(rv.title())")]},
    {"name": "shape:filter-rebuild-on-raw-header", "expect": "R16.2", "edits": [(S, _REMOVE_LOOP, "        self._headers = [h for h in self._headers if h.lower() != header]")]},
    {"name": "shape:next-search-for-another-key", "expect": "R16.2", "edits": [(S, _REMOVE_LOOP, "        found = next(h for h in self._headers if h == header)\n        self._headers.remove(found)")]},
    # --- R16.8
    {"name": "headers-set-first-match-raw-name", "expect": "R16.8", "edits": [(HD, "            if old_key.lower() == ikey:", "            if old_key == ikey:")]},
    {"name": "headers-set-remaining-filter-raw-key", "expect": "R16.8", "edits": [(HD, "if t[0].lower() != ikey]", "if t[0].lower() != key]")]},
    {"name": "headers-del-key-key-not-folded", "expect": "R16.8", "edits": [(HD, "        key = key.lower()\n        new = []", "        new = []")]},
    {"name": "headers-get-key-raw-name", "expect": "R16.8", "edits": [(HD, "        for k, v in self._list:\n            if k.lower() == ikey:\n                return v", "        for k, v in self._list:\n            if k == ikey:\n                return v")]},
    {"name": "cache-control-callback-adds-a-line", "expect": "R16.8", "edits": [(R, _CC_WRITE, 'self.headers.add("Cache-Control", cache_control.to_header())')]},
    {"name": "set-property-callback-setdefault", "expect": "R16.8", "edits": [(R, "                self.headers[name] = header_set.to_header()", "                self.headers.setdefault(name, header_set.to_header())")]},
    {"name": "www-authenticate-setter-adds", "expect": "R16.8", "edits": [(R, '            self.headers.set("WWW-Authenticate", value.to_header())\n\n            def on_update', '            self.headers.add("WWW-Authenticate", value.to_header())\n\n            def on_update')]},
    {"name": "shape:remaining-filter-loop-raw-name", "expect": "R16.8", "edits": [(HD, "        self._list[idx + 1 :] = [t for t in iter_list if t[0].lower() != ikey]", "        rest = []\n        for item in iter_list:\n            if item[0] == ikey:\n                continue\n            rest.append(item)\n        self._list[idx + 1 :] = rest")]},
    # --- R16.9
    {"name": "wwwauth-bool-of-parameters", "expect": "R16.9", "edits": [(A, _WA_ANCHOR, "    def __bool__(self) -> bool:\n        return bool(self.parameters)\n\n" + _WA_ANCHOR)]},
    {"name": "wwwauth-len-of-private-dict", "expect": "R16.9", "edits": [(A, _WA_ANCHOR, "    def __len__(self) -> int:\n        return len(self._parameters)\n\n" + _WA_ANCHOR)]},
    {"name": "wwwauth-bool-token-or-parameters", "expect": "R16.9", "edits": [(A, _WA_ANCHOR, "    def __bool__(self) -> bool:\n        return self._token is not None or len(self._parameters) > 0\n\n" + _WA_ANCHOR)]},
    {"name": "content-range-bool-on-start", "expect": "R16.9", "edits": [(RG, "    def __bool__(self) -> bool:\n        return self._units is not None", "    def __bool__(self) -> bool:\n        return self._start is not None")]},
    {"name": "headerset-bool-needs-two-items", "expect": "R16.9", "edits": [(S, "    def __bool__(self) -> bool:\n        return bool(self._set)", "    def __bool__(self) -> bool:\n        return len(self._headers) > 1")]},
]
ROUND3_TWINS += [
    {"name": "clear-rebinds-both", "edits": [(S, "        self._set.clear()\n        self._headers.clear()", "        self._headers = []\n        self._set = set()")]},
    {"name": "delitem-drop-key-helper", "edits": [(S, _DELITEM + "\n", "        self._drop_key(self._headers.pop(idx))\n"), (S, "    def __getitem__(self, idx: t.SupportsIndex) -> str:", "    def _drop_key(self, item: str) -> None:\n        self._set.discard(item.lower())\n\n    def __getitem__(self, idx: t.SupportsIndex) -> str:")]},
    {"name": "headerset-bool-len-of-self", "edits": [(S, "    def __bool__(self) -> bool:\n        return bool(self._set)", "    def __bool__(self) -> bool:\n        return len(self) != 0")]},
    {"name": "set-property-callback-unannotated", "edits": [(R, "        def on_update(header_set: HeaderSet) -> None:", "        def on_update(header_set):  # type: ignore[no-untyped-def]")]},
]
ROUND3_MUTANTS += [
    {"name": "shape:drop-key-helper-raw", "expect": "R16.2", "edits": _derive3("delitem-drop-key-helper", [("self._set.discard(item.lower())", "self._set.discard(item)")])},
    {"name": "shape:rebinding-clear-forgets-set", "expect": "R16.2", "edits": _derive3("clear-rebinds-both", [("        self._headers = []\n        self._set = set()", "        self._headers = []")])},
]
TWINS = TWINS + ROUND3_TWINS
MUTANTS = MUTANTS + ROUND3_MUTANTS

# ---------------------------------------------------------------------------------------------------------------------
# robustness round 3 (held-out set 7-9): decision and action separated - what to store is computed into a local first,
# a sentinel (module-level private object, a local object(), Ellipsis, a tag / flag) meaning "remove", then one single
# pop-or-assign; identity with the sentinel is decided by which binding reached the test
_CV_CHAIN = (
    "        if type is bool:\n            if value:\n                self[key] = None\n            else:\n                self.pop(key, None)\n"
    "        elif value is None or value is False:\n            self.pop(key, None)\n        elif value is True:\n            self[key] = None\n        else:\n"
    "            if type is not None:\n                value = type(value)\n\n            self[key] = str(value)\n"
)
_CV_IMPORT = ("from .mixins import ImmutableDictMixin\n", "from .._internal import _missing\nfrom .mixins import ImmutableDictMixin\n")
_CV_DECIDE = (
    "        if type is bool:\n            stored = None if value else _missing\n        elif value is None or value is False:\n            stored = _missing\n"
    "        elif value is True:\n            stored = None\n        else:\n            stored = str(value if type is None else type(value))\n\n"
)
_CV_APPLY = "        if stored is _missing:\n            self.pop(key, None)\n        else:\n            self[key] = stored\n"
_CV_SENTINEL = _CV_DECIDE + _CV_APPLY
_CV_DEFAULT_FIRST = (
    "        stored: t.Any = _missing\n\n        if type is bool:\n            if value:\n                stored = None\n        elif value is True:\n            stored = None\n"
    "        elif value is not None and value is not False:\n            if type is not None:\n                value = type(value)\n            stored = str(value)\n\n"
    "        if stored is not _missing:\n            self[key] = stored\n        else:\n            self.pop(key, None)\n"
)
_CV_HELPER = (
    "        if type is bool:\n            self._apply(key, None if value else _missing)\n        elif value is None or value is False:\n            self._apply(key, _missing)\n"
    "        elif value is True:\n            self._apply(key, None)\n        else:\n            self._apply(key, str(value if type is None else type(value)))\n\n"
    "    def _apply(self, key: str, stored: t.Any) -> None:\n" + _CV_APPLY
)
_CV_TAG = (
    "        if type is bool:\n            action, stored = (\"set\", None) if value else (\"remove\", None)\n        elif value is None or value is False:\n            action, stored = \"remove\", None\n"
    "        elif value is True:\n            action, stored = \"set\", None\n        else:\n            action, stored = \"set\", str(value if type is None else type(value))\n\n"
    "        if action == \"remove\":\n            self.pop(key, None)\n        else:\n            self[key] = stored\n"
)
_CR_CB = "        def on_update(rng: ContentRange) -> None:\n            if not rng:\n                del self.headers[\"content-range\"]\n            else:\n                self.headers[\"Content-Range\"] = rng.to_header()\n"
_CR_CB_SENTINEL = (
    "        def on_update(rng: ContentRange) -> None:\n            text = rng.to_header() if rng else _missing\n\n            if text is _missing:\n"
    "                del self.headers[\"content-range\"]\n            else:\n                self.headers[\"Content-Range\"] = text\n"
)
_CSP_CB = "        def on_update(csp: ContentSecurityPolicy) -> None:\n            if not csp:\n                del self.headers[\"content-security-policy\"]\n            else:\n                self.headers[\"Content-Security-Policy\"] = csp.to_header()\n\n        rv = parse_csp_header(self.headers.get(\"content-security-policy\"), on_update)\n"
_CSP_CB_SENTINEL = (
    "        def on_update(csp: ContentSecurityPolicy) -> None:\n            text = csp.to_header() if csp else _missing\n\n            if text is not _missing:\n"
    "                self.headers[\"Content-Security-Policy\"] = text\n            else:\n                del self.headers[\"content-security-policy\"]\n\n        rv = parse_csp_header(self.headers.get(\"content-security-policy\"), on_update)\n"
)
_R_IMPORT = ("from ..utils import header_property\n", "from ..utils import header_property\nfrom .._internal import _missing\n")
_WA_SETITEM = "        if value is None:\n            if key in self.parameters:\n                del self.parameters[key]\n        else:\n            self.parameters[key] = value\n\n        self._trigger_on_update()\n"

ROUND4_TWINS = [
    {"name": "cache-value-sentinel-local-then-single-action", "edits": [(CC, _CV_CHAIN, _CV_SENTINEL), (CC,) + _CV_IMPORT]},
    {"name": "cache-value-sentinel-default-first-positive-test", "edits": [(CC, _CV_CHAIN, _CV_DEFAULT_FIRST), (CC,) + _CV_IMPORT]},
    {"name": "cache-value-sentinel-early-return-after-remove", "edits": [(CC, _CV_CHAIN, _CV_DECIDE + "        if stored is _missing:\n            self.pop(key, None)\n            return\n\n        self[key] = stored\n"), (CC,) + _CV_IMPORT]},
    {"name": "cache-value-sentinel-handed-to-apply-method", "edits": [(CC, _CV_CHAIN, _CV_HELPER), (CC,) + _CV_IMPORT]},
    {"name": "cache-value-sentinel-compared-with-eq", "edits": [(CC, _CV_CHAIN, _CV_SENTINEL.replace("stored is _missing", "stored == _missing")), (CC,) + _CV_IMPORT]},
    {"name": "cache-value-module-private-remove-marker", "edits": [
        (CC, _CV_CHAIN, _CV_SENTINEL.replace("_missing", "_REMOVE")),
        (CC, "class _CacheControl(CallbackDict[str, t.Optional[str]]):\n", "class _Remove:\n    pass\n\n\n_REMOVE = _Remove()\n\n\nclass _CacheControl(CallbackDict[str, t.Optional[str]]):\n"),
    ]},
    {"name": "cache-value-local-object-marker", "edits": [(CC, _CV_CHAIN, "        remove = object()\n\n" + _CV_SENTINEL.replace("_missing", "remove"))]},
    {"name": "cache-value-ellipsis-marker", "edits": [(CC, _CV_CHAIN, _CV_SENTINEL.replace("_missing", "..."))]},
    {"name": "cache-value-action-tag-and-value-tuple", "edits": [(CC, _CV_CHAIN, _CV_TAG)]},
    {"name": "content-range-writeback-sentinel-local", "edits": [(R, _CR_CB, _CR_CB_SENTINEL), (R,) + _R_IMPORT]},
    {"name": "csp-writeback-sentinel-local-positive-test", "edits": [(R, _CSP_CB, _CSP_CB_SENTINEL), (R,) + _R_IMPORT]},
    {"name": "wwwauth-setitem-sentinel-local-pop", "edits": [
        (A, _WA_SETITEM, "        stored = _missing if value is None else value\n\n        if stored is _missing:\n            self.parameters.pop(key, None)\n        else:\n            self.parameters[key] = stored\n\n        self._trigger_on_update()\n"),
        (A, "import typing as t\n", "import typing as t\n\nfrom .._internal import _missing\n"),
    ]},
]


def _derive4(twin_name, repl):
    base = next(t_ for t_ in ROUND4_TWINS if t_["name"] == twin_name)
    out = []
    hit = 0
    for f, old, new in base["edits"]:
        for a, b in repl:
            if a in new:
                assert new.count(a) == 1, (twin_name, a)
                new = new.replace(a, b)
                hit += 1
        out.append((f, old, new))
    assert hit == len(repl), (twin_name, repl)
    return out


ROUND4_MUTANTS = [
    {"name": "shape:sentinel-arms-swapped-for-bool-directive", "expect": "R16.6", "edits": _derive4("cache-value-sentinel-local-then-single-action", [("stored = None if value else _missing", "stored = _missing if value else None")])},
    {"name": "shape:sentinel-test-negated", "expect": "R16.6", "edits": _derive4("cache-value-sentinel-local-then-single-action", [("        if stored is _missing:\n", "        if stored is not _missing:\n")])},
    {"name": "shape:sentinel-stored-for-true", "expect": "R16.6", "edits": _derive4("cache-value-sentinel-local-then-single-action", [("        elif value is True:\n            stored = None\n", "        elif value is True:\n            stored = _missing\n")])},
    {"name": "shape:sentinel-false-no-longer-removes", "expect": "R16.6", "edits": _derive4("cache-value-sentinel-local-then-single-action", [("elif value is None or value is False:", "elif value is None:")])},
    {"name": "shape:sentinel-value-stored-without-str", "expect": "R16.6", "edits": _derive4("cache-value-sentinel-local-then-single-action", [("stored = str(value if type is None else type(value))", "stored = value if type is None else type(value)")])},
    {"name": "shape:default-first-forgets-true", "expect": "R16.6", "edits": _derive4("cache-value-sentinel-default-first-positive-test", [("        elif value is True:\n            stored = None\n", ""), ("elif value is not None and value is not False:", "elif value is not None and value is not False and value is not True:")])},
    {"name": "shape:apply-method-gets-sentinel-for-true", "expect": "R16.6", "edits": _derive4("cache-value-sentinel-handed-to-apply-method", [("        elif value is True:\n            self._apply(key, None)\n", "        elif value is True:\n            self._apply(key, _missing)\n")])},
    {"name": "shape:local-object-marker-compared-with-a-second-object", "expect": "R16.6", "edits": _derive4("cache-value-local-object-marker", [("        if stored is remove:\n", "        if stored is object():\n")])},
    {"name": "shape:ellipsis-marker-for-truthy-bool", "expect": "R16.6", "edits": _derive4("cache-value-ellipsis-marker", [("stored = None if value else ...", "stored = ... if value else None")])},
    {"name": "shape:action-tag-misspelled", "expect": "R16.6", "edits": _derive4("cache-value-action-tag-and-value-tuple", [("        if action == \"remove\":\n", "        if action == \"delete\":\n")])},
    {"name": "shape:content-range-writeback-sentinel-test-flipped", "expect": "R16.5", "edits": _derive4("content-range-writeback-sentinel-local", [("            if text is _missing:\n", "            if text is not _missing:\n")])},
    {"name": "shape:csp-writeback-sentinel-arms-swapped", "expect": "R16.5", "edits": _derive4("csp-writeback-sentinel-local-positive-test", [("text = csp.to_header() if csp else _missing", "text = _missing if csp else csp.to_header()")])},
]
TWINS = TWINS + ROUND4_TWINS
MUTANTS = MUTANTS + ROUND4_MUTANTS

# ---------------------------------------------------------------------------------------------------------------------
# round 5 (blind seed C16-I): read side of the typed properties - the default is returned only for an absent key, a
# present header reads back as its loaded value whatever its text (presence by membership / `is None` / sentinel /
# KeyError, never by truthiness of the stored text)
_GET_PRESENCE = "        if self.name not in storage:\n            return self.default  # type: ignore\n\n        value = storage[self.name]\n"
ROUND5_TWINS = [
    {"name": "accessor-get-eafp-keyerror", "edits": [(I, _GET_PRESENCE, "        try:\n            value = storage[self.name]\n        except KeyError:\n            return self.default  # type: ignore\n")]},
    {"name": "accessor-get-get-is-none", "edits": [(I, _GET_PRESENCE, "        value = storage.get(self.name)\n\n        if value is None:\n            return self.default  # type: ignore\n")]},
    {"name": "accessor-get-sentinel-fallback", "edits": [(I, _GET_PRESENCE, "        value = storage.get(self.name, _missing)\n\n        if value is _missing:\n            return self.default  # type: ignore\n")]},
    {"name": "accessor-get-presence-helper-flipped", "edits": [
        (I, _GET_PRESENCE, "        if not self._present(storage):\n            return self.default  # type: ignore\n\n        value = storage[self.name]\n"),
        (I, "    def __set__(self, instance: t.Any, value: _TAccessorValue) -> None:", "    def _present(self, storage: t.Any) -> bool:\n        return self.name in storage\n\n    def __set__(self, instance: t.Any, value: _TAccessorValue) -> None:"),
    ]},
    {"name": "accessor-get-positive-branch-default-last", "edits": [(I,
        "        if self.name not in storage:\n            return self.default  # type: ignore\n\n        value = storage[self.name]\n\n        if self.load_func is not None:\n            try:\n                return self.load_func(value)\n            except (ValueError, TypeError):\n                return self.default  # type: ignore\n\n        return value  # type: ignore\n",
        "        if self.name in storage:\n            value = storage[self.name]\n\n            if self.load_func is None:\n                return value  # type: ignore\n\n            try:\n                return self.load_func(value)\n            except (ValueError, TypeError):\n                pass\n\n        return self.default  # type: ignore\n")]},
]
ROUND5_MUTANTS = [
    {"name": "accessor-get-truthiness-of-get", "expect": "R16.6", "edits": [(I, _GET_PRESENCE, "        if not storage.get(self.name):\n            return self.default  # type: ignore\n\n        value = storage[self.name]\n")]},
    {"name": "accessor-get-none-or-empty-length", "expect": "R16.6", "edits": [(I, _GET_PRESENCE, "        value = storage.get(self.name)\n\n        if value is None or len(value) == 0:\n            return self.default  # type: ignore\n")]},
    {"name": "accessor-get-absent-or-equals-empty-string", "expect": "R16.6", "edits": [(I, _GET_PRESENCE, "        if self.name not in storage or storage[self.name] == \"\":\n            return self.default  # type: ignore\n\n        value = storage[self.name]\n")]},
    {"name": "shape:eafp-then-truthiness", "expect": "R16.6", "edits": [(I, _GET_PRESENCE, "        try:\n            value = storage[self.name]\n        except KeyError:\n            return self.default  # type: ignore\n\n        if not value:\n            return self.default  # type: ignore\n")]},
    {"name": "shape:sentinel-fallback-or-falsy", "expect": "R16.6", "edits": [(I, _GET_PRESENCE, "        value = storage.get(self.name, _missing)\n\n        if value is _missing or not value:\n            return self.default  # type: ignore\n")]},
    {"name": "shape:positive-branch-on-truthy-item", "expect": "R16.6", "edits": [(I,
        "        if self.name not in storage:\n            return self.default  # type: ignore\n\n        value = storage[self.name]\n\n        if self.load_func is not None:\n            try:\n                return self.load_func(value)\n            except (ValueError, TypeError):\n                return self.default  # type: ignore\n\n        return value  # type: ignore\n",
        "        value = storage.get(self.name)\n\n        if value:\n            if self.load_func is None:\n                return value  # type: ignore\n\n            try:\n                return self.load_func(value)\n            except (ValueError, TypeError):\n                pass\n\n        return self.default  # type: ignore\n")]},
]
TWINS = TWINS + ROUND5_TWINS
MUTANTS = MUTANTS + ROUND5_MUTANTS

# ---------------------------------------------------------------------------------------------------------------------
# round 6 (stress of the rules added in the detection rounds - R16.2 removal pairing, R16.8, R16.9, R16.6 presence
# clause - with fresh refactorings in ordinary maintainer style): each twin is a shape that tripped a rule at first
# (or sits next to one), each mutant a defect planted in that shape
ROUND6_TWINS = [
    {"name": 'remove-matching-list-first', "edits": [
        (S, '        key = header.lower()\n        if key not in self._set:\n            raise KeyError(header)\n        self._set.remove(key)\n        for idx, item in enumerate(self._headers):\n            if item.lower() == key:\n                del self._headers[idx]\n                break\n        if self.on_update is not None:\n            self.on_update(self)\n', '        key = header.lower()\n        if key not in self._set:\n            raise KeyError(header)\n        self._set.remove(key)\n        matches = [item for item in self._headers if item.lower() == key]\n        if matches:\n            self._headers.remove(matches[0])\n        if self.on_update is not None:\n            self.on_update(self)\n'),
    ]},
    {"name": 'headerset-to_header-separator-constant', "edits": [
        (S, 'class HeaderSet(cabc.MutableSet[str]):', '_SEPARATOR = ", "\n\n\nclass HeaderSet(cabc.MutableSet[str]):'),
        (S, '        return ", ".join(map(http.quote_header_value, self._headers))\n', '        return _SEPARATOR.join(map(http.quote_header_value, self._headers))\n'),
    ]},
    {"name": 'set-property-callback-text-local', "edits": [
        (R, '        def on_update(header_set: HeaderSet) -> None:\n            if not header_set and name in self.headers:\n                del self.headers[name]\n            elif header_set:\n                self.headers[name] = header_set.to_header()\n', '        def on_update(header_set: HeaderSet) -> None:\n            text = header_set.to_header() if header_set else None\n            if text is not None:\n                self.headers[name] = text\n            elif name in self.headers:\n                del self.headers[name]\n'),
    ]},
    {"name": 'remove-index-via-find-then-pop', "edits": [
        (S, '        key = header.lower()\n        if key not in self._set:\n            raise KeyError(header)\n        self._set.remove(key)\n        for idx, item in enumerate(self._headers):\n            if item.lower() == key:\n                del self._headers[idx]\n                break\n        if self.on_update is not None:\n            self.on_update(self)\n', '        key = header.lower()\n        if key not in self._set:\n            raise KeyError(header)\n        position = self.find(header)\n        self._set.remove(key)\n        if position >= 0:\n            self._headers.pop(position)\n        if self.on_update is not None:\n            self.on_update(self)\n'),
    ]},
    {"name": 'remove-while-index-loop', "edits": [
        (S, '        key = header.lower()\n        if key not in self._set:\n            raise KeyError(header)\n        self._set.remove(key)\n        for idx, item in enumerate(self._headers):\n            if item.lower() == key:\n                del self._headers[idx]\n                break\n        if self.on_update is not None:\n            self.on_update(self)\n', '        key = header.lower()\n        if key not in self._set:\n            raise KeyError(header)\n        self._set.remove(key)\n        idx = 0\n        while idx < len(self._headers):\n            if self._headers[idx].lower() == key:\n                del self._headers[idx]\n                break\n            idx += 1\n        if self.on_update is not None:\n            self.on_update(self)\n'),
    ]},
    {"name": 'remove-extract-drop-from-list-helper', "edits": [
        (S, '        key = header.lower()\n        if key not in self._set:\n            raise KeyError(header)\n        self._set.remove(key)\n        for idx, item in enumerate(self._headers):\n            if item.lower() == key:\n                del self._headers[idx]\n                break\n        if self.on_update is not None:\n            self.on_update(self)\n', '        key = header.lower()\n        if key not in self._set:\n            raise KeyError(header)\n        self._set.remove(key)\n        self._drop_from_list(key)\n        if self.on_update is not None:\n            self.on_update(self)\n\n    def _drop_from_list(self, key: str) -> None:\n        for idx, item in enumerate(self._headers):\n            if item.lower() == key:\n                del self._headers[idx]\n                return\n'),
    ]},
    {"name": 'setitem-key-locals-reordered', "edits": [
        (S, '        old = self._headers[idx]\n        self._set.remove(old.lower())\n        self._headers[idx] = value\n        self._set.add(value.lower())\n        if self.on_update is not None:\n            self.on_update(self)\n', '        old_key = self._headers[idx].lower()\n        new_key = value.lower()\n        self._headers[idx] = value\n        self._set.remove(old_key)\n        self._set.add(new_key)\n        if self.on_update is not None:\n            self.on_update(self)\n'),
    ]},
    {"name": 'clear-del-slice-and-set-rebuild', "edits": [
        (S, '        self._set.clear()\n        self._headers.clear()\n\n        if self.on_update is not None:\n            self.on_update(self)\n', '        del self._headers[:]\n        self._set = set()\n\n        if self.on_update is not None:\n            self.on_update(self)\n'),
    ]},
    {"name": 'headerset-bool-if-empty-return-false', "edits": [
        (S, '        return bool(self._set)\n', '        if not self._set:\n            return False\n        return True\n'),
    ]},
    {"name": 'accessor-get-single-exit-result-local', "edits": [
        (I, '        if instance is None:\n            return self\n\n        storage = self.lookup(instance)\n\n        if self.name not in storage:\n            return self.default  # type: ignore\n\n        value = storage[self.name]\n\n        if self.load_func is not None:\n            try:\n                return self.load_func(value)\n            except (ValueError, TypeError):\n                return self.default  # type: ignore\n\n        return value  # type: ignore\n', '        if instance is None:\n            return self\n\n        storage = self.lookup(instance)\n        result = self.default\n\n        if self.name in storage:\n            value = storage[self.name]\n\n            if self.load_func is None:\n                result = value\n            else:\n                try:\n                    result = self.load_func(value)\n                except (ValueError, TypeError):\n                    pass\n\n        return result  # type: ignore\n'),
    ]},
    {"name": 'accessor-get-merged-condition', "edits": [
        (I, '        if instance is None:\n            return self\n\n        storage = self.lookup(instance)\n\n        if self.name not in storage:\n            return self.default  # type: ignore\n\n        value = storage[self.name]\n\n        if self.load_func is not None:\n            try:\n                return self.load_func(value)\n            except (ValueError, TypeError):\n                return self.default  # type: ignore\n\n        return value  # type: ignore\n', '        if instance is None:\n            return self\n\n        storage = self.lookup(instance)\n        present = self.name in storage\n\n        if present and self.load_func is None:\n            return storage[self.name]  # type: ignore\n\n        if not present:\n            return self.default  # type: ignore\n\n        try:\n            return self.load_func(storage[self.name])\n        except (ValueError, TypeError):\n            return self.default  # type: ignore\n'),
    ]},
    {"name": 'cache-control-callback-name-constant', "edits": [
        (R, '        def on_update(cache_control: _CacheControl) -> None:\n            if not cache_control and "cache-control" in self.headers:\n                del self.headers["cache-control"]\n            elif cache_control:\n                self.headers["Cache-Control"] = cache_control.to_header()\n', '        header_name = "Cache-Control"\n\n        def on_update(cache_control: _CacheControl) -> None:\n            if cache_control:\n                self.headers[header_name] = cache_control.to_header()\n            elif header_name in self.headers:\n                del self.headers[header_name]\n'),
        (R, '            self.headers.get("cache-control"), on_update, ResponseCacheControl', '            self.headers.get(header_name), on_update, ResponseCacheControl'),
    ]},
    {"name": 'headers-set-index-search-next', "edits": [
        (HD, '        iter_list = iter(self._list)\n        ikey = key.lower()\n\n        for idx, (old_key, _) in enumerate(iter_list):\n            if old_key.lower() == ikey:\n                # replace first occurrence\n                self._list[idx] = (key, value_str)\n                break\n        else:\n            # no existing occurrences\n            self._list.append((key, value_str))\n            return\n\n        # remove remaining occurrences\n        self._list[idx + 1 :] = [t for t in iter_list if t[0].lower() != ikey]\n', '        ikey = key.lower()\n        first = next((i for i, (k, _) in enumerate(self._list) if k.lower() == ikey), None)\n\n        if first is None:\n            self._list.append((key, value_str))\n            return\n\n        self._list[first] = (key, value_str)\n        tail = [t for t in self._list[first + 1 :] if t[0].lower() != ikey]\n        self._list[first + 1 :] = tail\n'),
    ]},
    {"name": 'headers-del-key-folded-local-filter', "edits": [
        (HD, '        key = key.lower()\n        new = []\n\n        for k, v in self._list:\n            if k.lower() != key:\n                new.append((k, v))\n\n        self._list[:] = new\n', '        folded = key.lower()\n        self._list[:] = filter(lambda item: item[0].lower() != folded, self._list)\n'),
    ]},
    {"name": 'remove-lowered-list-index', "edits": [
        (S, '        key = header.lower()\n        if key not in self._set:\n            raise KeyError(header)\n        self._set.remove(key)\n        for idx, item in enumerate(self._headers):\n            if item.lower() == key:\n                del self._headers[idx]\n                break\n        if self.on_update is not None:\n            self.on_update(self)\n', '        key = header.lower()\n        if key not in self._set:\n            raise KeyError(header)\n        self._set.remove(key)\n        lowered = [item.lower() for item in self._headers]\n        if key in lowered:\n            del self._headers[lowered.index(key)]\n        if self.on_update is not None:\n            self.on_update(self)\n'),
    ]},
    {"name": 'remove-zip-count', "edits": [
        (S, '        key = header.lower()\n        if key not in self._set:\n            raise KeyError(header)\n        self._set.remove(key)\n        for idx, item in enumerate(self._headers):\n            if item.lower() == key:\n                del self._headers[idx]\n                break\n        if self.on_update is not None:\n            self.on_update(self)\n', '        key = header.lower()\n        if key not in self._set:\n            raise KeyError(header)\n        self._set.remove(key)\n        for idx, item in zip(range(len(self._headers)), self._headers):\n            if item.lower() == key:\n                del self._headers[idx]\n                break\n        if self.on_update is not None:\n            self.on_update(self)\n'),
    ]},
    {"name": 'setitem-skip-set-when-same-key', "edits": [
        (S, '        old = self._headers[idx]\n        self._set.remove(old.lower())\n        self._headers[idx] = value\n        self._set.add(value.lower())\n        if self.on_update is not None:\n            self.on_update(self)\n', '        old = self._headers[idx]\n        self._headers[idx] = value\n        if old.lower() != value.lower():\n            self._set.remove(old.lower())\n            self._set.add(value.lower())\n        if self.on_update is not None:\n            self.on_update(self)\n'),
    ]},
    {"name": 'headerset-to_header-append-loop', "edits": [
        (S, '        return ", ".join(map(http.quote_header_value, self._headers))\n', '        parts = []\n        for item in self._headers:\n            parts.append(http.quote_header_value(item))\n        return ", ".join(parts)\n'),
    ]},
    {"name": 'set-property-callback-len-test', "edits": [
        (R, '        def on_update(header_set: HeaderSet) -> None:\n            if not header_set and name in self.headers:\n                del self.headers[name]\n            elif header_set:\n                self.headers[name] = header_set.to_header()\n', '        def on_update(header_set: HeaderSet) -> None:\n            if len(header_set) == 0:\n                if name in self.headers:\n                    del self.headers[name]\n            else:\n                self.headers[name] = header_set.to_header()\n'),
    ]},
    {"name": 'headers-same-name-helper', "edits": [
        (HD, 'class Headers:', 'def _same_name(stored: str, folded: str) -> bool:\n    return stored.lower() == folded\n\n\nclass Headers:'),
        (HD, '        for k, v in self._list:\n            if k.lower() == ikey:\n                return v\n\n        raise BadRequestKeyError(key)\n\n    def __eq__', '        for k, v in self._list:\n            if _same_name(k, ikey):\n                return v\n\n        raise BadRequestKeyError(key)\n\n    def __eq__'),
        (HD, '            if old_key.lower() == ikey:\n                # replace first occurrence', '            if _same_name(old_key, ikey):\n                # replace first occurrence'),
        (HD, '[t for t in iter_list if t[0].lower() != ikey]', '[t for t in iter_list if not _same_name(t[0], ikey)]'),
    ]},
    {"name": 'remove-reuses-delitem', "edits": [
        (S, '        key = header.lower()\n        if key not in self._set:\n            raise KeyError(header)\n        self._set.remove(key)\n        for idx, item in enumerate(self._headers):\n            if item.lower() == key:\n                del self._headers[idx]\n                break\n        if self.on_update is not None:\n            self.on_update(self)\n', '        key = header.lower()\n        if key not in self._set:\n            raise KeyError(header)\n        del self[self.find(header)]\n'),
    ]},
    {"name": 'delitem-one-liner-discard', "edits": [
        (S, '        rv = self._headers.pop(idx)\n        self._set.remove(rv.lower())\n        if self.on_update is not None:\n            self.on_update(self)\n', '        self._set.discard(self._headers.pop(idx).lower())\n        if self.on_update is not None:\n            self.on_update(self)\n'),
    ]},
    {"name": 'accessor-get-fetch-helper-flag-tuple', "edits": [
        (I, '        if instance is None:\n            return self\n\n        storage = self.lookup(instance)\n\n        if self.name not in storage:\n            return self.default  # type: ignore\n\n        value = storage[self.name]\n\n        if self.load_func is not None:\n            try:\n                return self.load_func(value)\n            except (ValueError, TypeError):\n                return self.default  # type: ignore\n\n        return value  # type: ignore\n', '        if instance is None:\n            return self\n\n        found, value = self._fetch(self.lookup(instance))\n\n        if not found:\n            return self.default  # type: ignore\n\n        if self.load_func is not None:\n            try:\n                return self.load_func(value)\n            except (ValueError, TypeError):\n                return self.default  # type: ignore\n\n        return value  # type: ignore\n\n    def _fetch(self, storage: t.Any) -> tuple[bool, t.Any]:\n        if self.name in storage:\n            return True, storage[self.name]\n        return False, None\n'),
    ]},
    {"name": 'set-property-writeback-module-helper', "edits": [
        (R, 'def _set_property(name: str, doc: str | None = None) -> property:\n', 'def _write_back(headers: Headers, name: str, header_set: HeaderSet) -> None:\n    if not header_set and name in headers:\n        del headers[name]\n    elif header_set:\n        headers[name] = header_set.to_header()\n\n\ndef _set_property(name: str, doc: str | None = None) -> property:\n'),
        (R, '        def on_update(header_set: HeaderSet) -> None:\n            if not header_set and name in self.headers:\n                del self.headers[name]\n            elif header_set:\n                self.headers[name] = header_set.to_header()\n', '        def on_update(header_set: HeaderSet) -> None:\n            _write_back(self.headers, name, header_set)\n'),
    ]},
    {"name": 'csp-getter-shared-private-helper', "edits": [
        (R, '        def on_update(csp: ContentSecurityPolicy) -> None:\n            if not csp:\n                del self.headers["content-security-policy"]\n            else:\n                self.headers["Content-Security-Policy"] = csp.to_header()\n\n        rv = parse_csp_header(self.headers.get("content-security-policy"), on_update)\n        if rv is None:\n            rv = ContentSecurityPolicy(None, on_update=on_update)\n        return rv\n', '        return self._csp_view("Content-Security-Policy")\n\n    def _csp_view(self, header: str) -> ContentSecurityPolicy:\n        def on_update(csp: ContentSecurityPolicy) -> None:\n            if not csp:\n                del self.headers[header]\n            else:\n                self.headers[header] = csp.to_header()\n\n        rv = parse_csp_header(self.headers.get(header), on_update)\n        if rv is None:\n            rv = ContentSecurityPolicy(None, on_update=on_update)\n        return rv\n'),
    ]},
    {"name": 'headers-set-replace-first-helper', "edits": [
        (HD, '        iter_list = iter(self._list)\n        ikey = key.lower()\n\n        for idx, (old_key, _) in enumerate(iter_list):\n            if old_key.lower() == ikey:\n                # replace first occurrence\n                self._list[idx] = (key, value_str)\n                break\n        else:\n            # no existing occurrences\n            self._list.append((key, value_str))\n            return\n\n        # remove remaining occurrences\n        self._list[idx + 1 :] = [t for t in iter_list if t[0].lower() != ikey]\n', '        ikey = key.lower()\n        idx = self._index_of(ikey)\n\n        if idx < 0:\n            self._list.append((key, value_str))\n            return\n\n        self._list[idx] = (key, value_str)\n        self._list[idx + 1 :] = [t for t in self._list[idx + 1 :] if t[0].lower() != ikey]\n\n    def _index_of(self, ikey: str) -> int:\n        for idx, (old_key, _) in enumerate(self._list):\n            if old_key.lower() == ikey:\n                return idx\n        return -1\n'),
    ]},
    {"name": 'cache-value-remove-first', "edits": [
        (CC, '        if type is bool:\n            if value:\n                self[key] = None\n            else:\n                self.pop(key, None)\n        elif value is None or value is False:\n            self.pop(key, None)\n        elif value is True:\n            self[key] = None\n        else:\n            if type is not None:\n                value = type(value)\n\n            self[key] = str(value)\n', '        remove = not value if type is bool else (value is None or value is False)\n\n        if remove:\n            self.pop(key, None)\n            return\n\n        if type is bool or value is True:\n            self[key] = None\n            return\n\n        if type is not None:\n            value = type(value)\n\n        self[key] = str(value)\n'),
    ]},
]
ROUND6_MUTANTS = [
    {"name": 'shape:matching-list-on-raw-header', "expect": 'R16.2', "edits": [
        (S, '        key = header.lower()\n        if key not in self._set:\n            raise KeyError(header)\n        self._set.remove(key)\n        for idx, item in enumerate(self._headers):\n            if item.lower() == key:\n                del self._headers[idx]\n                break\n        if self.on_update is not None:\n            self.on_update(self)\n', '        key = header.lower()\n        if key not in self._set:\n            raise KeyError(header)\n        self._set.remove(key)\n        matches = [item for item in self._headers if item.lower() == header]\n        if matches:\n            self._headers.remove(matches[0])\n        if self.on_update is not None:\n            self.on_update(self)\n'),
    ]},
    {"name": 'shape:matching-list-of-other-elements', "expect": 'R16.2', "edits": [
        (S, '        key = header.lower()\n        if key not in self._set:\n            raise KeyError(header)\n        self._set.remove(key)\n        for idx, item in enumerate(self._headers):\n            if item.lower() == key:\n                del self._headers[idx]\n                break\n        if self.on_update is not None:\n            self.on_update(self)\n', '        key = header.lower()\n        if key not in self._set:\n            raise KeyError(header)\n        self._set.remove(key)\n        matches = [item for item in self._headers if item.lower() != key]\n        if matches:\n            self._headers.remove(matches[0])\n        if self.on_update is not None:\n            self.on_update(self)\n'),
    ]},
    {"name": 'shape:separator-constant-join-or-star', "expect": 'R16.9', "edits": [
        (S, 'class HeaderSet(cabc.MutableSet[str]):', '_SEPARATOR = ", "\n\n\nclass HeaderSet(cabc.MutableSet[str]):'),
        (S, '        return ", ".join(map(http.quote_header_value, self._headers))\n', '        return _SEPARATOR.join(map(http.quote_header_value, self._headers)) or "*"\n'),
    ]},
    {"name": 'shape:text-local-condition-inverted', "expect": 'R16.5', "edits": [
        (R, '        def on_update(header_set: HeaderSet) -> None:\n            if not header_set and name in self.headers:\n                del self.headers[name]\n            elif header_set:\n                self.headers[name] = header_set.to_header()\n', '        def on_update(header_set: HeaderSet) -> None:\n            text = header_set.to_header() if not header_set else None\n            if text is not None:\n                self.headers[name] = text\n            elif name in self.headers:\n                del self.headers[name]\n'),
    ]},
    {"name": 'shape:text-local-never-deletes', "expect": 'R16.5', "edits": [
        (R, '        def on_update(header_set: HeaderSet) -> None:\n            if not header_set and name in self.headers:\n                del self.headers[name]\n            elif header_set:\n                self.headers[name] = header_set.to_header()\n', '        def on_update(header_set: HeaderSet) -> None:\n            text = header_set.to_header() if header_set else None\n            if text is not None:\n                self.headers[name] = text\n'),
    ]},
    {"name": 'shape:lowered-index-of-reversed-list', "expect": 'R16.2', "edits": [
        (S, '        key = header.lower()\n        if key not in self._set:\n            raise KeyError(header)\n        self._set.remove(key)\n        for idx, item in enumerate(self._headers):\n            if item.lower() == key:\n                del self._headers[idx]\n                break\n        if self.on_update is not None:\n            self.on_update(self)\n', '        key = header.lower()\n        if key not in self._set:\n            raise KeyError(header)\n        self._set.remove(key)\n        lowered = [item.lower() for item in reversed(self._headers)]\n        if key in lowered:\n            del self._headers[lowered.index(key)]\n        if self.on_update is not None:\n            self.on_update(self)\n'),
    ]},
    {"name": 'shape:lowered-index-off-by-one', "expect": 'R16.2', "edits": [
        (S, '        key = header.lower()\n        if key not in self._set:\n            raise KeyError(header)\n        self._set.remove(key)\n        for idx, item in enumerate(self._headers):\n            if item.lower() == key:\n                del self._headers[idx]\n                break\n        if self.on_update is not None:\n            self.on_update(self)\n', '        key = header.lower()\n        if key not in self._set:\n            raise KeyError(header)\n        self._set.remove(key)\n        lowered = [item.lower() for item in self._headers]\n        if key in lowered:\n            del self._headers[lowered.index(key) - 1]\n        if self.on_update is not None:\n            self.on_update(self)\n'),
    ]},
    {"name": 'shape:zip-index-against-reversed', "expect": 'R16.2', "edits": [
        (S, '        key = header.lower()\n        if key not in self._set:\n            raise KeyError(header)\n        self._set.remove(key)\n        for idx, item in enumerate(self._headers):\n            if item.lower() == key:\n                del self._headers[idx]\n                break\n        if self.on_update is not None:\n            self.on_update(self)\n', '        key = header.lower()\n        if key not in self._set:\n            raise KeyError(header)\n        self._set.remove(key)\n        for idx, item in zip(range(len(self._headers)), reversed(self._headers)):\n            if item.lower() == key:\n                del self._headers[idx]\n                break\n        if self.on_update is not None:\n            self.on_update(self)\n'),
    ]},
    {"name": 'shape:same-key-test-inverted', "expect": 'R16.2', "edits": [
        (S, '        old = self._headers[idx]\n        self._set.remove(old.lower())\n        self._headers[idx] = value\n        self._set.add(value.lower())\n        if self.on_update is not None:\n            self.on_update(self)\n', '        old = self._headers[idx]\n        self._headers[idx] = value\n        if old.lower() == value.lower():\n            self._set.remove(old.lower())\n            self._set.add(value.lower())\n        if self.on_update is not None:\n            self.on_update(self)\n'),
    ]},
    {"name": 'shape:same-key-test-on-raw-text', "expect": 'R16.2', "edits": [
        (S, '        old = self._headers[idx]\n        self._set.remove(old.lower())\n        self._headers[idx] = value\n        self._set.add(value.lower())\n        if self.on_update is not None:\n            self.on_update(self)\n', '        old = self._headers[idx]\n        self._headers[idx] = value\n        if old != value.lower():\n            self._set.remove(old.lower())\n            self._set.add(value.lower())\n        if self.on_update is not None:\n            self.on_update(self)\n'),
    ]},
    {"name": 'shape:append-loop-starts-non-empty', "expect": 'R16.9', "edits": [
        (S, '        return ", ".join(map(http.quote_header_value, self._headers))\n', '        parts = ["*"]\n        for item in self._headers:\n            parts.append(http.quote_header_value(item))\n        return ", ".join(parts)\n'),
    ]},
    {"name": 'shape:len-test-inverted', "expect": 'R16.5', "edits": [
        (R, '        def on_update(header_set: HeaderSet) -> None:\n            if not header_set and name in self.headers:\n                del self.headers[name]\n            elif header_set:\n                self.headers[name] = header_set.to_header()\n', '        def on_update(header_set: HeaderSet) -> None:\n            if len(header_set) != 0:\n                if name in self.headers:\n                    del self.headers[name]\n            else:\n                self.headers[name] = header_set.to_header()\n'),
    ]},
    {"name": 'shape:same-name-helper-raw', "expect": 'R16.8', "edits": [
        (HD, 'class Headers:', 'def _same_name(stored: str, folded: str) -> bool:\n    return stored == folded\n\n\nclass Headers:'),
        (HD, '        for k, v in self._list:\n            if k.lower() == ikey:\n                return v\n\n        raise BadRequestKeyError(key)\n\n    def __eq__', '        for k, v in self._list:\n            if _same_name(k, ikey):\n                return v\n\n        raise BadRequestKeyError(key)\n\n    def __eq__'),
        (HD, '            if old_key.lower() == ikey:\n                # replace first occurrence', '            if _same_name(old_key, ikey):\n                # replace first occurrence'),
        (HD, '[t for t in iter_list if t[0].lower() != ikey]', '[t for t in iter_list if not _same_name(t[0], ikey)]'),
    ]},
    {"name": 'shape:find-then-pop-previous', "expect": 'R16.2', "edits": [
        (S, '        key = header.lower()\n        if key not in self._set:\n            raise KeyError(header)\n        self._set.remove(key)\n        for idx, item in enumerate(self._headers):\n            if item.lower() == key:\n                del self._headers[idx]\n                break\n        if self.on_update is not None:\n            self.on_update(self)\n', '        key = header.lower()\n        if key not in self._set:\n            raise KeyError(header)\n        position = self.find(header)\n        self._set.remove(key)\n        if position >= 0:\n            self._headers.pop(position - 1)\n        if self.on_update is not None:\n            self.on_update(self)\n'),
    ]},
    {"name": 'shape:drop-helper-compares-raw', "expect": 'R16.2', "edits": [
        (S, '        key = header.lower()\n        if key not in self._set:\n            raise KeyError(header)\n        self._set.remove(key)\n        for idx, item in enumerate(self._headers):\n            if item.lower() == key:\n                del self._headers[idx]\n                break\n        if self.on_update is not None:\n            self.on_update(self)\n', '        key = header.lower()\n        if key not in self._set:\n            raise KeyError(header)\n        self._set.remove(key)\n        self._drop_from_list(key)\n        if self.on_update is not None:\n            self.on_update(self)\n\n    def _drop_from_list(self, key: str) -> None:\n        for idx, item in enumerate(self._headers):\n            if item == key:\n                del self._headers[idx]\n                return\n'),
    ]},
    {"name": 'shape:fetch-helper-flag-on-truthiness', "expect": 'R16.6', "edits": [
        (I, '        if instance is None:\n            return self\n\n        storage = self.lookup(instance)\n\n        if self.name not in storage:\n            return self.default  # type: ignore\n\n        value = storage[self.name]\n\n        if self.load_func is not None:\n            try:\n                return self.load_func(value)\n            except (ValueError, TypeError):\n                return self.default  # type: ignore\n\n        return value  # type: ignore\n', '        if instance is None:\n            return self\n\n        found, value = self._fetch(self.lookup(instance))\n\n        if not found:\n            return self.default  # type: ignore\n\n        if self.load_func is not None:\n            try:\n                return self.load_func(value)\n            except (ValueError, TypeError):\n                return self.default  # type: ignore\n\n        return value  # type: ignore\n\n    def _fetch(self, storage: t.Any) -> tuple[bool, t.Any]:\n        if storage.get(self.name):\n            return True, storage[self.name]\n        return False, None\n'),
    ]},
    {"name": 'shape:single-exit-needs-truthy-item', "expect": 'R16.6', "edits": [
        (I, '        if instance is None:\n            return self\n\n        storage = self.lookup(instance)\n\n        if self.name not in storage:\n            return self.default  # type: ignore\n\n        value = storage[self.name]\n\n        if self.load_func is not None:\n            try:\n                return self.load_func(value)\n            except (ValueError, TypeError):\n                return self.default  # type: ignore\n\n        return value  # type: ignore\n', '        if instance is None:\n            return self\n\n        storage = self.lookup(instance)\n        result = self.default\n\n        if self.name in storage and storage[self.name]:\n            value = storage[self.name]\n\n            if self.load_func is None:\n                result = value\n            else:\n                try:\n                    result = self.load_func(value)\n                except (ValueError, TypeError):\n                    pass\n\n        return result  # type: ignore\n'),
    ]},
    {"name": 'shape:writeback-helper-never-deletes', "expect": 'R16.5', "edits": [
        (R, 'def _set_property(name: str, doc: str | None = None) -> property:\n', 'def _write_back(headers: Headers, name: str, header_set: HeaderSet) -> None:\n    if header_set:\n        headers[name] = header_set.to_header()\n\n\ndef _set_property(name: str, doc: str | None = None) -> property:\n'),
        (R, '        def on_update(header_set: HeaderSet) -> None:\n            if not header_set and name in self.headers:\n                del self.headers[name]\n            elif header_set:\n                self.headers[name] = header_set.to_header()\n', '        def on_update(header_set: HeaderSet) -> None:\n            _write_back(self.headers, name, header_set)\n'),
    ]},
    {"name": 'shape:writeback-helper-adds', "expect": 'R16.8', "edits": [
        (R, 'def _set_property(name: str, doc: str | None = None) -> property:\n', 'def _write_back(headers: Headers, name: str, header_set: HeaderSet) -> None:\n    if not header_set and name in headers:\n        del headers[name]\n    elif header_set:\n        headers.add(name, header_set.to_header())\n\n\ndef _set_property(name: str, doc: str | None = None) -> property:\n'),
        (R, '        def on_update(header_set: HeaderSet) -> None:\n            if not header_set and name in self.headers:\n                del self.headers[name]\n            elif header_set:\n                self.headers[name] = header_set.to_header()\n', '        def on_update(header_set: HeaderSet) -> None:\n            _write_back(self.headers, name, header_set)\n'),
    ]},
    {"name": 'shape:csp-helper-writes-fixed-header', "expect": 'R16.5', "edits": [
        (R, '        def on_update(csp: ContentSecurityPolicy) -> None:\n            if not csp:\n                del self.headers["content-security-policy"]\n            else:\n                self.headers["Content-Security-Policy"] = csp.to_header()\n\n        rv = parse_csp_header(self.headers.get("content-security-policy"), on_update)\n        if rv is None:\n            rv = ContentSecurityPolicy(None, on_update=on_update)\n        return rv\n', '        return self._csp_view("Content-Security-Policy")\n\n    def _csp_view(self, header: str) -> ContentSecurityPolicy:\n        def on_update(csp: ContentSecurityPolicy) -> None:\n            if not csp:\n                del self.headers[header]\n            else:\n                self.headers["Content-Security-Policy-Report-Only"] = csp.to_header()\n\n        rv = parse_csp_header(self.headers.get(header), on_update)\n        if rv is None:\n            rv = ContentSecurityPolicy(None, on_update=on_update)\n        return rv\n'),
    ]},
    {"name": 'shape:index-of-helper-raw-name', "expect": 'R16.8', "edits": [
        (HD, '        iter_list = iter(self._list)\n        ikey = key.lower()\n\n        for idx, (old_key, _) in enumerate(iter_list):\n            if old_key.lower() == ikey:\n                # replace first occurrence\n                self._list[idx] = (key, value_str)\n                break\n        else:\n            # no existing occurrences\n            self._list.append((key, value_str))\n            return\n\n        # remove remaining occurrences\n        self._list[idx + 1 :] = [t for t in iter_list if t[0].lower() != ikey]\n', '        ikey = key.lower()\n        idx = self._index_of(ikey)\n\n        if idx < 0:\n            self._list.append((key, value_str))\n            return\n\n        self._list[idx] = (key, value_str)\n        self._list[idx + 1 :] = [t for t in self._list[idx + 1 :] if t[0].lower() != ikey]\n\n    def _index_of(self, ikey: str) -> int:\n        for idx, (old_key, _) in enumerate(self._list):\n            if old_key == ikey:\n                return idx\n        return -1\n'),
    ]},
    {"name": 'shape:remove-first-forgets-false', "expect": 'R16.6', "edits": [
        (CC, '        if type is bool:\n            if value:\n                self[key] = None\n            else:\n                self.pop(key, None)\n        elif value is None or value is False:\n            self.pop(key, None)\n        elif value is True:\n            self[key] = None\n        else:\n            if type is not None:\n                value = type(value)\n\n            self[key] = str(value)\n', '        remove = not value if type is bool else (value is None)\n\n        if remove:\n            self.pop(key, None)\n            return\n\n        if type is bool or value is True:\n            self[key] = None\n            return\n\n        if type is not None:\n            value = type(value)\n\n        self[key] = str(value)\n'),
    ]},
    {"name": 'shape:delitem-one-liner-raw', "expect": 'R16.2', "edits": [
        (S, '        rv = self._headers.pop(idx)\n        self._set.remove(rv.lower())\n        if self.on_update is not None:\n            self.on_update(self)\n', '        self._set.discard(self._headers.pop(idx))\n        if self.on_update is not None:\n            self.on_update(self)\n'),
    ]},
    {"name": 'shape:name-constant-callback-other-header', "expect": 'R16.5', "edits": [
        (R, '        def on_update(cache_control: _CacheControl) -> None:\n            if not cache_control and "cache-control" in self.headers:\n                del self.headers["cache-control"]\n            elif cache_control:\n                self.headers["Cache-Control"] = cache_control.to_header()\n', '        header_name = "Cache-Control"\n\n        def on_update(cache_control: _CacheControl) -> None:\n            if cache_control:\n                self.headers["Pragma"] = cache_control.to_header()\n            elif header_name in self.headers:\n                del self.headers[header_name]\n'),
        (R, '            self.headers.get("cache-control"), on_update, ResponseCacheControl', '            self.headers.get(header_name), on_update, ResponseCacheControl'),
    ]},
    {"name": 'shape:bool-if-empty-on-length-one', "expect": 'R16.9', "edits": [
        (S, '        return bool(self._set)\n', '        if len(self._set) < 2:\n            return False\n        return True\n'),
    ]},
]
TWINS = TWINS + ROUND6_TWINS
MUTANTS = MUTANTS + ROUND6_MUTANTS

# ---------------------------------------------------------------------------------------------------------------------
# round 7 (seed C16-K): the typed accessor's setter / deleter and the explicit scalar setters take the branch that does not
# write (delete / skip) for the sentinel None only - never on the truthiness of the value; read side: a loaded value that is
# falsy (0) is a value.  Twins: 12 refactorings by a fresh author + own variants; mutants: the same shapes with the defect.
ROUND7_TWINS = [
    {"name": 'accessor-set-dumper-local-single-write', "edits": [
        ('_internal.py', '        if self.dump_func is not None:\n            self.lookup(instance)[self.name] = self.dump_func(value)\n        else:\n            self.lookup(instance)[self.name] = value\n', '        dump = self.dump_func\n        stored = dump(value) if dump is not None else value\n        self.lookup(instance)[self.name] = stored\n'),
    ]},
    {"name": 'accessor-set-rebinds-value-then-one-store', "edits": [
        ('_internal.py', '            self.lookup(instance)[self.name] = self.dump_func(value)\n        else:\n            self.lookup(instance)[self.name] = value\n', '            value = self.dump_func(value)  # type: ignore[assignment]\n\n        self.lookup(instance)[self.name] = value\n'),
    ]},
    {"name": 'accessor-writable-check-helper-none-branch-first', "edits": [
        ('_internal.py', '    def __set__(self, instance: t.Any, value: _TAccessorValue) -> None:\n        if self.read_only:\n            raise AttributeError("read only property")\n\n        if self.dump_func is not None:\n            self.lookup(instance)[self.name] = self.dump_func(value)\n        else:\n            self.lookup(instance)[self.name] = value\n\n    def __delete__(self, instance: t.Any) -> None:\n        if self.read_only:\n            raise AttributeError("read only property")\n\n', '    def _check_writable(self) -> None:\n        if self.read_only:\n            raise AttributeError("read only property")\n\n    def __set__(self, instance: t.Any, value: _TAccessorValue) -> None:\n        self._check_writable()\n\n        if self.dump_func is None:\n            self.lookup(instance)[self.name] = value\n        else:\n            self.lookup(instance)[self.name] = self.dump_func(value)\n\n    def __delete__(self, instance: t.Any) -> None:\n        self._check_writable()\n'),
    ]},
    {"name": 'accessor-dump-load-helpers', "edits": [
        ('_internal.py', '        value = storage[self.name]\n\n        if self.load_func is not None:\n            try:\n                return self.load_func(value)\n            except (ValueError, TypeError):\n                return self.default  # type: ignore\n\n        return value  # type: ignore\n\n    def __set__(self, instance: t.Any, value: _TAccessorValue) -> None:\n        if self.read_only:\n            raise AttributeError("read only property")\n\n        if self.dump_func is not None:\n            self.lookup(instance)[self.name] = self.dump_func(value)\n        else:\n            self.lookup(instance)[self.name] = value\n', '        return self._load(storage[self.name])\n\n    def _load(self, value: t.Any) -> _TAccessorValue:\n        if self.load_func is None:\n            return value  # type: ignore\n\n        try:\n            return self.load_func(value)\n        except (ValueError, TypeError):\n            return self.default  # type: ignore\n\n    def _dump(self, value: _TAccessorValue) -> t.Any:\n        if self.dump_func is None:\n            return value\n\n        return self.dump_func(value)\n\n    def __set__(self, instance: t.Any, value: _TAccessorValue) -> None:\n        if self.read_only:\n            raise AttributeError("read only property")\n\n        self.lookup(instance)[self.name] = self._dump(value)\n'),
    ]},
    {"name": 'accessor-name-local-storage-helper', "edits": [
        ('_internal.py', '    @t.overload\n    def __get__(\n        self, instance: None, owner: type\n    ) -> _DictAccessorProperty[_TAccessorValue]: ...\n\n    @t.overload\n    def __get__(self, instance: t.Any, owner: type) -> _TAccessorValue: ...\n\n    def __get__(\n        self, instance: t.Any | None, owner: type\n    ) -> _TAccessorValue | _DictAccessorProperty[_TAccessorValue]:\n        if instance is None:\n            return self\n\n        storage = self.lookup(instance)\n\n        if self.name not in storage:\n            return self.default  # type: ignore\n\n        value = storage[self.name]\n\n        if self.load_func is not None:\n            try:\n                return self.load_func(value)\n            except (ValueError, TypeError):\n                return self.default  # type: ignore\n\n        return value  # type: ignore\n\n    def __set__(self, instance: t.Any, value: _TAccessorValue) -> None:\n        if self.read_only:\n            raise AttributeError("read only property")\n\n        if self.dump_func is not None:\n            self.lookup(instance)[self.name] = self.dump_func(value)\n        else:\n            self.lookup(instance)[self.name] = value\n\n    def __delete__(self, instance: t.Any) -> None:\n        if self.read_only:\n            raise AttributeError("read only property")\n\n        self.lookup(instance).pop(self.name, None)\n', '    def _storage(self, instance: t.Any) -> t.MutableMapping[str, t.Any]:\n        return self.lookup(instance)\n\n    @t.overload\n    def __get__(\n        self, instance: None, owner: type\n    ) -> _DictAccessorProperty[_TAccessorValue]: ...\n\n    @t.overload\n    def __get__(self, instance: t.Any, owner: type) -> _TAccessorValue: ...\n\n    def __get__(\n        self, instance: t.Any | None, owner: type\n    ) -> _TAccessorValue | _DictAccessorProperty[_TAccessorValue]:\n        if instance is None:\n            return self\n\n        name = self.name\n        storage = self._storage(instance)\n\n        if name not in storage:\n            return self.default  # type: ignore\n\n        value = storage[name]\n\n        if self.load_func is not None:\n            try:\n                return self.load_func(value)\n            except (ValueError, TypeError):\n                return self.default  # type: ignore\n\n        return value  # type: ignore\n\n    def __set__(self, instance: t.Any, value: _TAccessorValue) -> None:\n        if self.read_only:\n            raise AttributeError("read only property")\n\n        name = self.name\n\n        if self.dump_func is not None:\n            dumped: t.Any = self.dump_func(value)\n        else:\n            dumped = value\n\n        self._storage(instance)[name] = dumped\n\n    def __delete__(self, instance: t.Any) -> None:\n        if self.read_only:\n            raise AttributeError("read only property")\n\n        name = self.name\n        self._storage(instance).pop(name, None)\n'),
    ]},
    {"name": 'accessor-get-eafp-loader-outside-try', "edits": [
        ('_internal.py', '        if self.name not in storage:\n            return self.default  # type: ignore\n\n        value = storage[self.name]\n', '        try:\n            value = storage[self.name]\n        except KeyError:\n            return self.default  # type: ignore\n'),
    ]},
    {"name": 'accessor-get-missing-sentinel-identity', "edits": [
        ('_internal.py', '        if self.name not in storage:\n            return self.default  # type: ignore\n\n        value = storage[self.name]\n', '        value = storage.get(self.name, _missing)\n\n        if value is _missing:\n            return self.default  # type: ignore\n'),
    ]},
    {"name": 'accessor-get-guard-try-else-delete-storage-local', "edits": [
        ('_internal.py', '        if self.load_func is not None:\n            try:\n                return self.load_func(value)\n            except (ValueError, TypeError):\n                return self.default  # type: ignore\n\n        return value  # type: ignore\n\n    def __set__(self, instance: t.Any, value: _TAccessorValue) -> None:\n        if self.read_only:\n            raise AttributeError("read only property")\n\n        if self.dump_func is not None:\n            self.lookup(instance)[self.name] = self.dump_func(value)\n        else:\n            self.lookup(instance)[self.name] = value\n\n    def __delete__(self, instance: t.Any) -> None:\n        if self.read_only:\n            raise AttributeError("read only property")\n\n        self.lookup(instance).pop(self.name, None)\n', '        load = self.load_func\n\n        if load is None:\n            return value  # type: ignore\n\n        try:\n            rv = load(value)\n        except (ValueError, TypeError):\n            return self.default  # type: ignore\n        else:\n            return rv\n\n    def __set__(self, instance: t.Any, value: _TAccessorValue) -> None:\n        if self.read_only:\n            raise AttributeError("read only property")\n\n        if self.dump_func is not None:\n            self.lookup(instance)[self.name] = self.dump_func(value)\n        else:\n            self.lookup(instance)[self.name] = value\n\n    def __delete__(self, instance: t.Any) -> None:\n        if self.read_only:\n            raise AttributeError("read only property")\n\n        storage = self.lookup(instance)\n        storage.pop(self.name, None)\n'),
    ]},
    {"name": 'retry-after-pop-plain-if', "edits": [
        ('sansio/response.py', '            if "retry-after" in self.headers:\n                del self.headers["retry-after"]\n            return\n        elif isinstance(value, datetime):\n            value = http_date(value)\n        else:\n            value = str(value)\n', '            self.headers.pop("retry-after", None)\n            return\n\n        if isinstance(value, datetime):\n            value = http_date(value)\n        else:\n            value = str(value)\n\n'),
    ]},
    {"name": 'retry-after-not-none-first-write-once', "edits": [
        ('sansio/response.py', '        if value is None:\n            if "retry-after" in self.headers:\n                del self.headers["retry-after"]\n            return\n        elif isinstance(value, datetime):\n            value = http_date(value)\n        else:\n            value = str(value)\n        self.headers["Retry-After"] = value\n', '        if value is not None:\n            if isinstance(value, datetime):\n                header_value = http_date(value)\n            else:\n                header_value = str(value)\n\n            self.headers["Retry-After"] = header_value\n        elif "retry-after" in self.headers:\n            del self.headers["retry-after"]\n'),
    ]},
    {"name": 'retry-after-datetime-first', "edits": [
        ('sansio/response.py', '        if value is None:\n            if "retry-after" in self.headers:\n                del self.headers["retry-after"]\n            return\n        elif isinstance(value, datetime):\n            value = http_date(value)\n        else:\n            value = str(value)\n        self.headers["Retry-After"] = value\n', '        if isinstance(value, datetime):\n            text = http_date(value)\n        elif value is None:\n            if "retry-after" in self.headers:\n                del self.headers["retry-after"]\n\n            return\n        else:\n            text = str(value)\n\n        self.headers["Retry-After"] = text\n'),
    ]},
    {"name": 'retry-after-headers-local-guard-conditional-expression', "edits": [
        ('sansio/response.py', '        if value is None:\n            if "retry-after" in self.headers:\n                del self.headers["retry-after"]\n            return\n        elif isinstance(value, datetime):\n            value = http_date(value)\n        else:\n            value = str(value)\n        self.headers["Retry-After"] = value\n', '        headers = self.headers\n\n        if value is None:\n            if "retry-after" in headers:\n                del headers["retry-after"]\n\n            return\n\n        headers["Retry-After"] = (\n            http_date(value) if isinstance(value, datetime) else str(value)\n        )\n'),
    ]},
    {"name": 'accessor-set-none-handled-apart-still-stored', "edits": [
        ('_internal.py', '        if self.dump_func is not None:\n            self.lookup(instance)[self.name] = self.dump_func(value)\n        else:\n            self.lookup(instance)[self.name] = value\n', '        storage = self.lookup(instance)\n        if value is None:\n            storage[self.name] = self.dump_func(None) if self.dump_func is not None else None\n            return\n        dump = self.dump_func\n        storage[self.name] = value if dump is None else dump(value)\n'),
        ('datastructures/accept.py', '            except (LookupError, ValueError):\n                # ValueError: the name contains a null character.\n', '            except LookupError:\n'),
    ]},
    {"name": 'accessor-set-write-helper-early-return', "edits": [
        ('_internal.py', '        if self.dump_func is not None:\n            self.lookup(instance)[self.name] = self.dump_func(value)\n        else:\n            self.lookup(instance)[self.name] = value\n', '        self._write(self.lookup(instance), value)\n\n    def _write(self, storage: t.MutableMapping[str, t.Any], value: t.Any) -> None:\n        dump = self.dump_func\n        if dump is None:\n            storage[self.name] = value\n            return\n        storage[self.name] = dump(value)\n'),
    ]},
    {"name": 'accessor-delete-membership-then-del', "edits": [
        ('_internal.py', '        self.lookup(instance).pop(self.name, None)\n', '        storage = self.lookup(instance)\n        if self.name in storage:\n            del storage[self.name]\n'),
    ]},
    {"name": 'accessor-delete-get-is-not-none-then-pop', "edits": [
        ('_internal.py', '        self.lookup(instance).pop(self.name, None)\n', '        storage = self.lookup(instance)\n        if storage.get(self.name) is not None:\n            storage.pop(self.name)\n'),
    ]},
    {"name": 'accessor-delete-eafp-keyerror', "edits": [
        ('_internal.py', '        self.lookup(instance).pop(self.name, None)\n', '        try:\n            del self.lookup(instance)[self.name]\n        except KeyError:\n            pass\n'),
    ]},
    {"name": 'retry-after-flipped-conditional-expression-pop', "edits": [
        ('sansio/response.py', '        if value is None:\n            if "retry-after" in self.headers:\n                del self.headers["retry-after"]\n            return\n        elif isinstance(value, datetime):\n            value = http_date(value)\n        else:\n            value = str(value)\n        self.headers["Retry-After"] = value\n', '        if value is not None:\n            self.headers["Retry-After"] = http_date(value) if isinstance(value, datetime) else str(value)\n        else:\n            self.headers.pop("Retry-After", None)\n'),
    ]},
    {"name": 'retry-after-text-local-none-means-drop', "edits": [
        ('sansio/response.py', '        if value is None:\n            if "retry-after" in self.headers:\n                del self.headers["retry-after"]\n            return\n        elif isinstance(value, datetime):\n            value = http_date(value)\n        else:\n            value = str(value)\n        self.headers["Retry-After"] = value\n', '        text: str | None = None\n        if isinstance(value, datetime):\n            text = http_date(value)\n        elif value is not None:\n            text = str(value)\n        if text is None:\n            self.headers.pop("Retry-After", None)\n        else:\n            self.headers["Retry-After"] = text\n'),
    ]},
    {"name": 'retry-after-set-remove-guard-clauses', "edits": [
        ('sansio/response.py', '        if value is None:\n            if "retry-after" in self.headers:\n                del self.headers["retry-after"]\n            return\n        elif isinstance(value, datetime):\n            value = http_date(value)\n        else:\n            value = str(value)\n        self.headers["Retry-After"] = value\n', '        if isinstance(value, datetime):\n            self.headers.set("Retry-After", http_date(value))\n            return\n        if value is None:\n            self.headers.remove("Retry-After")\n            return\n        self.headers.set("Retry-After", str(value))\n'),
    ]},
    {"name": 'retry-after-put-or-drop-helper', "edits": [
        ('sansio/response.py', '        if value is None:\n            if "retry-after" in self.headers:\n                del self.headers["retry-after"]\n            return\n        elif isinstance(value, datetime):\n            value = http_date(value)\n        else:\n            value = str(value)\n        self.headers["Retry-After"] = value\n', '        if isinstance(value, datetime):\n            text: str | None = http_date(value)\n        else:\n            text = None if value is None else str(value)\n        self._put_or_drop("Retry-After", text)\n\n    def _put_or_drop(self, name: str, text: str | None) -> None:\n        if text is not None:\n            self.headers[name] = text\n        elif name in self.headers:\n            del self.headers[name]\n'),
    ]},
]
ROUND7_MUTANTS = [
    {"name": 'shape:accessor-set-only-truthy-values-stored', "expect": 'R16.6', "edits": [
        ('_internal.py', '        if self.dump_func is not None:\n            self.lookup(instance)[self.name] = self.dump_func(value)\n        else:\n            self.lookup(instance)[self.name] = value\n', '        if value:\n            storage = self.lookup(instance)\n            storage[self.name] = value if self.dump_func is None else self.dump_func(value)\n'),
        ('datastructures/accept.py', '            except (LookupError, ValueError):\n                # ValueError: the name contains a null character.\n', '            except LookupError:\n'),
    ]},
    {"name": 'shape:accessor-set-drops-members-of-none-zero-empty', "expect": 'R16.6', "edits": [
        ('_internal.py', '        if self.dump_func is not None:\n            self.lookup(instance)[self.name] = self.dump_func(value)\n        else:\n            self.lookup(instance)[self.name] = value\n', '        storage = self.lookup(instance)\n        if value in (None, 0, ""):\n            storage.pop(self.name, None)\n            return\n        if self.dump_func is not None:\n            value = self.dump_func(value)\n        storage[self.name] = value\n'),
        ('datastructures/accept.py', '            except (LookupError, ValueError):\n                # ValueError: the name contains a null character.\n', '            except LookupError:\n'),
    ]},
    {"name": 'shape:accessor-set-none-or-equals-zero-deleted', "expect": 'R16.6', "edits": [
        ('_internal.py', '        if self.dump_func is not None:\n', '        if value is None or value == 0:\n            del self.lookup(instance)[self.name]\n        elif self.dump_func is not None:\n'),
        ('datastructures/accept.py', '            except (LookupError, ValueError):\n                # ValueError: the name contains a null character.\n', '            except LookupError:\n'),
    ]},
    {"name": 'shape:accessor-set-drops-when-dumped-text-falsy', "expect": 'R16.6', "edits": [
        ('_internal.py', '        if self.dump_func is not None:\n            self.lookup(instance)[self.name] = self.dump_func(value)\n        else:\n            self.lookup(instance)[self.name] = value\n', '        dumped = self.dump_func(value) if self.dump_func is not None else value\n        if not dumped:\n            self.lookup(instance).pop(self.name, None)\n        else:\n            self.lookup(instance)[self.name] = dumped\n'),
        ('datastructures/accept.py', '            except (LookupError, ValueError):\n                # ValueError: the name contains a null character.\n', '            except LookupError:\n'),
    ]},
    {"name": 'shape:accessor-set-stored-then-deleted-when-falsy', "expect": 'R16.6', "edits": [
        ('_internal.py', '            self.lookup(instance)[self.name] = value\n', '            self.lookup(instance)[self.name] = value\n        if not value:\n            del self.lookup(instance)[self.name]\n'),
        ('datastructures/accept.py', '            except (LookupError, ValueError):\n                # ValueError: the name contains a null character.\n', '            except LookupError:\n'),
    ]},
    {"name": 'shape:accessor-set-stored-then-popped-when-falsy', "expect": 'R16.6', "edits": [
        ('_internal.py', '        if self.dump_func is not None:\n            self.lookup(instance)[self.name] = self.dump_func(value)\n        else:\n            self.lookup(instance)[self.name] = value\n', '        storage = self.lookup(instance)\n        if self.dump_func is not None:\n            storage[self.name] = self.dump_func(value)\n        else:\n            storage[self.name] = value\n        if not value:\n            storage.pop(self.name)\n'),
        ('datastructures/accept.py', '            except (LookupError, ValueError):\n                # ValueError: the name contains a null character.\n', '            except LookupError:\n'),
    ]},
    {"name": 'shape:accessor-write-helper-drops-falsy-but-false', "expect": 'R16.6', "edits": [
        ('_internal.py', '        if self.dump_func is not None:\n            self.lookup(instance)[self.name] = self.dump_func(value)\n        else:\n            self.lookup(instance)[self.name] = value\n', '        self._write(self.lookup(instance), value)\n\n    def _write(self, storage: t.MutableMapping[str, t.Any], value: t.Any) -> None:\n        if not value and value is not False:\n            storage.pop(self.name, None)\n            return\n        dump = self.dump_func\n        if dump is None:\n            storage[self.name] = value\n            return\n        storage[self.name] = dump(value)\n'),
    ]},
    {"name": 'shape:accessor-delete-only-truthy-text', "expect": 'R16.6', "edits": [
        ('_internal.py', '        self.lookup(instance).pop(self.name, None)\n', '        storage = self.lookup(instance)\n        if storage.get(self.name):\n            del storage[self.name]\n'),
    ]},
    {"name": 'shape:accessor-delete-present-and-truthy', "expect": 'R16.6', "edits": [
        ('_internal.py', '        self.lookup(instance).pop(self.name, None)\n', '        storage = self.lookup(instance)\n        if self.name in storage and storage[self.name]:\n            storage.pop(self.name)\n'),
    ]},
    {"name": 'shape:accessor-delete-pops-default', "expect": 'R16.6', "edits": [
        ('_internal.py', '        self.lookup(instance).pop(self.name, None)\n', '        self.lookup(instance).pop(self.default, None)\n'),
    ]},
    {"name": 'shape:accessor-get-loaded-or-default', "expect": 'R16.6', "edits": [
        ('_internal.py', '                return self.load_func(value)\n', '                return self.load_func(value) or self.default\n'),
        ('datastructures/accept.py', '            except (LookupError, ValueError):\n                # ValueError: the name contains a null character.\n', '            except LookupError:\n'),
    ]},
    {"name": 'shape:accessor-get-falsy-loaded-gives-default', "expect": 'R16.6', "edits": [
        ('_internal.py', '                return self.load_func(value)\n', '                rv = self.load_func(value)\n                if not rv:\n                    return self.default\n                return rv\n'),
        ('datastructures/accept.py', '            except (LookupError, ValueError):\n                # ValueError: the name contains a null character.\n', '            except LookupError:\n'),
    ]},
    {"name": 'shape:retry-after-not-value-deletes', "expect": 'R16.6', "edits": [
        ('sansio/response.py', '    def retry_after(self, value: datetime | int | str | None) -> None:\n        if value is None:\n', '    def retry_after(self, value: datetime | int | str | None) -> None:\n        if not value:\n'),
        ('datastructures/accept.py', '            except (LookupError, ValueError):\n                # ValueError: the name contains a null character.\n', '            except LookupError:\n'),
    ]},
    {"name": 'shape:retry-after-truthy-writes-else-pop', "expect": 'R16.6', "edits": [
        ('sansio/response.py', '        if value is None:\n            if "retry-after" in self.headers:\n                del self.headers["retry-after"]\n            return\n        elif isinstance(value, datetime):\n            value = http_date(value)\n        else:\n            value = str(value)\n        self.headers["Retry-After"] = value\n', '        if value:\n            self.headers["Retry-After"] = http_date(value) if isinstance(value, datetime) else str(value)\n        else:\n            self.headers.pop("Retry-After", None)\n'),
    ]},
    {"name": 'shape:retry-after-members-of-none-zero-empty', "expect": 'R16.6', "edits": [
        ('sansio/response.py', '        if value is None:\n            if "retry-after" in self.headers:\n                del self.headers["retry-after"]\n            return\n        elif isinstance(value, datetime):\n            value = http_date(value)\n        else:\n            value = str(value)\n        self.headers["Retry-After"] = value\n', '        if value in (None, 0, ""):\n            self.headers.pop("Retry-After", None)\n            return\n        text = http_date(value) if isinstance(value, datetime) else str(value)\n        self.headers["Retry-After"] = text\n'),
    ]},
    {"name": 'shape:retry-after-datetime-first-then-truthiness', "expect": 'R16.6', "edits": [
        ('sansio/response.py', '        if value is None:\n            if "retry-after" in self.headers:\n                del self.headers["retry-after"]\n            return\n        elif isinstance(value, datetime):\n            value = http_date(value)\n        else:\n            value = str(value)\n        self.headers["Retry-After"] = value\n', '        if isinstance(value, datetime):\n            self.headers["Retry-After"] = http_date(value)\n        elif value:\n            self.headers["Retry-After"] = str(value)\n        elif "retry-after" in self.headers:\n            del self.headers["retry-after"]\n'),
    ]},
    {"name": 'shape:retry-after-helper-text-none-for-falsy', "expect": 'R16.6', "edits": [
        ('sansio/response.py', '        if value is None:\n            if "retry-after" in self.headers:\n                del self.headers["retry-after"]\n            return\n        elif isinstance(value, datetime):\n            value = http_date(value)\n        else:\n            value = str(value)\n        self.headers["Retry-After"] = value\n', '        if isinstance(value, datetime):\n            text: str | None = http_date(value)\n        else:\n            text = str(value) if value else None\n        self._put_or_drop("Retry-After", text)\n\n    def _put_or_drop(self, name: str, text: str | None) -> None:\n        if text is not None:\n            self.headers[name] = text\n        elif name in self.headers:\n            del self.headers[name]\n'),
    ]},
]
TWINS = TWINS + ROUND7_TWINS
MUTANTS = MUTANTS + ROUND7_MUTANTS
