"""self-validation battery for C16."""
M = "datastructures/mixins.py"
S = "datastructures/structures.py"
R = "sansio/response.py"
A = "datastructures/auth.py"
RG = "datastructures/range.py"
MUTANTS = [
    {"name": "clear-not-decorated", "expect": "R16.1", "edits": [(M, "    @_always_update\n    def clear(self) -> None:\n        super().clear()", "    def clear(self) -> None:\n        super().clear()")]},
    {"name": "ior-removed", "expect": "R16.1", "edits": [(M, "    @_always_update\n    def __ior__(  # type: ignore[override]\n        self, other: cabc.Mapping[K, V] | cabc.Iterable[tuple[K, V]]\n    ) -> te.Self:\n        return super().__ior__(other)\n", "")]},
    {"name": "pop-forgets-notify", "expect": "R16.1", "edits": [(M, "            rv = super().pop(key, default)  # type: ignore[arg-type]\n        if modified and self.on_update is not None:\n            self.on_update(self)\n        return rv", "            rv = super().pop(key, default)  # type: ignore[arg-type]\n        return rv")]},
    {"name": "wrapper-notifies-before", "expect": "R16.1", "edits": [(M, "        rv = f(self, *args, **kwargs)\n\n        if self.on_update is not None:\n            self.on_update(self)\n\n        return rv", "        if self.on_update is not None:\n            self.on_update(self)\n\n        rv = f(self, *args, **kwargs)\n        return rv")]},
    {"name": "headerset-sort-silent", "expect": "R16.2", "edits": [(S, "    def as_set(self, preserve_casing: bool = False) -> set[str]:", "    def sort(self) -> None:\n        self._headers.sort()\n\n    def as_set(self, preserve_casing: bool = False) -> set[str]:")]},
    {"name": "headerset-delitem-silent", "expect": "R16.2", "edits": [(S, "        rv = self._headers.pop(idx)\n        self._set.remove(rv.lower())\n        if self.on_update is not None:\n            self.on_update(self)", "        rv = self._headers.pop(idx)\n        self._set.remove(rv.lower())")]},
    {"name": "token-setter-silent", "expect": "R16.3", "edits": [(A, "        self._token = value\n        self._trigger_on_update()", "        self._token = value")]},
    {"name": "parameters-dict-without-trigger", "expect": "R16.3", "edits": [(A, "        self._parameters = CallbackDict(value, lambda _: self._trigger_on_update())", "        self._parameters = CallbackDict(value)")]},
    {"name": "content-range-length-or-star", "expect": "R16.3", "edits": [(RG, "        if self._length is None:\n            length: str | int = \"*\"\n        else:\n            length = self._length\n", "        length: str | int = self._length or \"*\"\n")]},
    {"name": "setattr-forgets-token", "expect": "R16.4", "edits": [(A, '            "token",\n            "_type",', '            "_type",')]},
    {"name": "allow-callback-writes-vary", "expect": "R16.5", "edits": [(R, "            elif header_set:\n                self.headers[name] = header_set.to_header()", "            elif header_set:\n                self.headers[\"Vary\"] = header_set.to_header()")]},
    {"name": "content-range-fallback-detached", "expect": "R16.5", "edits": [(R, "            rv = ContentRange(None, None, None, on_update=on_update)", "            rv = ContentRange(None, None, None)")]},
    {"name": "csp-report-only-writes-plain", "expect": "R16.5", "edits": [(R, '                self.headers["Content-Security-policy-report-only"] = csp.to_header()', '                self.headers["Content-Security-Policy"] = csp.to_header()')]},
    {"name": "cache-control-no-delete", "expect": "R16.5", "edits": [(R, "            if not cache_control and \"cache-control\" in self.headers:\n                del self.headers[\"cache-control\"]\n            elif cache_control:", "            if cache_control:")]},
    {"name": "date-dumped-with-str", "expect": "R16.6", "edits": [(R, '        "Date",\n        None,\n        parse_date,\n        http_date,', '        "Date",\n        None,\n        parse_date,\n        str,')]},
    {"name": "type-setter-raw", "expect": "R16.7", "edits": [(A, "        self._type = value.lower()\n        self._trigger_on_update()", "        self._type = value\n        self._trigger_on_update()")]},
]
TWINS = [
    {"name": "pop-early-return-style", "edits": [(M, "        if modified and self.on_update is not None:\n            self.on_update(self)\n        return rv\n\n    @_always_update\n    def __setitem__", "        if not modified or self.on_update is None:\n            return rv\n        self.on_update(self)\n        return rv\n\n    @_always_update\n    def __setitem__")]},
    {"name": "headerset-new-method-through-update", "edits": [(S, "    def as_set(self, preserve_casing: bool = False) -> set[str]:", "    def add_all(self, *headers: str) -> None:\n        self.update(headers)\n\n    def as_set(self, preserve_casing: bool = False) -> set[str]:")]},
]
