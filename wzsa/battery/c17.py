"""self-validation battery for C17."""
H = "http.py"
A = "datastructures/accept.py"

_RANGE = "            if q < 0 or q > 1:\n                # ignore an invalid q\n                continue\n"
_GATE = "            if quality <= 0 or quality < best_quality:\n                continue\n"
_REPL = "            if quality > best_quality or specificity > best_specificity:\n"
_KEY = "                values, key=lambda x: (self._specificity(x[0]), x[1]), reverse=True\n"
_BSM = "        for client_item, quality in self:\n            if self._value_matches(match, client_item):\n                # self is sorted by specificity descending, we can exit\n                return client_item, quality\n        return None"

_MAPBACK = "            return next(\n                item\n                for item in matches\n                if _locale_delim_re.split(item, 1)[0] == result\n            )"

MUTANTS = [
    # ---- R17.1 ----
    {"name": "range-check-removed", "expect": "R17.1", "edits": [(H, _RANGE, "")]},
    {"name": "upper-bound-conjunct-dropped", "expect": "R17.1", "edits": [(H, "            if q < 0 or q > 1:\n", "            if q < 0:\n")]},
    {"name": "upper-bound-rejects-one", "expect": "R17.1", "edits": [(H, "            if q < 0 or q > 1:\n", "            if q < 0 or q >= 1:\n")]},
    {"name": "lower-bound-rejects-zero", "expect": "R17.1", "edits": [(H, "            if q < 0 or q > 1:\n", "            if q <= 0 or q > 1:\n")]},
    {"name": "range-check-after-append", "expect": "R17.1", "edits": [(H, _RANGE, ""), (H, "        result.append((item, q))\n", "        result.append((item, q))\n\n        if q < 0 or q > 1:\n            continue\n")]},
    {"name": "fullmatch-becomes-match", "expect": "R17.1", "edits": [(H, "            if _q_value_re.fullmatch(q_str) is None:", "            if _q_value_re.match(q_str) is None:")]},
    {"name": "pattern-loses-ascii-flag", "expect": "R17.1", "edits": [(H, '_q_value_re = re.compile(r"-?\\d+(\\.\\d+)?", re.ASCII)', '_q_value_re = re.compile(r"-?\\d+(\\.\\d+)?")')]},
    {"name": "pattern-admits-exponent", "expect": "R17.1", "edits": [(H, '_q_value_re = re.compile(r"-?\\d+(\\.\\d+)?", re.ASCII)', '_q_value_re = re.compile(r"-?\\d+(\\.\\d+)?(e-?\\d+)?", re.ASCII)')]},
    {"name": "pattern-requires-fraction", "expect": "R17.1", "edits": [(H, '_q_value_re = re.compile(r"-?\\d+(\\.\\d+)?", re.ASCII)', '_q_value_re = re.compile(r"-?\\d+\\.\\d+", re.ASCII)')]},
    {"name": "pattern-test-polarity-flipped", "expect": "R17.1", "edits": [(H, "            if _q_value_re.fullmatch(q_str) is None:", "            if _q_value_re.fullmatch(q_str) is not None:")]},
    {"name": "default-quality-zero", "expect": "R17.1", "edits": [(H, "        else:\n            q = 1\n\n        if options:", "        else:\n            q = 0\n\n        if options:")]},
    {"name": "tight-pattern-without-range-check", "expect": "R17.1", "edits": [(H, '_q_value_re = re.compile(r"-?\\d+(\\.\\d+)?", re.ASCII)', '_q_value_re = re.compile(r"(?:0|1)(?:\\.\\d{0,3})?", re.ASCII)'), (H, _RANGE, "")]},
    # ---- R17.2 ----
    {"name": "zero-quality-eligible", "expect": "R17.2", "edits": [(A, "            if quality <= 0 or quality < best_quality:", "            if quality < 0 or quality < best_quality:")]},
    {"name": "worse-quality-not-skipped", "expect": "R17.2", "edits": [(A, "            if quality <= 0 or quality < best_quality:", "            if quality <= 0:")]},
    {"name": "tie-replaces-earlier-offer", "expect": "R17.2", "edits": [(A, _REPL, "            if quality > best_quality or specificity >= best_specificity:\n")]},
    {"name": "rank-tuple-specificity-major", "expect": "R17.2", "edits": [(A, _REPL, "            if (specificity, quality) > (best_specificity, best_quality):\n")]},
    {"name": "equal-quality-never-replaces", "expect": "R17.2", "edits": [(A, _REPL, "            if quality > best_quality:\n")]},
    {"name": "no-match-not-skipped", "expect": "R17.2", "edits": [(A, "            if not match:\n                continue\n            client_item, quality = match", "            if not match:\n                pass\n            client_item, quality = match")]},
    {"name": "best-quality-not-updated", "expect": "R17.2", "edits": [(A, "                result = server_item\n                best_quality = quality\n", "                result = server_item\n")]},
    {"name": "best-quality-starts-at-one", "expect": "R17.2", "edits": [(A, "        best_quality: float = -1\n", "        best_quality: float = 1\n")]},
    {"name": "offers-visited-backwards", "expect": "R17.2", "edits": [(A, "        for server_item in matches:\n            match = self._best_single_match(server_item)", "        for server_item in reversed(list(matches)):\n            match = self._best_single_match(server_item)")]},
    {"name": "language-fallback-forgets-q", "expect": "R17.2", "edits": [(A, "[(_locale_delim_re.split(item[0], 1)[0], item[1]) for item in self]", "[(_locale_delim_re.split(item[0], 1)[0], 1) for item in self]")]},
    {"name": "language-fallback-overrides-exact", "expect": "R17.2", "edits": [(A, "        result = super().best_match(matches)\n\n        if result is not None:\n            return result\n\n        # Fall back to accepting primary tags.", "        result = super().best_match(matches)\n\n        # Fall back to accepting primary tags.")]},
    {"name": "language-last-resort-first-offer", "expect": "R17.2", "edits": [(A, "        return default\n\n\nclass CharsetAccept", "        return next(iter(matches), default)\n\n\nclass CharsetAccept")]},
    {"name": "language-tag-mapped-back-by-prefix", "expect": "R17.2", "edits": [(A, "                if _locale_delim_re.split(item, 1)[0] == result\n", "                if item.startswith(result)\n")]},
    {"name": "language-maps-back-last-offer", "expect": "R17.2", "edits": [(A, _MAPBACK, "            return [\n                item\n                for item in matches\n                if _locale_delim_re.split(item, 1)[0] == result\n            ][-1]")]},
    # ---- R17.3 ----
    {"name": "sort-key-quality-major", "expect": "R17.3", "edits": [(A, _KEY, "                values, key=lambda x: (x[1], self._specificity(x[0])), reverse=True\n")]},
    {"name": "sort-key-without-quality", "expect": "R17.3", "edits": [(A, _KEY, "                values, key=lambda x: self._specificity(x[0]), reverse=True\n")]},
    {"name": "sort-ascending", "expect": "R17.3", "edits": [(A, _KEY, "                values, key=lambda x: (self._specificity(x[0]), x[1])\n")]},
    {"name": "sort-key-alphabetical-ties", "expect": "R17.3", "edits": [(A, _KEY, "                values, key=lambda x: (self._specificity(x[0]), x[1], x[0]), reverse=True\n")]},
    {"name": "sorted-then-reversed-slice", "expect": "R17.3", "edits": [(A, "            values = sorted(\n" + _KEY + "            )\n", "            values = sorted(\n                values, key=lambda x: (self._specificity(x[0]), x[1])\n            )[::-1]\n")]},
    {"name": "single-match-scans-backwards", "expect": "R17.3", "edits": [(A, "        for client_item, quality in self:\n            if self._value_matches(match, client_item):", "        for client_item, quality in reversed(self):\n            if self._value_matches(match, client_item):")]},
    {"name": "single-match-arguments-swapped", "expect": "R17.3", "edits": [(A, "            if self._value_matches(match, client_item):", "            if self._value_matches(client_item, match):")]},
    {"name": "quality-defaults-to-one", "expect": "R17.3", "edits": [(A, "            if self._value_matches(key, item):\n                return quality\n        return 0", "            if self._value_matches(key, item):\n                return quality\n        return 1")]},
    {"name": "mime-specificity-inverted", "expect": "R17.3", "edits": [(A, '        return tuple(x != "*" for x in _mime_split_re.split(value))', '        return tuple(x == "*" for x in _mime_split_re.split(value))')]},
    {"name": "parser-prepends-items", "expect": "R17.3", "edits": [(H, "        result.append((item, q))\n", "        result.append((item, q))\n        result.reverse()\n")]},
    # ---- R17.4 ----
    {"name": "base-wildcard-dropped", "expect": "R17.4", "edits": [(A, '        return item == "*" or item.lower() == value.lower()', "        return item.lower() == value.lower()")]},
    {"name": "language-wildcard-on-offer", "expect": "R17.4", "edits": [(A, '        return item == "*" or _normalize_lang(value) == _normalize_lang(item)', '        return value == "*" or _normalize_lang(value) == _normalize_lang(item)')]},
    {"name": "charset-wildcard-dropped", "expect": "R17.4", "edits": [(A, '        return item == "*" or _normalize(value) == _normalize(item)', "        return _normalize(value) == _normalize(item)")]},
    {"name": "charset-range-not-normalised", "expect": "R17.4", "edits": [(A, '        return item == "*" or _normalize(value) == _normalize(item)', '        return item == "*" or _normalize(value) == item')]},
    {"name": "base-offer-not-lowercased", "expect": "R17.4", "edits": [(A, '        return item == "*" or item.lower() == value.lower()', '        return item == "*" or item.lower() == value')]},
    {"name": "mime-subtype-wildcard-dropped", "expect": "R17.4", "edits": [(A, '                item_subtype == "*"\n                or value_subtype == "*"', '                value_subtype == "*"')]},
    {"name": "mime-full-wildcard-needs-type-only", "expect": "R17.4", "edits": [(A, '            (item_type == "*" and item_subtype == "*")\n', '            (item_type == "*" and item_subtype != "*")\n')]},
    {"name": "mime-params-ignored", "expect": "R17.4", "edits": [(A, "(item_subtype == value_subtype and item_params == value_params)", "(item_subtype == value_subtype)")]},
    {"name": "mime-split-loses-case-folding", "expect": "R17.4", "edits": [(A, "    return _mime_split_re.split(value.lower())", "    return _mime_split_re.split(value)")]},
]

TWINS = [
    {"name": "replace-condition-commuted", "edits": [(A, _REPL, "            if specificity > best_specificity or quality > best_quality:\n")]},
    {"name": "gate-split-into-early-continues", "edits": [(A, _GATE, "            if quality <= 0:\n                continue\n            if quality < best_quality:\n                continue\n")]},
    {"name": "rank-tuple-quality-major", "edits": [(A, _REPL, "            if (quality, specificity) > (best_quality, best_specificity):\n")]},
    {"name": "rank-tuple-state-variable", "edits": [
        (A, "        best_quality: float = -1\n        best_specificity: tuple[float, ...] = (-1,)\n", "        best: tuple[float, tuple[float, ...]] = (-1, (-1,))\n"),
        (A, "            specificity = self._specificity(client_item)\n" + _GATE + "            # better quality or same quality but more specific => better match\n" + _REPL + "                result = server_item\n                best_quality = quality\n                best_specificity = specificity\n",
         "            if quality <= 0:\n                continue\n            rank = (quality, self._specificity(client_item))\n            if rank > best:\n                result = server_item\n                best = rank\n"),
    ]},
    {"name": "match-test-is-none-and-flipped-branches", "edits": [(A, "            if not match:\n                continue\n            client_item, quality = match", "            if match is None:\n                continue\n            client_item, quality = match")]},
    {"name": "range-check-chained-comparison", "edits": [(H, "            if q < 0 or q > 1:\n", "            if not 0 <= q <= 1:\n")]},
    {"name": "range-check-after-the-branches", "edits": [(H, _RANGE, ""), (H, "        if options:\n            # reconstruct", "        if q < 0 or q > 1:\n            # ignore an invalid q\n            continue\n\n        if options:\n            # reconstruct")]},
    {"name": "pattern-test-via-local-and-truthiness", "edits": [(H, "            if _q_value_re.fullmatch(q_str) is None:\n", "            q_match = _q_value_re.fullmatch(q_str)\n\n            if not q_match:\n")]},
    # property-preserving rather than byte-for-byte: the range is enforced by the pattern's language instead of the comparison
    {"name": "range-enforced-by-pattern-language", "edits": [(H, '_q_value_re = re.compile(r"-?\\d+(\\.\\d+)?", re.ASCII)', '_q_value_re = re.compile(r"(?:0(?:\\.\\d+)?|1(?:\\.0+)?)", re.ASCII)'), (H, _RANGE, "")]},
    {"name": "single-match-returns-the-pair", "edits": [(A, _BSM, "        for pair in self:\n            if self._value_matches(match, pair[0]):\n                return pair\n        return None")]},
    {"name": "base-wildcard-early-return", "edits": [(A, '        return item == "*" or item.lower() == value.lower()', '        if item == "*":\n            return True\n        return value.lower() == item.lower()')]},
    {"name": "sort-key-named-components", "edits": [(A, _KEY, "                values, key=lambda pair: (self._specificity(pair[0]), pair[1]), reverse=True\n")]},
    {"name": "language-fallback-tuple-target", "edits": [(A, "[(_locale_delim_re.split(item[0], 1)[0], item[1]) for item in self]", "[(_locale_delim_re.split(tag, 1)[0], q) for tag, q in self]")]},
]

_PAH = (
    '        if "q" in options:\n            # pop q, remaining options are reconstructed\n            q_str = options.pop("q").strip()\n\n'
    "            if _q_value_re.fullmatch(q_str) is None:\n                # ignore an invalid q\n                continue\n\n            q = float(q_str)\n\n"
    + _RANGE + "        else:\n            q = 1\n"
)
_LOOP_BODY = (
    "            if not match:\n                continue\n            client_item, quality = match\n            specificity = self._specificity(client_item)\n"
    + _GATE + "            # better quality or same quality but more specific => better match\n" + _REPL
    + "                result = server_item\n                best_quality = quality\n                best_specificity = specificity\n"
)
_INIT = (
    "        if values is None:\n            super().__init__()\n            self.provided = False\n        elif isinstance(values, Accept):\n"
    "            self.provided = values.provided\n            super().__init__(values)\n        else:\n            self.provided = True\n"
    "            values = sorted(\n" + _KEY + "            )\n            super().__init__(values)\n"
)

TWINS += [
    {"name": "parser-branches-flipped", "edits": [(H, _PAH, '        if "q" not in options:\n            q = 1\n        else:\n            q_str = options.pop("q").strip()\n\n            if _q_value_re.fullmatch(q_str) is None:\n                continue\n\n            q = float(q_str)\n\n            if q < 0 or q > 1:\n                continue\n')]},
    {"name": "parser-locals-renamed-bounds-reordered", "edits": [
        (H, _PAH, '        if "q" in options:\n            raw = options.pop("q").strip()\n\n            if not _q_value_re.fullmatch(raw):\n                continue\n\n            weight = float(raw)\n\n            if weight > 1 or weight < 0:\n                continue\n        else:\n            weight = 1.0\n'),
        (H, "        result.append((item, q))\n", "        result.append((item, weight))\n"),
    ]},
    {"name": "parser-default-first-positive-nesting", "edits": [(H, _PAH, '        q = 1\n        if "q" in options:\n            q_str = options.pop("q").strip()\n            if _q_value_re.fullmatch(q_str) is not None:\n                q = float(q_str)\n                if not (0 <= q <= 1):\n                    continue\n            else:\n                continue\n')]},
    {"name": "quality-built-on-single-match", "edits": [(A, "        for item, quality in self:\n            if self._value_matches(key, item):\n                return quality\n        return 0", "        found = self._best_single_match(key)\n        return found[1] if found else 0")]},
    {"name": "language-stage-bound-by-walrus", "edits": [(A, "        result = super().best_match(matches)\n\n        if result is not None:\n            return result\n\n        # Fall back to accepting primary tags.", "        if (result := super().best_match(matches)) is not None:\n            return result\n\n        # Fall back to accepting primary tags.")]},
    {"name": "replace-branches-duplicated-elif", "edits": [(A, _REPL + "                result = server_item\n                best_quality = quality\n                best_specificity = specificity\n",
        "            if quality > best_quality:\n                result = server_item\n                best_quality = quality\n                best_specificity = specificity\n            elif specificity > best_specificity:\n                result = server_item\n                best_quality = quality\n                best_specificity = specificity\n")]},
    {"name": "loop-body-positive-nesting-reordered-updates", "edits": [(A, _LOOP_BODY,
        "            if match is not None:\n                client_item, quality = match\n                if quality > 0 and quality >= best_quality:\n                    specificity = self._specificity(client_item)\n"
        "                    if quality > best_quality or specificity > best_specificity:\n                        best_specificity = specificity\n                        best_quality = quality\n                        result = server_item\n")]},
    {"name": "loop-gate-merged-on-match-components", "edits": [(A, "            if not match:\n                continue\n            client_item, quality = match\n            specificity = self._specificity(client_item)\n" + _GATE,
        "            if not match or match[1] <= 0 or match[1] < best_quality:\n                continue\n            client_item, quality = match\n            specificity = self._specificity(client_item)\n")]},
    {"name": "base-specificity-conditional-expression", "edits": [(A, '        return (value != "*",)', '        return (0,) if value == "*" else (1,)')]},
    {"name": "init-early-returns-sorted-into-new-local", "edits": [(A, _INIT,
        "        if values is None:\n            super().__init__()\n            self.provided = False\n            return\n        if isinstance(values, Accept):\n            self.provided = values.provided\n            super().__init__(values)\n            return\n"
        "        self.provided = True\n        ordered = sorted(\n            values, reverse=True, key=lambda x: (self._specificity(x[0]), x[1])\n        )\n        super().__init__(ordered)\n")]},
    {"name": "mime-full-wildcard-early-return", "edits": [(A, '        return (\n            (item_type == "*" and item_subtype == "*")\n            or (value_type == "*" and value_subtype == "*")\n        ) or (',
        '        if item_type == "*" and item_subtype == "*":\n            return True\n\n        return (value_type == "*" and value_subtype == "*") or (')]},
]


# ---- refactored shapes (helper extraction, equivalent stdlib idioms, result variables) and defects seeded on top of them ----
_SORT = "            values = sorted(\n" + _KEY + "            )\n            super().__init__(values)\n"
_OVERLOAD = "@t.overload\ndef parse_accept_header(value: str | None) -> ds.Accept: ..."
_QHELPER = (
    "def _accept_quality(raw):\n    text = raw.strip()\n    if not _q_value_re.fullmatch(text):\n        return None\n"
    "    number = float(text)\n    return number if 0 <= number <= 1 else None\n\n\n"
)
_PAH_HELPER = (
    '        q = 1\n\n        if "q" in options:\n            if (given := _accept_quality(options.pop("q"))) is None:\n                continue\n\n            q = given\n'
)
_BASE_VM = '        return item == "*" or item.lower() == value.lower()'
_LANG_VM = '        return item == "*" or _normalize_lang(value) == _normalize_lang(item)'
_CHARSET_VM = '        return item == "*" or _normalize(value) == _normalize(item)'
_MIME_SPEC = '        return tuple(x != "*" for x in _mime_split_re.split(value))'
_MIME_TAIL = (
    "        normalized_value = _normalize_mime(value)\n        value_type, value_subtype = normalized_value[:2]\n        value_params = sorted(normalized_value[2:])\n"
)
_LANG_STAGE3 = "        fallback_matches = [_locale_delim_re.split(item, 1)[0] for item in matches]\n        result = super().best_match(fallback_matches)\n"
_LANG_FALLBACK = "        fallback = Accept(\n            [(_locale_delim_re.split(item[0], 1)[0], item[1]) for item in self]\n        )\n"
_BSM_NEXT = "        return next(((rng, q) for rng, q in self if self._value_matches(match, rng)), None)"
_BSM_BREAK = "        hit = None\n        for rng, q in self:\n            if self._value_matches(match, rng):\n                hit = (rng, q)\n                break\n        return hit"

TWINS += [
    {"name": "q-parsing-in-helper-conditional-return-walrus", "edits": [(H, _OVERLOAD, _QHELPER + _OVERLOAD), (H, _PAH, _PAH_HELPER)]},
    {"name": "q-pattern-test-in-predicate-helper", "edits": [(H, _OVERLOAD, "def _q_ok(text):\n    return _q_value_re.fullmatch(text) is not None\n\n\n" + _OVERLOAD), (H, "            if _q_value_re.fullmatch(q_str) is None:\n", "            if not _q_ok(q_str):\n")]},
    {"name": "single-match-next-over-generator", "edits": [(A, _BSM, _BSM_NEXT)]},
    {"name": "single-match-search-loop-with-break", "edits": [(A, _BSM, _BSM_BREAK)]},
    {"name": "quality-next-over-generator", "edits": [(A, "        for item, quality in self:\n            if self._value_matches(key, item):\n                return quality\n        return 0", "        return next((q for rng, q in self if self._value_matches(key, rng)), 0)")]},
    {"name": "loop-one-tuple-assignment-for-choice-and-state", "edits": [(A, "                result = server_item\n                best_quality = quality\n                best_specificity = specificity\n", "                result, best_quality, best_specificity = server_item, quality, specificity\n")]},
    {"name": "loop-state-initialised-by-tuple-assignment", "edits": [(A, "        result = default\n        best_quality: float = -1\n        best_specificity: tuple[float, ...] = (-1,)\n", "        result, best_quality, best_specificity = default, -1, (-1,)\n")]},
    {"name": "loop-default-applied-after-the-loop", "edits": [(A, "        result = default\n        best_quality: float = -1", "        result = None\n        best_quality: float = -1"), (A, "                best_specificity = specificity\n        return result\n", "                best_specificity = specificity\n        return default if result is None else result\n")]},
    {"name": "loop-comparison-in-private-method", "edits": [(A, _REPL, "            if self._outranks(quality, specificity, best_quality, best_specificity):\n"), (A, "    @property\n    def best(self)", "    def _outranks(self, q, s, bq, bs):\n        if q > bq:\n            return True\n        return s > bs\n\n    @property\n    def best(self)")]},
    {"name": "init-list-sort-in-place", "edits": [(A, _SORT, "            ordered = list(values)\n            ordered.sort(key=lambda x: (self._specificity(x[0]), x[1]), reverse=True)\n            super().__init__(ordered)\n")]},
    {"name": "init-sort-key-nested-function", "edits": [(A, _SORT, "            def rank(pair):\n                return self._specificity(pair[0]), pair[1]\n\n            super().__init__(sorted(values, key=rank, reverse=True))\n")]},
    {"name": "base-match-result-variable", "edits": [(A, _BASE_VM, '        matched = False\n        if item == "*":\n            matched = True\n        elif item.lower() == value.lower():\n            matched = True\n        return matched')]},
    {"name": "language-match-normalised-locals", "edits": [(A, _LANG_VM, '        if item == "*":\n            return True\n        offered = _normalize_lang(value)\n        accepted = _normalize_lang(item)\n        return offered == accepted')]},
    {"name": "charset-match-in-module-helper", "edits": [(A, _CHARSET_VM, '        return item == "*" or _same_charset(value, item)'), (A, "class CharsetAccept(Accept):", "def _norm_charset(name):\n    try:\n        return codecs.lookup(name).name\n    except LookupError:\n        return name.lower()\n\n\ndef _same_charset(a, b):\n    return _norm_charset(a) == _norm_charset(b)\n\n\nclass CharsetAccept(Accept):")]},
    {"name": "mime-specificity-append-loop", "edits": [(A, _MIME_SPEC, '        out = []\n        for part in _mime_split_re.split(value):\n            out.append(part != "*")\n        return tuple(out)')]},
    {"name": "mime-split-in-helper-returning-triple", "edits": [
        (A, "class MIMEAccept(Accept):", "def _mime_parts(text):\n    pieces = _normalize_mime(text)\n    return pieces[0], pieces[1], sorted(pieces[2:])\n\n\nclass MIMEAccept(Accept):"),
        (A, _MIME_TAIL, "        value_type, value_subtype, value_params = _mime_parts(value)\n"),
        (A, "        normalized_item = _normalize_mime(item)\n        item_type, item_subtype = normalized_item[:2]\n        item_params = sorted(normalized_item[2:])\n", "        item_type, item_subtype, item_params = _mime_parts(item)\n"),
    ]},
    {"name": "language-map-back-search-loop", "edits": [(A, "        if result is not None:\n" + _MAPBACK + "\n\n        return default", "        if result is not None:\n            for item in matches:\n                if _locale_delim_re.split(item, 1)[0] == result:\n                    return item\n\n        return default")]},
    {"name": "language-fallback-ranges-built-by-loop", "edits": [(A, _LANG_FALLBACK, "        primary = []\n        for tag, q in self:\n            primary.append((_locale_delim_re.split(tag, 1)[0], q))\n        fallback = Accept(primary)\n")]},
    {"name": "language-first-offer-per-primary-tag-mapping", "edits": [(A, _LANG_STAGE3, "        by_primary = {}\n        for item in matches:\n            by_primary.setdefault(_locale_delim_re.split(item, 1)[0], item)\n        result = super().best_match(list(by_primary))\n"), (A, _MAPBACK, "            return by_primary[result]")]},
    {"name": "language-primary-tag-helper", "edits": [(A, "[(_locale_delim_re.split(item[0], 1)[0], item[1]) for item in self]", "[(_primary_tag(item[0]), item[1]) for item in self]"), (A, "[_locale_delim_re.split(item, 1)[0] for item in matches]", "[_primary_tag(item) for item in matches]"),
        (A, "if _locale_delim_re.split(item, 1)[0] == result", "if _primary_tag(item) == result"), (A, "class LanguageAccept(Accept):", "def _primary_tag(tag):\n    return _locale_delim_re.split(tag, 1)[0]\n\n\nclass LanguageAccept(Accept):")]},
    # stage 3 can only yield a tag that is itself an offer when stage 1 already matched that offer: unreachable shortcut (differentially tested)
    {"name": "language-derived-tag-shortcut-unreachable", "edits": [(A, "        result = super().best_match(fallback_matches)\n", "        result = super().best_match(fallback_matches)\n\n        if result in matches:\n            return result\n")]},
]

MUTANTS += [
    {"name": "helper-upper-bound-dropped", "expect": "R17.1", "edits": [(H, _OVERLOAD, _QHELPER.replace("0 <= number <= 1", "0 <= number") + _OVERLOAD), (H, _PAH, _PAH_HELPER)]},
    {"name": "helper-result-tested-for-truth-drops-zero", "expect": "R17.1", "edits": [(H, _OVERLOAD, _QHELPER + _OVERLOAD), (H, _PAH, _PAH_HELPER.replace("if (given := _accept_quality(options.pop(\"q\"))) is None:", "if not (given := _accept_quality(options.pop(\"q\"))):"))]},
    {"name": "helper-rejected-q-falls-back-to-default", "expect": "R17.1", "edits": [(H, _OVERLOAD, _QHELPER + _OVERLOAD), (H, _PAH, '        q = 1\n\n        if "q" in options:\n            if (given := _accept_quality(options.pop("q"))) is not None:\n                q = given\n')]},
    {"name": "helper-pattern-prefix-match", "expect": "R17.1", "edits": [(H, _OVERLOAD, _QHELPER.replace("fullmatch", "match") + _OVERLOAD), (H, _PAH, _PAH_HELPER)]},
    {"name": "out-of-range-q-raises", "expect": "R17.1", "edits": [(H, _RANGE, "            if q < 0 or q > 1:\n                raise ValueError(q_str)\n")]},
    {"name": "single-match-next-scans-backwards", "expect": "R17.3", "edits": [(A, _BSM, _BSM_NEXT.replace("in self if", "in reversed(self) if"))]},
    {"name": "single-match-next-without-default", "expect": "R17.3", "edits": [(A, _BSM, _BSM_NEXT.replace(", None)", ")"))]},
    {"name": "single-match-search-loop-last-wins", "expect": "R17.3", "edits": [(A, _BSM, _BSM_BREAK.replace("                break\n", ""))]},
    {"name": "init-list-sort-ascending", "expect": "R17.3", "edits": [(A, _SORT, "            ordered = list(values)\n            ordered.sort(key=lambda x: (self._specificity(x[0]), x[1]))\n            super().__init__(ordered)\n")]},
    {"name": "init-list-sorted-copy-not-stored", "expect": "R17.3", "edits": [(A, _SORT, "            ordered = list(values)\n            ordered.sort(key=lambda x: (self._specificity(x[0]), x[1]), reverse=True)\n            super().__init__(values)\n")]},
    {"name": "tuple-assignment-forgets-best-quality", "expect": "R17.2", "edits": [(A, "                result = server_item\n                best_quality = quality\n                best_specificity = specificity\n", "                result, best_specificity = server_item, specificity\n")]},
    {"name": "private-method-comparison-ties-replace", "expect": "R17.2", "edits": [(A, _REPL, "            if self._outranks(quality, specificity, best_quality, best_specificity):\n"), (A, "    @property\n    def best(self)", "    def _outranks(self, q, s, bq, bs):\n        if q > bq:\n            return True\n        return s >= bs\n\n    @property\n    def best(self)")]},
    {"name": "default-returned-even-when-chosen", "expect": "R17.2", "edits": [(A, "                best_specificity = specificity\n        return result\n", "                best_specificity = specificity\n        return default if result is not None else result\n")]},
    {"name": "language-fallback-loop-forgets-q", "expect": "R17.2", "edits": [(A, _LANG_FALLBACK, "        primary = []\n        for tag, q in self:\n            primary.append((_locale_delim_re.split(tag, 1)[0], 1))\n        fallback = Accept(primary)\n")]},
    {"name": "language-mapping-keeps-last-offer-per-tag", "expect": "R17.2", "edits": [(A, _LANG_STAGE3, "        by_primary = {_locale_delim_re.split(item, 1)[0]: item for item in matches}\n        result = super().best_match(list(by_primary))\n"), (A, _MAPBACK, "            return by_primary[result]")]},
    {"name": "language-fallback-object-is-language-accept", "expect": "R17.2", "edits": [(A, "        fallback = Accept(\n            [(_locale_delim_re", "        fallback = LanguageAccept(\n            [(_locale_delim_re")]},
    {"name": "charset-helper-compares-raw-range", "expect": "R17.4", "edits": [(A, _CHARSET_VM, '        return item == "*" or _same_charset(value, item)'), (A, "class CharsetAccept(Accept):", "def _norm_charset(name):\n    try:\n        return codecs.lookup(name).name\n    except LookupError:\n        return name.lower()\n\n\ndef _same_charset(a, b):\n    return _norm_charset(a) == b\n\n\nclass CharsetAccept(Accept):")]},
    {"name": "base-match-result-variable-loses-wildcard", "expect": "R17.4", "edits": [(A, _BASE_VM, '        matched = False\n        if item.lower() == value.lower():\n            matched = True\n        return matched')]},
    {"name": "mime-helper-early-returns-lose-subtype-wildcard", "expect": "R17.4", "edits": [
        (A, "        return (\n            (item_type == \"*\" and item_subtype == \"*\")\n            or (value_type == \"*\" and value_subtype == \"*\")\n        ) or (\n            item_type == value_type\n            and (\n                item_subtype == \"*\"\n                or value_subtype == \"*\"\n                or (item_subtype == value_subtype and item_params == value_params)\n            )\n        )",
         "        if item_type == \"*\" or value_type == \"*\":\n            return True\n        if item_type != value_type:\n            return False\n        if value_subtype == \"*\":\n            return True\n        return item_subtype == value_subtype and item_params == value_params")]},
    {"name": "mime-specificity-loop-inverted", "expect": "R17.3", "edits": [(A, _MIME_SPEC, '        out = []\n        for part in _mime_split_re.split(value):\n            out.append(part == "*")\n        return tuple(out)')]},
]


# ---- round 2: flags computed on one branch structure and tested later, values through helpers / lambdas / keyword arguments ----
_BM = (
    "        result = default\n        best_quality: float = -1\n        best_specificity: tuple[float, ...] = (-1,)\n        for server_item in matches:\n"
    "            match = self._best_single_match(server_item)\n" + _LOOP_BODY + "        return result\n"
)
_BM_HEAD = (
    "        result = default\n        best_quality: float = -1\n        best_specificity: tuple[float, ...] = (-1,)\n        for server_item in matches:\n"
    "            match = self._best_single_match(server_item)\n            if match is None:\n                continue\n            client_item, quality = match\n"
)
_BM_TAIL = "                result = server_item\n                best_quality = quality\n                best_specificity = specificity\n        return result\n"


def _bm(mid: str, tail: str = _BM_TAIL) -> list:
    return [(A, _BM, _BM_HEAD + mid + tail)]


_FLAG_ELIF = (
    "            if quality <= 0:\n                continue\n            specificity = self._specificity(client_item)\n"
    "            if quality > best_quality:\n                better = True\n            elif quality == best_quality:\n                better = specificity > best_specificity\n"
    "            else:\n                better = False\n            if better:\n"
)
_FLAG_DEFAULT = (
    "            specificity = self._specificity(client_item)\n            replace = False\n            if quality > 0:\n"
    "                if quality > best_quality:\n                    replace = True\n                elif quality == best_quality and specificity > best_specificity:\n                    replace = True\n"
    "            if replace:\n"
)
_FLAG_NAMED = (
    "            specificity = self._specificity(client_item)\n            acceptable = quality > 0\n            higher = quality > best_quality\n            tie = quality == best_quality\n"
    "            more_specific = specificity > best_specificity\n            if acceptable and (higher or (tie and more_specific)):\n"
)
_FLAG_SKIP = (
    "            specificity = self._specificity(client_item)\n            skip = True if quality <= 0 else quality < best_quality\n            if skip:\n                continue\n"
    "            wins = quality > best_quality\n            wins |= specificity > best_specificity\n            if wins:\n"
)
_FLAG_NEGATED = (
    "            specificity = self._specificity(client_item)\n            if quality <= 0 or quality < best_quality:\n                keep_earlier = True\n"
    "            else:\n                keep_earlier = not (quality > best_quality or specificity > best_specificity)\n            if keep_earlier:\n                continue\n"
)
_FLAG_NEGATED_TAIL = "            result = server_item\n            best_quality = quality\n            best_specificity = specificity\n        return result\n"

TWINS += [
    {"name": "flag-if-elif-else-then-tested", "edits": _bm(_FLAG_ELIF)},
    {"name": "flag-default-false-overridden-in-branches", "edits": _bm(_FLAG_DEFAULT)},
    {"name": "flags-named-conjuncts-combined", "edits": _bm(_FLAG_NAMED)},
    {"name": "flag-conditional-expression-and-augmented-or", "edits": _bm(_FLAG_SKIP)},
    {"name": "flag-negated-keeps-earlier", "edits": _bm(_FLAG_NEGATED, _FLAG_NEGATED_TAIL)},
]

_QHELPER_FLAGS = (
    "def _quality_of(raw):\n    text = raw.strip()\n    well_formed = _q_value_re.fullmatch(text) is not None\n    if not well_formed:\n        return None\n"
    "    number = float(text)\n    in_range = 0 <= number <= 1\n    return number if in_range else None\n\n\n"
)
_PAH_FLAGS = (
    '        if "q" in options:\n            q_str = options.pop("q").strip()\n            q_ok = bool(_q_value_re.fullmatch(q_str))\n\n            if not q_ok:\n                continue\n\n'
    "            q = float(q_str)\n            out_of_range = q < 0 or q > 1\n\n            if out_of_range:\n                continue\n        else:\n            q = 1\n"
)
_PAH_FLAG_BRANCHES = (
    '        if "q" in options:\n            q_str = options.pop("q").strip()\n\n            if _q_value_re.fullmatch(q_str) is None:\n                usable = False\n            else:\n'
    "                q = float(q_str)\n                usable = 0 <= q <= 1\n\n            if not usable:\n                continue\n        else:\n            q = 1\n"
)
_PAH_PATTERN_FLAG_BRANCHES = (
    '        if "q" in options:\n            q_str = options.pop("q").strip()\n\n            if _q_value_re.fullmatch(q_str):\n                numeric = True\n            else:\n                numeric = False\n\n'
    "            if not numeric:\n                continue\n\n            q = float(q_str)\n\n" + _RANGE + "        else:\n            q = 1\n"
)
_QHELPER_PAIR = (
    "def _read_quality(raw):\n    text = raw.strip()\n    if _q_value_re.fullmatch(text) is None:\n        return False, 0.0\n"
    "    number = float(text)\n    return 0 <= number <= 1, number\n\n\n"
)
_PAH_PAIR = '        q = 1\n\n        if "q" in options:\n            ok, q = _read_quality(options.pop("q"))\n\n            if not ok:\n                continue\n'
_QHELPER_RAISES = (
    "def _checked_quality(raw):\n    text = raw.strip()\n    if _q_value_re.fullmatch(text) is None:\n        raise ValueError(text)\n"
    "    number = float(text)\n    if number < 0 or number > 1:\n        raise ValueError(text)\n    return number\n\n\n"
)
_PAH_RAISES = '        q = 1\n\n        if "q" in options:\n            try:\n                q = _checked_quality(options.pop("q"))\n            except ValueError:\n                continue\n'
_PAH_IFEXP = '        q = _accept_quality(options.pop("q")) if "q" in options else 1\n\n        if q is None:\n            continue\n'
_PAH_GROUP = (
    '        if "q" in options:\n            q_match = _q_value_re.fullmatch(options.pop("q").strip())\n\n            if q_match is None:\n                continue\n\n'
    "            q = float(q_match.group())\n\n" + _RANGE + "        else:\n            q = 1\n"
)
_PAH_RANGE_PREDICATE = "            if not _unit_interval(q):\n                continue\n"

TWINS += [
    {"name": "q-helper-with-named-flags", "edits": [(H, _OVERLOAD, _QHELPER_FLAGS + _OVERLOAD), (H, _PAH, _PAH_HELPER.replace("_accept_quality", "_quality_of"))]},
    {"name": "q-parser-named-flags", "edits": [(H, _PAH, _PAH_FLAGS)]},
    {"name": "q-parser-usable-flag-set-on-branches", "edits": [(H, _PAH, _PAH_FLAG_BRANCHES)]},
    {"name": "q-parser-pattern-flag-set-on-branches", "edits": [(H, _PAH, _PAH_PATTERN_FLAG_BRANCHES)]},
    {"name": "q-helper-returns-flag-and-value", "edits": [(H, _OVERLOAD, _QHELPER_PAIR + _OVERLOAD), (H, _PAH, _PAH_PAIR)]},
    {"name": "q-helper-raises-caller-skips", "edits": [(H, _OVERLOAD, _QHELPER_RAISES + _OVERLOAD), (H, _PAH, _PAH_RAISES)]},
    {"name": "q-helper-called-in-conditional-expression", "edits": [(H, _OVERLOAD, _QHELPER + _OVERLOAD), (H, _PAH, _PAH_IFEXP)]},
    {"name": "q-float-of-match-group", "edits": [(H, _PAH, _PAH_GROUP)]},
    {"name": "q-range-check-in-predicate-helper", "edits": [(H, _OVERLOAD, "def _unit_interval(x):\n    return 0 <= x <= 1\n\n\n" + _OVERLOAD), (H, _RANGE, _PAH_RANGE_PREDICATE)]},
]

_C17_5_FLAG = (
    "            specificity = self._specificity(client_item)\n            if quality <= 0:\n                continue\n            if quality < best_quality:\n                continue\n"
    "            if quality > best_quality:\n                is_better = True\n            else:\n                is_better = specificity > best_specificity\n            if is_better:\n"
)
_TUPLE_TAIL = "                result = server_item\n                best_quality, best_specificity = quality, specificity\n        return result\n"

TWINS += [
    {"name": "flag-if-else-after-split-continues-tuple-update", "edits": _bm(_C17_5_FLAG, _TUPLE_TAIL)},
]

MUTANTS += [
    # ---- R17.2: defects in the flag shapes ----
    {"name": "flag-if-else-tie-sets-flag", "expect": "R17.2", "edits": _bm(_C17_5_FLAG.replace("is_better = specificity > best_specificity", "is_better = specificity >= best_specificity"), _TUPLE_TAIL)},
    {"name": "flag-if-else-constant-inverted", "expect": "R17.2", "edits": _bm(_C17_5_FLAG.replace("is_better = True", "is_better = False"), _TUPLE_TAIL)},
    {"name": "flag-elif-lower-quality-compares-specificity", "expect": "R17.2", "edits": _bm(_FLAG_ELIF.replace("            else:\n                better = False\n", "            else:\n                better = specificity > best_specificity\n"))},
    {"name": "flag-default-override-forgets-equal-quality", "expect": "R17.2", "edits": _bm(_FLAG_DEFAULT.replace("elif quality == best_quality and specificity > best_specificity:", "elif specificity > best_specificity:"))},
    {"name": "flag-default-true", "expect": "R17.2", "edits": _bm(_FLAG_DEFAULT.replace("replace = False\n", "replace = True\n"))},
    {"name": "flags-named-tie-conjunct-dropped", "expect": "R17.2", "edits": _bm(_FLAG_NAMED.replace("(higher or (tie and more_specific))", "(higher or more_specific)"))},
    {"name": "flags-named-acceptable-includes-zero", "expect": "R17.2", "edits": _bm(_FLAG_NAMED.replace("acceptable = quality > 0", "acceptable = quality >= 0"))},
    {"name": "flag-conditional-expression-arms-swapped", "expect": "R17.2", "edits": _bm(_FLAG_SKIP.replace("skip = True if quality <= 0 else quality < best_quality", "skip = quality < best_quality if quality <= 0 else True"))},
    {"name": "flag-augmented-and-instead-of-or", "expect": "R17.2", "edits": _bm(_FLAG_SKIP.replace("wins |= ", "wins &= "))},
    {"name": "flag-negation-dropped", "expect": "R17.2", "edits": _bm(_FLAG_NEGATED.replace("keep_earlier = not (quality > best_quality or specificity > best_specificity)", "keep_earlier = quality > best_quality or specificity > best_specificity"), _FLAG_NEGATED_TAIL)},
    # ---- R17.1: defects in the flag / helper shapes ----
    {"name": "q-helper-flag-polarity-flipped", "expect": "R17.1", "edits": [(H, _OVERLOAD, _QHELPER_FLAGS.replace("fullmatch(text) is not None", "fullmatch(text) is None") + _OVERLOAD), (H, _PAH, _PAH_HELPER.replace("_accept_quality", "_quality_of"))]},
    {"name": "q-helper-range-flag-loses-upper-bound", "expect": "R17.1", "edits": [(H, _OVERLOAD, _QHELPER_FLAGS.replace("in_range = 0 <= number <= 1", "in_range = 0 <= number") + _OVERLOAD), (H, _PAH, _PAH_HELPER.replace("_accept_quality", "_quality_of"))]},
    {"name": "q-parser-range-flag-loses-upper-bound", "expect": "R17.1", "edits": [(H, _PAH, _PAH_FLAGS.replace("out_of_range = q < 0 or q > 1", "out_of_range = q < 0"))]},
    {"name": "q-parser-pattern-flag-tested-without-not", "expect": "R17.1", "edits": [(H, _PAH, _PAH_FLAGS.replace("if not q_ok:", "if q_ok:"))]},
    {"name": "q-parser-usable-flag-ignores-range", "expect": "R17.1", "edits": [(H, _PAH, _PAH_FLAG_BRANCHES.replace("usable = 0 <= q <= 1", "usable = True"))]},
    {"name": "q-parser-pattern-flag-true-on-both-branches", "expect": "R17.1", "edits": [(H, _PAH, _PAH_PATTERN_FLAG_BRANCHES.replace("numeric = False", "numeric = True"))]},
    {"name": "q-parser-pattern-flag-branches-swapped", "expect": "R17.1", "edits": [(H, _PAH, _PAH_PATTERN_FLAG_BRANCHES.replace("                numeric = True\n            else:\n                numeric = False\n", "                numeric = False\n            else:\n                numeric = True\n"))]},
    {"name": "q-pair-helper-flag-always-true", "expect": "R17.1", "edits": [(H, _OVERLOAD, _QHELPER_PAIR.replace("return 0 <= number <= 1, number", "return True, number") + _OVERLOAD), (H, _PAH, _PAH_PAIR)]},
    {"name": "q-pair-helper-malformed-reported-ok", "expect": "R17.1", "edits": [(H, _OVERLOAD, _QHELPER_PAIR.replace("return False, 0.0", "return True, 0.0") + _OVERLOAD), (H, _PAH, _PAH_PAIR)]},
    {"name": "q-pair-caller-ignores-flag", "expect": "R17.1", "edits": [(H, _OVERLOAD, _QHELPER_PAIR + _OVERLOAD), (H, _PAH, _PAH_PAIR.replace("            if not ok:\n                continue\n", "            if ok is None:\n                continue\n"))]},
    {"name": "q-raising-helper-handler-falls-through", "expect": "R17.1", "edits": [(H, _OVERLOAD, _QHELPER_RAISES + _OVERLOAD), (H, _PAH, _PAH_RAISES.replace("            except ValueError:\n                continue\n", "            except ValueError:\n                pass\n"))]},
    {"name": "q-raising-helper-handler-too-narrow", "expect": "R17.1", "edits": [(H, _OVERLOAD, _QHELPER_RAISES + _OVERLOAD), (H, _PAH, _PAH_RAISES.replace("except ValueError:", "except KeyError:"))]},
    {"name": "q-raising-helper-range-not-checked", "expect": "R17.1", "edits": [(H, _OVERLOAD, _QHELPER_RAISES.replace("    if number < 0 or number > 1:\n        raise ValueError(text)\n", "") + _OVERLOAD), (H, _PAH, _PAH_RAISES)]},
    {"name": "q-conditional-expression-default-zero", "expect": "R17.1", "edits": [(H, _OVERLOAD, _QHELPER + _OVERLOAD), (H, _PAH, _PAH_IFEXP.replace("else 1\n", "else 0\n"))]},
    {"name": "q-conditional-expression-rejection-kept", "expect": "R17.1", "edits": [(H, _OVERLOAD, _QHELPER + _OVERLOAD), (H, _PAH, _PAH_IFEXP.replace("        if q is None:\n            continue\n", "        if q is None:\n            q = 1\n"))]},
    {"name": "q-match-group-prefix-match", "expect": "R17.1", "edits": [(H, _PAH, _PAH_GROUP.replace("_q_value_re.fullmatch(", "_q_value_re.match("))]},
    {"name": "q-match-group-one-instead-of-whole", "expect": "R17.1", "edits": [(H, _PAH, _PAH_GROUP.replace("q_match.group()", "q_match.group(1)"))]},
    {"name": "q-range-predicate-loses-upper-bound", "expect": "R17.1", "edits": [(H, _OVERLOAD, "def _unit_interval(x):\n    return 0 <= x\n\n\n" + _OVERLOAD), (H, _RANGE, _PAH_RANGE_PREDICATE)]},
]

_OUTRANKS_FLAG = (
    "    def _outranks(self, q, s, bq, bs):\n        if q != bq:\n            verdict = q > bq\n        else:\n            verdict = s > bs\n        return verdict\n\n    @property\n    def best(self)"
)
_RANK_NONE_STATE = (
    "        result = default\n        best_rank = None\n        for server_item in matches:\n            match = self._best_single_match(server_item)\n            if match is None:\n                continue\n"
    "            client_item, quality = match\n            if quality <= 0:\n                continue\n            rank = (quality, self._specificity(client_item))\n"
    "            if best_rank is None or rank > best_rank:\n                best_rank = rank\n                result = server_item\n        return result\n"
)
_RANK_LAMBDA = (
    "        result = default\n        best_rank: tuple[float, tuple[float, ...]] = (-1, (-1,))\n        rank_of = lambda pair: (pair[1], self._specificity(pair[0]))  # noqa: E731\n        for server_item in matches:\n"
    "            match = self._best_single_match(server_item)\n            if not match or match[1] <= 0:\n                continue\n            rank = rank_of(match)\n"
    "            if rank > best_rank:\n                best_rank = rank\n                result = server_item\n        return result\n"
)
_RANK_NESTED_DEF = _RANK_LAMBDA.replace(
    "        rank_of = lambda pair: (pair[1], self._specificity(pair[0]))  # noqa: E731\n",
    "\n        def rank_of(pair):\n            return pair[1], self._specificity(pair[0])\n\n")
_COLLECT_THEN_SCAN = (
    "        candidates = []\n        for server_item in matches:\n            match = self._best_single_match(server_item)\n            if match is not None and match[1] > 0:\n"
    "                candidates.append((match[1], self._specificity(match[0]), server_item))\n        result = default\n        best_quality: float = -1\n        best_specificity: tuple[float, ...] = (-1,)\n"
    "        for quality, specificity, server_item in candidates:\n            if (quality, specificity) > (best_quality, best_specificity):\n                result = server_item\n"
    "                best_quality = quality\n                best_specificity = specificity\n        return result\n"
)
_MAX_KEY = (
    "        ranked = []\n        for server_item in matches:\n            match = self._best_single_match(server_item)\n            if match is not None and match[1] > 0:\n"
    "                ranked.append((match[1], self._specificity(match[0]), server_item))\n        if not ranked:\n            return default\n"
    "        # max() returns the first of several maximal elements: the earliest offer wins ties\n        return max(ranked, key=lambda entry: entry[:2])[2]\n"
)

TWINS += [
    {"name": "loop-comparison-method-with-verdict-flag", "edits": [(A, _REPL, "            if self._outranks(quality, specificity, best_quality, best_specificity):\n"), (A, "    @property\n    def best(self)", _OUTRANKS_FLAG)]},
    {"name": "rank-state-starts-as-none", "edits": [(A, _BM, _RANK_NONE_STATE)]},
    {"name": "rank-through-local-lambda", "edits": [(A, _BM, _RANK_LAMBDA)]},
    {"name": "rank-through-nested-function", "edits": [(A, _BM, _RANK_NESTED_DEF)]},
    {"name": "candidates-collected-then-scanned", "edits": [(A, _BM, _COLLECT_THEN_SCAN)]},
    {"name": "candidates-collected-then-max", "edits": [(A, _BM, _MAX_KEY)]},
]

_BSM_LISTCOMP = "        hits = [(rng, q) for rng, q in self if self._value_matches(match, rng)]\n        return hits[0] if hits else None"
_BSM_FLAG_LOOP = (
    "        answer = None\n        found = False\n        for rng, q in self:\n            if not found and self._value_matches(match, rng):\n                answer = (rng, q)\n                found = True\n        return answer"
)
_BSM_INDEX = (
    "        for position in range(len(self)):\n            if self._value_matches(match, self[position][0]):\n                return self[position]\n        return None"
)
_QUALITY = "        for item, quality in self:\n            if self._value_matches(key, item):\n                return quality\n        return 0"

TWINS += [
    {"name": "single-match-first-of-filtered-list", "edits": [(A, _BSM, _BSM_LISTCOMP)]},
    {"name": "single-match-scan-with-found-flag", "edits": [(A, _BSM, _BSM_FLAG_LOOP)]},
    {"name": "single-match-indexed-scan", "edits": [(A, _BSM, _BSM_INDEX)]},
    {"name": "quality-first-of-filtered-list", "edits": [(A, _QUALITY, "        qualities = [q for rng, q in self if self._value_matches(key, rng)]\n        if qualities:\n            return qualities[0]\n        return 0")]},
]
MUTANTS += [
    {"name": "single-match-last-of-filtered-list", "expect": "R17.3", "edits": [(A, _BSM, _BSM_LISTCOMP.replace("hits[0]", "hits[-1]"))]},
    {"name": "single-match-found-flag-not-set", "expect": "R17.3", "edits": [(A, _BSM, _BSM_FLAG_LOOP.replace("                found = True\n", ""))]},
    {"name": "quality-filtered-list-miss-is-one", "expect": "R17.3", "edits": [(A, _QUALITY, "        qualities = [q for rng, q in self if self._value_matches(key, rng)]\n        if qualities:\n            return qualities[0]\n        return 1")]},
    {"name": "candidates-max-prefers-later-on-ties", "expect": "R17.2", "edits": [(A, _BM, _MAX_KEY.replace("max(ranked, key=lambda entry: entry[:2])[2]", "max(reversed(ranked), key=lambda entry: entry[:2])[2]"))]},
    {"name": "candidates-max-specificity-major", "expect": "R17.2", "edits": [(A, _BM, _MAX_KEY.replace("key=lambda entry: entry[:2]", "key=lambda entry: (entry[1], entry[0])"))]},
    {"name": "candidates-collected-including-zero-quality", "expect": "R17.2", "edits": [(A, _BM, _COLLECT_THEN_SCAN.replace("match[1] > 0", "match[1] >= 0"))]},
    {"name": "rank-none-state-never-replaced", "expect": "R17.2", "edits": [(A, _BM, _RANK_NONE_STATE.replace("if best_rank is None or rank > best_rank:", "if best_rank is None:"))]},
    {"name": "rank-lambda-specificity-major", "expect": "R17.2", "edits": [(A, _BM, _RANK_LAMBDA.replace("(pair[1], self._specificity(pair[0]))", "(self._specificity(pair[0]), pair[1])").replace("(-1, (-1,))", "((-1,), -1)"))]},
    {"name": "verdict-flag-method-ties-replace", "expect": "R17.2", "edits": [(A, _REPL, "            if self._outranks(quality, specificity, best_quality, best_specificity):\n"), (A, "    @property\n    def best(self)", _OUTRANKS_FLAG.replace("verdict = s > bs", "verdict = s >= bs"))]},
]

_LA_BODY = (
    "        result = super().best_match(matches)\n\n        if result is not None:\n            return result\n\n"
    "        # Fall back to accepting primary tags. If a client accepts\n        # \"en-US\", \"en\" is a valid match at this point. Need to use\n        # re.split to account for 2 or 3 letter codes.\n"
    + _LANG_FALLBACK + "        result = fallback.best_match(matches)\n\n        if result is not None:\n            return result\n\n"
    "        # Fall back to matching primary tags. If the client accepts\n        # \"en\", \"en-US\" is a valid match at this point.\n" + _LANG_STAGE3
    + "\n        # Return a value from the original match list. Find the first\n        # original value that starts with the matched primary tag.\n        if result is not None:\n" + _MAPBACK + "\n\n        return default\n"
)
_LA_SEQUENTIAL = (
    "        result = super().best_match(matches)\n\n        if result is None:\n            result = Accept(\n                [(_locale_delim_re.split(tag, maxsplit=1)[0], q) for tag, q in self]\n            ).best_match(matches)\n\n"
    "        if result is None:\n            primary = super().best_match(\n                [_locale_delim_re.split(offer, maxsplit=1)[0] for offer in matches]\n            )\n\n"
    "            if primary is not None:\n                result = next(\n                    offer\n                    for offer in matches\n                    if _locale_delim_re.split(offer, maxsplit=1)[0] == primary\n                )\n\n"
    "        return default if result is None else result\n"
)
_LA_LAMBDA_MAP = (
    "        primary_of = lambda tag: _locale_delim_re.split(tag, 1)[0]  # noqa: E731\n        result = super().best_match(matches)\n\n        if result is not None:\n            return result\n\n"
    "        result = Accept([(primary_of(tag), q) for tag, q in self]).best_match(matches)\n\n        if result is not None:\n            return result\n\n"
    "        result = super().best_match(list(map(primary_of, matches)))\n\n        if result is None:\n            return default\n\n"
    "        return next(filter(lambda offer: primary_of(offer) == result, matches))\n"
)
_LA_HELPER_METHODS = (
    "        result = super().best_match(matches)\n\n        if result is not None:\n            return result\n\n        result = self._primary_ranges().best_match(matches)\n\n        if result is not None:\n            return result\n\n"
    "        return self._match_offer_primaries(matches, default)\n\n"
    "    def _primary_ranges(self):\n        return Accept(\n            [(_locale_delim_re.split(item[0], 1)[0], item[1]) for item in self]\n        )\n\n"
    "    def _match_offer_primaries(self, matches, default):\n        primary = super().best_match(\n            [_locale_delim_re.split(item, 1)[0] for item in matches]\n        )\n\n"
    "        for item in matches:\n            if primary is not None and _locale_delim_re.split(item, 1)[0] == primary:\n                break\n        else:\n            return default\n\n        return item\n"
)
_LA_REVERSED_DICT = _LA_BODY.replace(_LANG_STAGE3, "        by_primary = {\n            _locale_delim_re.split(item, 1)[0]: item for item in reversed(list(matches))\n        }\n        result = super().best_match(list(reversed(list(by_primary))))\n").replace(_MAPBACK, "            return by_primary[result]")

TWINS += [
    {"name": "language-stages-sequential-result-variable-keyword-maxsplit", "edits": [(A, _LA_BODY, _LA_SEQUENTIAL)]},
    {"name": "language-primary-tag-lambda-map-filter", "edits": [(A, _LA_BODY, _LA_LAMBDA_MAP)]},
    {"name": "language-stages-in-helper-methods", "edits": [(A, _LA_BODY, _LA_HELPER_METHODS)]},
    {"name": "language-first-offer-per-tag-by-reversed-dict", "edits": [(A, _LA_BODY, _LA_REVERSED_DICT)]},
]

MUTANTS += [
    {"name": "language-sequential-stage2-forgets-q", "expect": "R17.2", "edits": [(A, _LA_BODY, _LA_SEQUENTIAL.replace("[(_locale_delim_re.split(tag, maxsplit=1)[0], q) for tag, q in self]", "[(_locale_delim_re.split(tag, maxsplit=1)[0], 1) for tag, q in self]"))]},
    {"name": "language-sequential-stage3-result-not-mapped-back", "expect": "R17.2", "edits": [(A, _LA_BODY, _LA_SEQUENTIAL.replace("        return default if result is None else result\n", "            result = primary\n\n        return default if result is None else result\n"))]},
    {"name": "language-filter-lambda-prefix-test", "expect": "R17.2", "edits": [(A, _LA_BODY, _LA_LAMBDA_MAP.replace("primary_of(offer) == result", "offer.startswith(result)"))]},
    {"name": "language-helper-method-fallback-object-is-language-accept", "expect": "R17.2", "edits": [(A, _LA_BODY, _LA_HELPER_METHODS.replace("        return Accept(\n", "        return LanguageAccept(\n"))]},
    {"name": "language-helper-method-scan-never-stops", "expect": "R17.2", "edits": [(A, _LA_BODY, _LA_HELPER_METHODS.replace("                break\n", "                continue\n"))]},
    {"name": "language-dict-without-reversal-keeps-last-offer", "expect": "R17.2", "edits": [(A, _LA_BODY, _LA_REVERSED_DICT.replace("for item in reversed(list(matches))", "for item in matches").replace("list(reversed(list(by_primary)))", "list(by_primary)"))]},
]

TWINS += [
    {"name": "init-two-stable-passes", "edits": [(A, _SORT, "            ordered = list(values)\n            ordered.sort(key=lambda x: x[1], reverse=True)\n            ordered.sort(key=lambda x: self._specificity(x[0]), reverse=True)\n            super().__init__(ordered)\n")]},
    {"name": "init-sorted-result-wrapped-in-list", "edits": [(A, _SORT, "            super().__init__(\n                list(sorted(values, key=lambda x: (self._specificity(x[0]), x[1]), reverse=True))\n            )\n")]},
    {"name": "init-sort-key-bound-method", "edits": [(A, _SORT, "            super().__init__(sorted(values, key=self._sort_key, reverse=True))\n"), (A, "    @property\n    def best(self)", "    def _sort_key(self, pair):\n        return self._specificity(pair[0]), pair[1]\n\n    @property\n    def best(self)")]},
]
MUTANTS += [
    {"name": "init-two-stable-passes-wrong-order", "expect": "R17.3", "edits": [(A, _SORT, "            ordered = list(values)\n            ordered.sort(key=lambda x: self._specificity(x[0]), reverse=True)\n            ordered.sort(key=lambda x: x[1], reverse=True)\n            super().__init__(ordered)\n")]},
    {"name": "init-sorted-list-reversed-twice-loses-stability", "expect": "R17.3", "edits": [(A, _SORT, "            super().__init__(\n                list(reversed(sorted(values, key=lambda x: (self._specificity(x[0]), x[1]))))\n            )\n")]},
]

_PAH_LOOP = (
    "    for item in parse_list_header(value):\n        item, options = parse_options_header(item)\n\n" + _PAH
    + "\n        if options:\n            # reconstruct the media type with any options\n            item = dump_options_header(item, options)\n\n        result.append((item, q))\n"
)
_ITEM_HELPER = (
    "def _parse_accept_item(raw):\n    item, options = parse_options_header(raw)\n\n    if \"q\" in options:\n        q_str = options.pop(\"q\").strip()\n\n"
    "        if _q_value_re.fullmatch(q_str) is None:\n            return None\n\n        q = float(q_str)\n\n        if q < 0 or q > 1:\n            return None\n    else:\n        q = 1\n\n"
    "    if options:\n        item = dump_options_header(item, options)\n\n    return item, q\n\n\n"
)
_PAH_LOOP_ITEM_HELPER = "    for raw in parse_list_header(value):\n        entry = _parse_accept_item(raw)\n\n        if entry is None:\n            continue\n\n        result.append(entry)\n"
_PAH_LOOP_ITEM_HELPER_WALRUS = "    for raw in parse_list_header(value):\n        if (entry := _parse_accept_item(raw)) is not None:\n            result.append(entry)\n"

TWINS += [
    {"name": "pair-built-into-local-before-append", "edits": [(H, "        result.append((item, q))\n", "        entry = (item, q)\n        result.append(entry)\n")]},
    {"name": "item-parsing-in-helper-returning-pair-or-none", "edits": [(H, _OVERLOAD, _ITEM_HELPER + _OVERLOAD), (H, _PAH_LOOP, _PAH_LOOP_ITEM_HELPER)]},
    {"name": "item-parsing-in-helper-walrus-positive-test", "edits": [(H, _OVERLOAD, _ITEM_HELPER + _OVERLOAD), (H, _PAH_LOOP, _PAH_LOOP_ITEM_HELPER_WALRUS)]},
]
MUTANTS += [
    {"name": "item-helper-range-check-dropped", "expect": "R17.1", "edits": [(H, _OVERLOAD, _ITEM_HELPER.replace("        if q < 0 or q > 1:\n            return None\n", "") + _OVERLOAD), (H, _PAH_LOOP, _PAH_LOOP_ITEM_HELPER)]},
    {"name": "item-helper-malformed-q-defaults-to-one", "expect": "R17.1", "edits": [(H, _OVERLOAD, _ITEM_HELPER.replace("        if _q_value_re.fullmatch(q_str) is None:\n            return None\n\n        q = float(q_str)\n", "        if _q_value_re.fullmatch(q_str) is None:\n            return item, 1\n\n        q = float(q_str)\n") + _OVERLOAD), (H, _PAH_LOOP, _PAH_LOOP_ITEM_HELPER)]},
    {"name": "item-helper-none-result-appended", "expect": "R17.1", "edits": [(H, _OVERLOAD, _ITEM_HELPER + _OVERLOAD), (H, _PAH_LOOP, _PAH_LOOP_ITEM_HELPER.replace("        if entry is None:\n            continue\n\n", ""))]},
    {"name": "item-helper-pair-dropped-by-inverted-test", "expect": "R17.1", "edits": [(H, _OVERLOAD, _ITEM_HELPER + _OVERLOAD), (H, _PAH_LOOP, _PAH_LOOP_ITEM_HELPER_WALRUS.replace("is not None", "is None"))]},
    {"name": "item-helper-pattern-prefix-match", "expect": "R17.1", "edits": [(H, _OVERLOAD, _ITEM_HELPER.replace("fullmatch", "match") + _OVERLOAD), (H, _PAH_LOOP, _PAH_LOOP_ITEM_HELPER)]},
]

MUTANTS += [
    {"name": "malformed-q-replaced-by-default-quality", "expect": "R17.1", "edits": [(H, _PAH, '        if "q" in options:\n            q_str = options.pop("q").strip()\n\n            if _q_value_re.fullmatch(q_str) is None:\n                q = 1\n            else:\n                q = float(q_str)\n\n' + "    " + _RANGE.replace("\n", "\n    ")[:-4] + "        else:\n            q = 1\n")]},
    {"name": "helper-malformed-q-returns-default-quality", "expect": "R17.1", "edits": [(H, _OVERLOAD, _QHELPER.replace("    if not _q_value_re.fullmatch(text):\n        return None\n", "    if not _q_value_re.fullmatch(text):\n        return 1\n") + _OVERLOAD), (H, _PAH, _PAH_HELPER)]},
]

_SORTED_RANKING = (
    "        candidates = [\n            (found[1], self._specificity(found[0]), server_item)\n            for server_item in matches\n"
    "            if (found := self._best_single_match(server_item)) is not None and found[1] > 0\n        ]\n"
    "        # sorted() is stable: among equally ranked offers the one the caller listed first stays first\n"
    "        ranked = sorted(candidates, key=lambda entry: (entry[0], entry[1]), reverse=True)\n        return ranked[0][2] if ranked else default\n"
)
_WALRUS_LOOP = _BM.replace("            match = self._best_single_match(server_item)\n            if not match:\n                continue\n", "            if (match := self._best_single_match(server_item)) is None:\n                continue\n")
_COPIED_OFFERS = _BM.replace("        for server_item in matches:\n", "        offers = list(matches)\n        for position in range(len(offers)):\n            server_item = offers[position]\n")
_WHILE_ITER = _BM.replace("        for server_item in matches:\n            match = self._best_single_match(server_item)\n            if not match:\n                continue\n",
    "        pending = list(matches)\n        while pending:\n            server_item = pending.pop(0)\n            match = self._best_single_match(server_item)\n            if not match:\n                continue\n")

TWINS += [
    {"name": "candidates-ranked-by-stable-sorted", "edits": [(A, _BM, _SORTED_RANKING)]},
    {"name": "loop-match-bound-by-walrus", "edits": [(A, _BM, _WALRUS_LOOP)]},
    {"name": "loop-over-copied-offers-by-index", "edits": [(A, _BM, _COPIED_OFFERS)]},
    {"name": "loop-while-pending-pop", "edits": [(A, _BM, _WHILE_ITER)]},
]
MUTANTS += [
    {"name": "candidates-ranked-by-sorted-takes-last", "expect": "R17.2", "edits": [(A, _BM, _SORTED_RANKING.replace("ranked[0][2]", "ranked[-1][2]"))]},
    {"name": "loop-while-pending-pops-from-the-end", "expect": "R17.2", "edits": [(A, _BM, _WHILE_ITER.replace("pending.pop(0)", "pending.pop()"))]},
]

_PAH_FLAG_RETESTED = (
    '        if "q" in options:\n            q_str = options.pop("q").strip()\n            q_ok = bool(_q_value_re.fullmatch(q_str))\n\n            if q_ok:\n                q = float(q_str)\n\n'
    "            if not q_ok or q < 0 or q > 1:\n                continue\n        else:\n            q = 1\n"
)
_PAH_MARKER = (
    '        if "q" in options:\n            q_str = options.pop("q").strip()\n            q = float(q_str) if _q_value_re.fullmatch(q_str) else -1.0\n\n'
    "            if not 0 <= q <= 1:\n                continue\n        else:\n            q = 1\n"
)
TWINS += [
    {"name": "q-parser-pattern-flag-tested-twice", "edits": [(H, _PAH, _PAH_FLAG_RETESTED)]},
    {"name": "q-parser-marker-value-for-malformed-text", "edits": [(H, _PAH, _PAH_MARKER)]},
]
MUTANTS += [
    {"name": "q-parser-flag-retest-dropped", "expect": "R17.1", "edits": [(H, _PAH, _PAH_FLAG_RETESTED.replace("            if not q_ok or q < 0 or q > 1:\n", "            if not q_ok:\n                q = 1\n\n            if q < 0 or q > 1:\n"))]},
    {"name": "q-parser-marker-inside-the-range", "expect": "R17.1", "edits": [(H, _PAH, _PAH_MARKER.replace("else -1.0", "else 0.0"))]},
]

TWINS += [
    {"name": "base-match-operands-normalised-by-tuple-assignment", "edits": [(A, _BASE_VM, '        accepted, offered = item.lower(), value.lower()\n        return item == "*" or accepted == offered')]},
    {"name": "language-match-mismatch-returns-false-first", "edits": [(A, _LANG_VM, '        if item != "*" and _normalize_lang(value) != _normalize_lang(item):\n            return False\n        return True')]},
    {"name": "charset-match-wildcard-flag", "edits": [(A, _CHARSET_VM, '        any_charset = item == "*"\n        same = any_charset or _normalize(value) == _normalize(item)\n        return same')]},
]
MUTANTS += [
    {"name": "base-match-tuple-assignment-one-side-raw", "expect": "R17.4", "edits": [(A, _BASE_VM, '        accepted, offered = item.lower(), value\n        return item == "*" or accepted == offered')]},
    {"name": "language-match-mismatch-test-ignores-wildcard", "expect": "R17.4", "edits": [(A, _LANG_VM, '        if _normalize_lang(value) != _normalize_lang(item):\n            return False\n        return True')]},
]


# ---- round 3: the specificity key must order range shapes by inclusion of what they match (type/*;param below type/subtype) ----
_SPLIT = "_mime_split_re.split(value)"
TWINS += [
    {"name": "mime-specificity-int-flags-from-list-comprehension", "edits": [(A, _MIME_SPEC, '        return tuple([int(x != "*") for x in ' + _SPLIT + '])')]},
    {"name": "mime-specificity-conditional-expression-flags", "edits": [(A, _MIME_SPEC, '        return tuple(False if x == "*" else True for x in ' + _SPLIT + ')')]},
    {"name": "mime-specificity-map-lambda", "edits": [(A, _MIME_SPEC, '        return tuple(map(lambda part: part != "*", ' + _SPLIT + '))')]},
    {"name": "mime-specificity-type-subtype-then-parameters", "edits": [(A, _MIME_SPEC, '        parts = ' + _SPLIT + '\n        head = (parts[0] != "*", parts[1] != "*")\n        return head + tuple(p != "*" for p in parts[2:])')]},
    {"name": "mime-specificity-on-normalised-parts", "edits": [(A, _MIME_SPEC, '        return tuple(x != "*" for x in _normalize_mime(value))')]},
]
MUTANTS += [
    {"name": "mime-specificity-counts-concrete-parts", "expect": "R17.3", "edits": [(A, _MIME_SPEC, '        return (len([x for x in ' + _SPLIT + ' if x != "*"]),)')]},
    {"name": "mime-specificity-length-before-flags", "expect": "R17.3", "edits": [(A, _MIME_SPEC, '        parts = ' + _SPLIT + '\n        return (len(parts),) + tuple(x != "*" for x in parts)')]},
    {"name": "mime-specificity-flags-read-from-the-end", "expect": "R17.3", "edits": [(A, _MIME_SPEC, '        return tuple(x != "*" for x in reversed(' + _SPLIT + '))')]},
    {"name": "mime-specificity-flags-sorted", "expect": "R17.3", "edits": [(A, _MIME_SPEC, '        return tuple(sorted((x != "*" for x in ' + _SPLIT + '), reverse=True))')]},
    {"name": "mime-specificity-positional-weights-summed", "expect": "R17.3", "edits": [(A, _MIME_SPEC, '        return (sum(2**i for i, x in enumerate(' + _SPLIT + ') if x != "*"),)')]},
    {"name": "mime-specificity-loop-keeps-only-concrete-parts", "expect": "R17.3", "edits": [(A, _MIME_SPEC, '        out = []\n        for part in ' + _SPLIT + ':\n            if part != "*":\n                out.append(True)\n        return tuple(out)')]},
]


# ---- round 3 (held-out set 7-9): the q parameter taken out with a default instead of a membership test, the pair built
# inside the append (conditional expression for the item), the default quality chosen by a conditional expression after
# the pattern test, the pairs yielded by a nested generator ----
_R3_HEAD = "    for item in parse_list_header(value):\n        item, options = parse_options_header(item)\n"
_R3_CHECKS = (
    "            q_str = q_str.strip()\n            if _q_value_re.fullmatch(q_str) is None:\n                continue\n"
    "            q = float(q_str)\n            if q < 0 or q > 1:\n                continue\n"
)
_R3_APPEND = "        result.append((dump_options_header(item, options) if options else item, q))\n"
_R3_POP_DEFAULT = _R3_HEAD + '        q_str = options.pop("q", None)\n        if q_str is None:\n            q = 1\n        else:\n' + _R3_CHECKS + _R3_APPEND
_R3_GET_DEL = _R3_HEAD + '        q_str = options.get("q")\n        if q_str is None:\n            q = 1\n        else:\n            del options["q"]\n' + _R3_CHECKS.replace("is None:", "is None:").replace("if q < 0 or q > 1:", "if not 0 <= q <= 1:") + _R3_APPEND
_R3_TRY_POP = (
    _R3_HEAD + '        try:\n            q_str = options.pop("q")\n        except KeyError:\n            q = 1\n        else:\n' + _R3_CHECKS
    + "        if options:\n            item = dump_options_header(item, options)\n        result.append((item, q))\n"
)
_R3_WALRUS_POP = _R3_HEAD + '        if (q_str := options.pop("q", None)) is None:\n            q = 1\n        else:\n' + _R3_CHECKS + _R3_APPEND
_R3_ABSENT_APPENDS = (
    _R3_HEAD + '        q_str = options.pop("q", None)\n        if q_str is None:\n            result.append((dump_options_header(item, options) if options else item, 1))\n            continue\n'
    + _R3_CHECKS.replace("            ", "        ") + _R3_APPEND
)
_R3_CONDEXP_DEFAULT = (
    _R3_HEAD + '        q_str = options.pop("q", None)\n        if q_str is not None:\n            q_str = q_str.strip()\n            if _q_value_re.fullmatch(q_str) is None:\n                continue\n'
    "        q = 1 if q_str is None else float(q_str)\n        if q < 0 or q > 1:\n            continue\n" + _R3_APPEND
)
_R3_CONDEXP_FLAG = (
    _R3_HEAD + '        q_str = options.pop("q", None)\n        has_q = q_str is not None\n        if has_q:\n            q_str = q_str.strip()\n            if _q_value_re.fullmatch(q_str) is None:\n                continue\n'
    "        q = float(q_str) if q_str is not None else 1\n        if not 0 <= q <= 1:\n            continue\n" + _R3_APPEND
)
_R3_GEN = (
    "    def pairs():\n" + "".join("    " + l + "\n" if l else "\n" for l in (_R3_POP_DEFAULT.replace(_R3_APPEND, "")).split("\n")[:-1])
    + "            yield (dump_options_header(item, options) if options else item, q)\n\n"
)
_R3_GEN_TWO_YIELDS = (
    "    def pairs(items):\n        for item in items:\n            item, options = parse_options_header(item)\n            if \"q\" not in options:\n"
    "                yield (dump_options_header(item, options) if options else item), 1\n                continue\n            q_str = options.pop(\"q\").strip()\n"
    "            if not _q_value_re.fullmatch(q_str):\n                continue\n            q = float(q_str)\n            if 0 <= q <= 1:\n"
    "                pair = (dump_options_header(item, options) if options else item, q)\n                yield pair\n\n    result = list(pairs(parse_list_header(value)))\n"
)
TWINS += [
    {"name": "q-popped-with-default-absent-branch-first-pair-in-append", "edits": [(H, _PAH_LOOP, _R3_POP_DEFAULT)]},
    {"name": "q-read-with-get-then-deleted", "edits": [(H, _PAH_LOOP, _R3_GET_DEL)]},
    {"name": "q-popped-in-try-keyerror-means-default", "edits": [(H, _PAH_LOOP, _R3_TRY_POP)]},
    {"name": "q-popped-by-walrus-in-the-test", "edits": [(H, _PAH_LOOP, _R3_WALRUS_POP)]},
    {"name": "q-absent-branch-appends-the-default-pair-itself", "edits": [(H, _PAH_LOOP, _R3_ABSENT_APPENDS)]},
    {"name": "q-default-by-conditional-expression-after-the-pattern-test", "edits": [(H, _PAH_LOOP, _R3_CONDEXP_DEFAULT)]},
    {"name": "q-default-by-conditional-expression-test-under-a-flag", "edits": [(H, _PAH_LOOP, _R3_CONDEXP_FLAG)]},
    {"name": "pairs-yielded-by-nested-generator-collected-by-list", "edits": [(H, _PAH_LOOP, _R3_GEN + "    result = list(pairs())\n")]},
    {"name": "pairs-yielded-by-nested-generator-extend", "edits": [(H, _PAH_LOOP, _R3_GEN + "    result.extend(pairs())\n")]},
    {"name": "pairs-yielded-by-nested-generator-augmented-star", "edits": [(H, _PAH_LOOP, _R3_GEN + "    result += [*pairs()]\n")]},
    {"name": "pairs-yielded-at-two-sites-generator-takes-the-items", "edits": [(H, _PAH_LOOP, _R3_GEN_TWO_YIELDS)]},
]
MUTANTS += [
    {"name": "pop-default-absent-quality-half", "expect": "R17.1", "edits": [(H, _PAH_LOOP, _R3_POP_DEFAULT.replace("            q = 1\n", "            q = 0.5\n"))]},
    {"name": "pop-default-pair-appended-only-when-q-truthy", "expect": "R17.1", "edits": [(H, _PAH_LOOP, _R3_POP_DEFAULT.replace(_R3_APPEND, "        if q:\n    " + _R3_APPEND))]},
    {"name": "pop-default-upper-bound-two", "expect": "R17.1", "edits": [(H, _PAH_LOOP, _R3_POP_DEFAULT.replace("if q < 0 or q > 1:", "if q > 2 or q < 0:"))]},
    {"name": "try-pop-malformed-q-falls-through", "expect": "R17.1", "edits": [(H, _PAH_LOOP, _R3_TRY_POP.replace("            if _q_value_re.fullmatch(q_str) is None:\n                continue\n", "            if _q_value_re.fullmatch(q_str) is None:\n                q_str = \"1\"\n"))]},
    {"name": "absent-branch-appends-quality-zero", "expect": "R17.1", "edits": [(H, _PAH_LOOP, _R3_ABSENT_APPENDS.replace("else item, 1))", "else item, 0))"))]},
    {"name": "condexp-default-pattern-test-under-unrelated-condition", "expect": "R17.1", "edits": [(H, _PAH_LOOP, _R3_CONDEXP_DEFAULT.replace("        if q_str is not None:\n", "        if q_str is not None and len(options) < 3:\n"))]},
    {"name": "condexp-default-arms-condition-flipped", "expect": "R17.1", "edits": [(H, _PAH_LOOP, _R3_CONDEXP_DEFAULT.replace("q = 1 if q_str is None else float(q_str)", "q = 1 if q_str is not None else float(q_str)"))]},
    {"name": "condexp-default-text-rebound-after-the-test", "expect": "R17.1", "edits": [(H, _PAH_LOOP, _R3_CONDEXP_DEFAULT.replace("            q_str = q_str.strip()\n            if _q_value_re.fullmatch(q_str) is None:\n                continue\n", "            if _q_value_re.fullmatch(q_str) is None:\n                continue\n            q_str = q_str.strip()\n"))]},
    {"name": "condexp-flag-tests-the-wrong-outcome", "expect": "R17.1", "edits": [(H, _PAH_LOOP, _R3_CONDEXP_FLAG.replace("has_q = q_str is not None", "has_q = q_str is None"))]},
    {"name": "generator-range-check-loses-upper-bound", "expect": "R17.1", "edits": [(H, _PAH_LOOP, _R3_GEN.replace("if q < 0 or q > 1:", "if q < 0:") + "    result = list(pairs())\n")]},
    {"name": "generator-default-quality-zero", "expect": "R17.1", "edits": [(H, _PAH_LOOP, _R3_GEN.replace("q = 1\n", "q = 0\n") + "    result = list(pairs())\n")]},
    {"name": "generator-second-yield-outside-the-range-test", "expect": "R17.1", "edits": [(H, _PAH_LOOP, _R3_GEN_TWO_YIELDS.replace("            if 0 <= q <= 1:\n                pair", "            if 0 <= q:\n                pair"))]},
    {"name": "generator-collected-then-reversed", "expect": "R17.3", "edits": [(H, _PAH_LOOP, _R3_GEN + "    result.extend(pairs())\n    result.reverse()\n")]},
]

_R3_QHELPER_CONDEXP = (
    "def _q_of(text):\n    if text is not None:\n        text = text.strip()\n        if not _q_value_re.fullmatch(text):\n            return None\n"
    "    return 1 if text is None else float(text)\n\n\n"
)
_R3_QHELPER_LOOP = _R3_HEAD + '        q = _q_of(options.pop("q", None))\n        if q is None or q < 0 or q > 1:\n            continue\n' + _R3_APPEND
TWINS += [
    {"name": "q-helper-returns-default-or-conversion-by-conditional-expression", "edits": [(H, _OVERLOAD, _R3_QHELPER_CONDEXP + _OVERLOAD), (H, _PAH_LOOP, _R3_QHELPER_LOOP)]},
]
MUTANTS += [
    {"name": "q-helper-condexp-caller-loses-upper-bound", "expect": "R17.1", "edits": [(H, _OVERLOAD, _R3_QHELPER_CONDEXP + _OVERLOAD), (H, _PAH_LOOP, _R3_QHELPER_LOOP.replace(" or q > 1", ""))]},
    {"name": "q-helper-condexp-pattern-test-under-truthiness", "expect": "R17.1", "edits": [(H, _OVERLOAD, _R3_QHELPER_CONDEXP.replace("    if text is not None:\n", "    if text:\n") + _OVERLOAD), (H, _PAH_LOOP, _R3_QHELPER_LOOP)]},
]

# ---- round 4: defects that only a *sequence* of offers shows (part of the best-so-far standard left behind by a branch
# that replaces the choice), and the charset normaliser on both outcomes of codecs.lookup ----
_UPD = "                result = server_item\n                best_quality = quality\n                best_specificity = specificity\n"
_R4_TUPLE_STATE = [
    (A, "        best_quality: float = -1\n        best_specificity: tuple[float, ...] = (-1,)\n", "        best: tuple[float, tuple[float, ...]] = (-1, (-1,))\n"),
    (A, "            specificity = self._specificity(client_item)\n" + _GATE + "            # better quality or same quality but more specific => better match\n" + _REPL + _UPD,
     "            if quality <= 0:\n                continue\n            rank = (quality, self._specificity(client_item))\n            if rank > best:\n                result = server_item\n                best = %s\n"),
]
_R4_NORMALIZE = "            try:\n                return codecs.lookup(name).name\n            except LookupError:\n                return name.lower()\n"
_R4_MODULE_NORMALISER = (
    "def _normalize_charset(name: str) -> str:\n    try:\n        info = codecs.lookup(name)\n    except LookupError:\n        return %s\n\n    return info.name\n\n\n"
    "class CharsetAccept(Accept):"
)
_R4_CHARSET_BODY = (
    "        def _normalize(name: str) -> str:\n" + _R4_NORMALIZE + "\n" + _CHARSET_VM
)
MUTANTS += [
    {"name": "tie-branch-leaves-best-specificity-behind", "expect": "R17.2", "edits": [(A, _REPL + _UPD,
        "            if quality > best_quality:\n" + _UPD + "            elif specificity > best_specificity:\n                result = server_item\n")]},
    {"name": "specificity-remembered-only-on-a-quality-gain", "expect": "R17.2", "edits": [(A, _UPD,
        "                result = server_item\n                if quality > best_quality:\n                    best_specificity = specificity\n                best_quality = quality\n")]},
    {"name": "best-specificity-only-ratchets-up", "expect": "R17.2", "edits": [(A, "                best_specificity = specificity\n", "                best_specificity = max(best_specificity, specificity)\n")]},
    {"name": "rank-tuple-state-keeps-the-old-specificity", "expect": "R17.2", "edits": [(a, o, n.replace("%s", "(quality, max(rank[1], best[1]))")) for a, o, n in _R4_TUPLE_STATE]},
    {"name": "charset-unknown-label-kept-verbatim", "expect": "R17.4", "edits": [(A, "            except LookupError:\n                return name.lower()\n", "            except LookupError:\n                return name\n")]},
    {"name": "charset-handler-misses-lookup-error", "expect": "R17.4", "edits": [(A, "            except LookupError:\n                return name.lower()\n", "            except KeyError:\n                return name.lower()\n")]},
    {"name": "charset-module-normaliser-keeps-case-of-unknown-labels", "expect": "R17.4", "edits": [
        (A, _R4_CHARSET_BODY, '        return item == "*" or _normalize_charset(value) == _normalize_charset(item)'),
        (A, "class CharsetAccept(Accept):", _R4_MODULE_NORMALISER % "name")]},
    {"name": "charset-known-codec-compared-by-its-label", "expect": "R17.4", "edits": [(A, "                return codecs.lookup(name).name\n", "                return codecs.lookup(name) and name.lower()\n")]},
]
TWINS += [
    {"name": "tie-branch-updates-only-the-specificity", "edits": [(A, _REPL + _UPD,
        "            if quality > best_quality:\n" + _UPD + "            elif specificity > best_specificity:\n                result = server_item\n                best_specificity = specificity\n")]},
    {"name": "best-quality-raised-under-its-own-test", "edits": [(A, _UPD,
        "                if quality > best_quality:\n                    best_quality = quality\n                result = server_item\n                best_specificity = specificity\n")]},
    {"name": "best-quality-kept-by-max", "edits": [(A, "                best_quality = quality\n", "                best_quality = max(best_quality, quality)\n")]},
    {"name": "rank-tuple-state-rebuilt-from-its-parts", "edits": [(a, o, n.replace("%s", "(quality, rank[1])")) for a, o, n in _R4_TUPLE_STATE]},
    {"name": "charset-module-normaliser-returns-after-the-try", "edits": [
        (A, _R4_CHARSET_BODY, '        return item == "*" or _normalize_charset(value) == _normalize_charset(item)'),
        (A, "class CharsetAccept(Accept):", _R4_MODULE_NORMALISER % "name.lower()")]},
    {"name": "charset-normaliser-rebinds-the-name-in-the-try", "edits": [(A, _R4_NORMALIZE, "            try:\n                name = codecs.lookup(name).name\n            except LookupError:\n                name = name.lower()\n            return name\n")]},
    {"name": "charset-lookup-imported-by-name", "edits": [(A, "import codecs\n", "import codecs\nfrom codecs import lookup as _find_codec\n"), (A, "                return codecs.lookup(name).name\n", "                return _find_codec(name).name\n")]},
    {"name": "charset-handler-catches-more", "edits": [(A, "            except LookupError:\n                return name.lower()\n", "            except (LookupError, TypeError):\n                return name.lower()\n")]},
    {"name": "charset-unknown-label-lowered-before-the-try", "edits": [(A, _R4_NORMALIZE, "            lowered = name.lower()\n            try:\n                return codecs.lookup(lowered).name\n            except LookupError:\n                return lowered\n")]},
]

# ---- round 5 (stress round): fresh maintainer-style refactorings that the rules added in the detection rounds first tripped on
# (contextlib.suppress around the codec lookup, static / class methods as helpers, starred unpacking, NamedTuple records,
# operator.itemgetter keys, map() over both labels), each with mutants that break the property in that very shape ----
_S5 = {
    'charset-normaliser-under-contextlib-suppress': [
        (A, 'import codecs\n', 'import codecs\nimport contextlib\n'),
        (A, '        def _normalize(name: str) -> str:\n            try:\n                return codecs.lookup(name).name\n            except LookupError:\n                return name.lower()\n\n        return item == "*" or _normalize(value) == _normalize(item)\n', '        def _normalize(name: str) -> str:\n            with contextlib.suppress(LookupError):\n                return codecs.lookup(name).name\n\n            return name.lower()\n\n        if item == "*":\n            return True\n\n        offered = _normalize(value)\n        accepted = _normalize(item)\n        return offered == accepted\n'),
    ],
    'charset-suppress-block-overrides-the-lowered-default': [
        (A, 'import codecs\n', 'import codecs\nfrom contextlib import suppress\n'),
        (A, '        def _normalize(name: str) -> str:\n            try:\n                return codecs.lookup(name).name\n            except LookupError:\n                return name.lower()\n\n        return item == "*" or _normalize(value) == _normalize(item)\n', '        def _normalize(name: str) -> str:\n            normalized = name.lower()\n\n            with suppress(LookupError):\n                normalized = codecs.lookup(name).name\n\n            return normalized\n\n        return item == "*" or _normalize(value) == _normalize(item)\n'),
    ],
    'charset-static-normaliser-lowers-first-then-looks-up': [
        (A, '    def _value_matches(self, value: str, item: str) -> bool:\n        def _normalize(name: str) -> str:\n            try:\n                return codecs.lookup(name).name\n            except LookupError:\n                return name.lower()\n\n        return item == "*" or _normalize(value) == _normalize(item)\n', '    @staticmethod\n    def _canonical_name(name: str) -> str:\n        canonical = name.lower()\n\n        try:\n            canonical = codecs.lookup(name).name\n        except LookupError:\n            pass\n\n        return canonical\n\n    def _value_matches(self, value: str, item: str) -> bool:\n        return item == "*" or self._canonical_name(value) == self._canonical_name(\n            item\n        )\n'),
    ],
    'charset-static-normaliser-called-through-the-class-name': [
        (A, '    def _value_matches(self, value: str, item: str) -> bool:\n        def _normalize(name: str) -> str:\n            try:\n                return codecs.lookup(name).name\n            except LookupError:\n                return name.lower()\n\n        return item == "*" or _normalize(value) == _normalize(item)\n', '    @staticmethod\n    def _codec_name(label: str) -> str:\n        try:\n            return codecs.lookup(label).name\n        except LookupError:\n            return label.lower()\n\n    def _value_matches(self, value: str, item: str) -> bool:\n        if item == "*":\n            return True\n\n        return CharsetAccept._codec_name(value) == CharsetAccept._codec_name(item)\n'),
    ],
    'charset-classmethod-normaliser': [
        (A, '    def _value_matches(self, value: str, item: str) -> bool:\n        def _normalize(name: str) -> str:\n            try:\n                return codecs.lookup(name).name\n            except LookupError:\n                return name.lower()\n\n        return item == "*" or _normalize(value) == _normalize(item)\n', '    @classmethod\n    def _normalize(cls, name: str) -> str:\n        try:\n            return codecs.lookup(name).name\n        except LookupError:\n            return name.lower()\n\n    def _value_matches(self, value: str, item: str) -> bool:\n        return item == "*" or self._normalize(value) == self._normalize(item)\n'),
    ],
    'charset-both-labels-normalised-by-one-map': [
        (A, '        def _normalize(name: str) -> str:\n            try:\n                return codecs.lookup(name).name\n            except LookupError:\n                return name.lower()\n\n        return item == "*" or _normalize(value) == _normalize(item)\n', '        def _normalize(name: str) -> str:\n            try:\n                return codecs.lookup(name).name\n            except LookupError:\n                return name.lower()\n\n        if item == "*":\n            return True\n\n        offered, accepted = map(_normalize, (value, item))\n        return offered == accepted\n'),
    ],
    'charset-handler-passes-and-falls-to-the-lowered-label': [
        (A, '        def _normalize(name: str) -> str:\n            try:\n                return codecs.lookup(name).name\n            except LookupError:\n                return name.lower()\n\n        return item == "*" or _normalize(value) == _normalize(item)\n', '        def _normalize(name: str) -> str:\n            try:\n                info = codecs.lookup(name)\n            except LookupError:\n                pass\n            else:\n                return info.name\n            return name.lower()\n\n        if item == "*":\n            return True\n        return _normalize(value) == _normalize(item)\n'),
    ],
    'best-match-ranking-in-a-static-predicate': [
        (A, '    @t.overload\n    def best_match(self, matches: cabc.Iterable[str]) -> str | None: ...\n    @t.overload\n    def best_match(self, matches: cabc.Iterable[str], default: str = ...) -> str: ...\n    def best_match(\n        self, matches: cabc.Iterable[str], default: str | None = None\n    ) -> str | None:\n        """Returns the best match from a list of possible matches based\n', '    @staticmethod\n    def _is_better(\n        quality: float,\n        specificity: tuple[float, ...],\n        best_quality: float,\n        best_specificity: tuple[float, ...],\n    ) -> bool:\n        """Better quality, or same quality but more specific. Quality 0 never wins."""\n        if quality <= 0:\n            return False\n\n        if quality != best_quality:\n            return quality > best_quality\n\n        return specificity > best_specificity\n\n    @t.overload\n    def best_match(self, matches: cabc.Iterable[str]) -> str | None: ...\n    @t.overload\n    def best_match(self, matches: cabc.Iterable[str], default: str = ...) -> str: ...\n    def best_match(\n        self, matches: cabc.Iterable[str], default: str | None = None\n    ) -> str | None:\n        """Returns the best match from a list of possible matches based\n'),
        (A, '        result = default\n        best_quality: float = -1\n        best_specificity: tuple[float, ...] = (-1,)\n        for server_item in matches:\n            match = self._best_single_match(server_item)\n            if not match:\n                continue\n            client_item, quality = match\n            specificity = self._specificity(client_item)\n            if quality <= 0 or quality < best_quality:\n                continue\n            # better quality or same quality but more specific => better match\n            if quality > best_quality or specificity > best_specificity:\n                result = server_item\n                best_quality = quality\n                best_specificity = specificity\n        return result\n', '        result = default\n        best_quality: float = -1\n        best_specificity: tuple[float, ...] = (-1,)\n        for server_item in matches:\n            match = self._best_single_match(server_item)\n            if not match:\n                continue\n            client_item, quality = match\n            specificity = self._specificity(client_item)\n            if self._is_better(quality, specificity, best_quality, best_specificity):\n                result = server_item\n                best_quality = quality\n                best_specificity = specificity\n        return result\n'),
    ],
    'best-match-rank-kept-in-a-namedtuple': [
        (A, 'class Accept(ImmutableList[tuple[str, float]]):\n', 'class _Rank(t.NamedTuple):\n    quality: float\n    specificity: tuple[float, ...]\n\n\nclass Accept(ImmutableList[tuple[str, float]]):\n'),
        (A, '        result = default\n        best_quality: float = -1\n        best_specificity: tuple[float, ...] = (-1,)\n        for server_item in matches:\n            match = self._best_single_match(server_item)\n            if not match:\n                continue\n            client_item, quality = match\n            specificity = self._specificity(client_item)\n            if quality <= 0 or quality < best_quality:\n                continue\n            # better quality or same quality but more specific => better match\n            if quality > best_quality or specificity > best_specificity:\n                result = server_item\n                best_quality = quality\n                best_specificity = specificity\n        return result\n', '        result = default\n        best = _Rank(-1, (-1,))\n        for server_item in matches:\n            match = self._best_single_match(server_item)\n            if not match:\n                continue\n            client_item, quality = match\n            rank = _Rank(quality, self._specificity(client_item))\n            if rank.quality <= 0 or rank.quality < best.quality:\n                continue\n            # better quality or same quality but more specific => better match\n            if rank.quality > best.quality or rank.specificity > best.specificity:\n                result = server_item\n                best = rank\n        return result\n'),
    ],
    'best-match-max-keyed-by-itemgetter': [
        (A, 'import codecs\n', 'import codecs\nimport operator\n'),
        (A, '        result = default\n        best_quality: float = -1\n        best_specificity: tuple[float, ...] = (-1,)\n        for server_item in matches:\n            match = self._best_single_match(server_item)\n            if not match:\n                continue\n            client_item, quality = match\n            specificity = self._specificity(client_item)\n            if quality <= 0 or quality < best_quality:\n                continue\n            # better quality or same quality but more specific => better match\n            if quality > best_quality or specificity > best_specificity:\n                result = server_item\n                best_quality = quality\n                best_specificity = specificity\n        return result\n', '        acceptable = []\n        for server_item in matches:\n            match = self._best_single_match(server_item)\n            if not match:\n                continue\n            client_item, quality = match\n            if quality > 0:\n                acceptable.append((quality, self._specificity(client_item), server_item))\n        if acceptable:\n            # the first of equally ranked offers wins\n            return max(acceptable, key=operator.itemgetter(0, 1))[2]\n        return default\n'),
    ],
    'mime-parts-split-by-a-helper-with-starred-unpacking': [
        (A, 'class MIMEAccept(Accept):\n', 'def _split_mime(value: str) -> tuple[str, str, list[str]]:\n    """Type, subtype and sorted parameters of a media type or range."""\n    type_, subtype, *params = _normalize_mime(value)\n    return type_, subtype, sorted(params)\n\n\nclass MIMEAccept(Accept):\n'),
        (A, '        normalized_value = _normalize_mime(value)\n        value_type, value_subtype = normalized_value[:2]\n        value_params = sorted(normalized_value[2:])\n', '        value_type, value_subtype, value_params = _split_mime(value)\n'),
        (A, '        normalized_item = _normalize_mime(item)\n        item_type, item_subtype = normalized_item[:2]\n        item_params = sorted(normalized_item[2:])\n', '        item_type, item_subtype, item_params = _split_mime(item)\n'),
    ],
    'wildcard-hoisted-into-a-module-constant': [
        (A, 'class Accept(ImmutableList[tuple[str, float]]):\n', '_WILDCARD = "*"\n\n\nclass Accept(ImmutableList[tuple[str, float]]):\n'),
        (A, '        """Returns a tuple describing the value\'s specificity."""\n        return (value != "*",)\n', '        """Returns a tuple describing the value\'s specificity."""\n        return (value != _WILDCARD,)\n'),
        (A, '        """Check if a value matches a given accept item."""\n        return item == "*" or item.lower() == value.lower()\n', '        """Check if a value matches a given accept item."""\n        if item == _WILDCARD:\n            return True\n\n        return value.lower() == item.lower()\n'),
        (A, '        return tuple(x != "*" for x in _mime_split_re.split(value))\n', '        return tuple(part != _WILDCARD for part in _mime_split_re.split(value))\n'),
    ],
    'specificity-overridden-with-the-same-ranking-in-subclasses': [
        (A, '    """Like :class:`Accept` but with normalization for language tags."""\n', '    """Like :class:`Accept` but with normalization for language tags."""\n\n    def _specificity(self, value: str) -> tuple[bool, ...]:\n        if value == "*":\n            return (False,)\n\n        return (True,)\n'),
        (A, '    """Like :class:`Accept` but with normalization for charsets."""\n', '    """Like :class:`Accept` but with normalization for charsets."""\n\n    def _specificity(self, value: str) -> tuple[bool, ...]:\n        is_wildcard = value == "*"\n        return (not is_wildcard,)\n'),
    ],
    'init-two-stable-sort-passes-minor-key-first': [
        (A, '        if values is None:\n            super().__init__()\n            self.provided = False\n        elif isinstance(values, Accept):\n            self.provided = values.provided\n            super().__init__(values)\n        else:\n            self.provided = True\n            values = sorted(\n                values, key=lambda x: (self._specificity(x[0]), x[1]), reverse=True\n            )\n            super().__init__(values)\n', '        if values is None:\n            super().__init__()\n            self.provided = False\n        elif isinstance(values, Accept):\n            self.provided = values.provided\n            super().__init__(values)\n        else:\n            self.provided = True\n            # stable: order by quality first, then by specificity\n            by_quality = sorted(values, key=lambda x: x[1], reverse=True)\n            by_quality.sort(key=lambda x: self._specificity(x[0]), reverse=True)\n            super().__init__(by_quality)\n'),
    ],
    'best-match-top-rank-then-first-offer-holding-it': [
        (A, '        result = default\n        best_quality: float = -1\n        best_specificity: tuple[float, ...] = (-1,)\n        for server_item in matches:\n            match = self._best_single_match(server_item)\n            if not match:\n                continue\n            client_item, quality = match\n            specificity = self._specificity(client_item)\n            if quality <= 0 or quality < best_quality:\n                continue\n            # better quality or same quality but more specific => better match\n            if quality > best_quality or specificity > best_specificity:\n                result = server_item\n                best_quality = quality\n                best_specificity = specificity\n        return result\n', '        ranked = []\n        for server_item in matches:\n            match = self._best_single_match(server_item)\n            if match and match[1] > 0:\n                ranked.append((server_item, (match[1], self._specificity(match[0]))))\n        if not ranked:\n            return default\n        top = max(rank for _, rank in ranked)\n        return next(server_item for server_item, rank in ranked if rank == top)\n'),
    ],
}


def _s5(name: str, *repl: tuple[str, str]) -> list:
    """the edits of round-5 twin ``name`` with text replacements applied to the new side (each must occur)."""
    out = []
    hit = [False] * len(repl)
    for f, old, new in _S5[name]:
        for i, (a, b) in enumerate(repl):
            if a in new:
                new = new.replace(a, b)
                hit[i] = True
        out.append((f, old, new))
    assert all(hit), (name, repl)
    return out


TWINS += [{"name": name, "edits": edits} for name, edits in _S5.items()]
MUTANTS += [
    {"name": "suppress-fallback-keeps-the-case-of-unknown-labels", "expect": "R17.4", "edits": _s5("charset-normaliser-under-contextlib-suppress", ("            return name.lower()\n", "            return name\n"))},
    {"name": "suppress-names-an-exception-the-lookup-does-not-raise", "expect": "R17.4", "edits": _s5("charset-normaliser-under-contextlib-suppress", ("contextlib.suppress(LookupError)", "contextlib.suppress(KeyError)"))},
    {"name": "suppress-block-default-is-the-label-verbatim", "expect": "R17.4", "edits": _s5("charset-suppress-block-overrides-the-lowered-default", ("            normalized = name.lower()\n", "            normalized = name\n"))},
    {"name": "suppress-block-keeps-the-label-of-a-known-codec", "expect": "R17.4", "edits": _s5("charset-suppress-block-overrides-the-lowered-default", ("normalized = codecs.lookup(name).name\n", "codecs.lookup(name)\n"))},
    {"name": "static-normaliser-default-not-lowered", "expect": "R17.4", "edits": _s5("charset-static-normaliser-lowers-first-then-looks-up", ("        canonical = name.lower()\n", "        canonical = name\n"))},
    {"name": "static-normaliser-through-class-keeps-case-in-the-handler", "expect": "R17.4", "edits": _s5("charset-static-normaliser-called-through-the-class-name", ("            return label.lower()\n", "            return label\n"))},
    {"name": "static-normaliser-applied-to-the-offer-only", "expect": "R17.4", "edits": _s5("charset-static-normaliser-called-through-the-class-name", ("== CharsetAccept._codec_name(item)", "== item.lower()"))},
    {"name": "classmethod-normaliser-keeps-case-in-the-handler", "expect": "R17.4", "edits": _s5("charset-classmethod-normaliser", ("            return name.lower()\n", "            return name\n"))},
    {"name": "map-normalises-with-lower-instead-of-the-registry", "expect": "R17.4", "edits": _s5("charset-both-labels-normalised-by-one-map", ("map(_normalize, (value, item))", "map(str.lower, (value, item))"))},
    {"name": "handler-passes-then-label-returned-verbatim", "expect": "R17.4", "edits": _s5("charset-handler-passes-and-falls-to-the-lowered-label", ("            return name.lower()\n", "            return name\n"))},
    {"name": "static-predicate-lets-quality-zero-win", "expect": "R17.2", "edits": _s5("best-match-ranking-in-a-static-predicate", ("        if quality <= 0:\n            return False\n", "        if quality < 0:\n            return False\n"))},
    {"name": "static-predicate-tie-replaces-the-earlier-offer", "expect": "R17.2", "edits": _s5("best-match-ranking-in-a-static-predicate", ("        return specificity > best_specificity\n", "        return specificity >= best_specificity\n"))},
    {"name": "static-predicate-ignores-specificity", "expect": "R17.2", "edits": _s5("best-match-ranking-in-a-static-predicate", ("        return specificity > best_specificity\n", "        return False\n"))},
    {"name": "namedtuple-rank-tie-replaces-the-earlier-offer", "expect": "R17.2", "edits": _s5("best-match-rank-kept-in-a-namedtuple", ("rank.specificity > best.specificity", "rank.specificity >= best.specificity"))},
    {"name": "namedtuple-rank-lets-quality-zero-win", "expect": "R17.2", "edits": _s5("best-match-rank-kept-in-a-namedtuple", ("if rank.quality <= 0 or rank.quality < best.quality:", "if rank.quality < 0 or rank.quality < best.quality:"))},
    {"name": "namedtuple-rank-remembers-only-the-quality", "expect": "R17.2", "edits": _s5("best-match-rank-kept-in-a-namedtuple", ("                best = rank\n", "                best = _Rank(rank.quality, best.specificity)\n"))},
    {"name": "itemgetter-key-specificity-major", "expect": "R17.2", "edits": _s5("best-match-max-keyed-by-itemgetter", ("operator.itemgetter(0, 1)", "operator.itemgetter(1, 0)"))},
    {"name": "itemgetter-key-quality-only-then-offer-text", "expect": "R17.2", "edits": _s5("best-match-max-keyed-by-itemgetter", ("operator.itemgetter(0, 1)", "operator.itemgetter(0, 2)"))},
    {"name": "itemgetter-max-admits-quality-zero", "expect": "R17.2", "edits": _s5("best-match-max-keyed-by-itemgetter", ("            if quality > 0:\n", "            if quality >= 0:\n"))},
    {"name": "mime-split-helper-loses-case-folding", "expect": "R17.4", "edits": _s5("mime-parts-split-by-a-helper-with-starred-unpacking", ("type_, subtype, *params = _normalize_mime(value)", "type_, subtype, *params = _mime_split_re.split(value)"))},
    {"name": "mime-split-helper-swaps-type-and-subtype", "expect": "R17.4", "edits": _s5("mime-parts-split-by-a-helper-with-starred-unpacking", ("    return type_, subtype, sorted(params)\n", "    return subtype, type_, sorted(params)\n"))},
    {"name": "mime-split-helper-drops-the-parameters", "expect": "R17.4", "edits": _s5("mime-parts-split-by-a-helper-with-starred-unpacking", ("    type_, subtype, *params = _normalize_mime(value)\n    return type_, subtype, sorted(params)\n", "    type_, subtype, *_params = _normalize_mime(value)\n    return type_, subtype, []\n"))},
    {"name": "wildcard-constant-spelled-differently", "expect": "R17.4", "edits": _s5("wildcard-hoisted-into-a-module-constant", ('_WILDCARD = "*"\n', '_WILDCARD = "*/*"\n'))},
    {"name": "subclass-specificity-override-ranks-wildcard-first", "expect": "R17.3", "edits": _s5("specificity-overridden-with-the-same-ranking-in-subclasses", ('        if value == "*":\n            return (False,)\n\n        return (True,)\n', '        if value == "*":\n            return (True,)\n\n        return (False,)\n'))},
    {"name": "subclass-specificity-override-ties-everything", "expect": "R17.3", "edits": _s5("specificity-overridden-with-the-same-ranking-in-subclasses", ("        return (not is_wildcard,)\n", "        return (is_wildcard or True,)\n"))},
    {"name": "two-pass-sort-major-key-first", "expect": "R17.3", "edits": _s5("init-two-stable-sort-passes-minor-key-first", ("by_quality = sorted(values, key=lambda x: x[1], reverse=True)\n            by_quality.sort(key=lambda x: self._specificity(x[0]), reverse=True)\n", "by_quality = sorted(values, key=lambda x: self._specificity(x[0]), reverse=True)\n            by_quality.sort(key=lambda x: x[1], reverse=True)\n"))},
    {"name": "second-scan-returns-the-last-offer-of-the-top-rank", "expect": "R17.2", "edits": _s5("best-match-top-rank-then-first-offer-holding-it", ("return next(server_item for server_item, rank in ranked if rank == top)", "return [server_item for server_item, rank in ranked if rank == top][-1]"))},
]

# method / helper aliases held in local names, EAFP unpacking of the match, codec lookup folded into None
_S5B = {
    'charset-static-normaliser-aliased-from-type-self': [
        (A, '    def _value_matches(self, value: str, item: str) -> bool:\n        def _normalize(name: str) -> str:\n            try:\n                return codecs.lookup(name).name\n            except LookupError:\n                return name.lower()\n\n        return item == "*" or _normalize(value) == _normalize(item)\n', '    @staticmethod\n    def _normalize(name: str) -> str:\n        try:\n            return codecs.lookup(name).name\n        except LookupError:\n            return name.lower()\n\n    def _value_matches(self, value: str, item: str) -> bool:\n        normalize = type(self)._normalize\n        return item == "*" or normalize(value) == normalize(item)\n'),
    ],
    'mime-specificity-predicate-aliased-from-the-class': [
        (A, '    def _specificity(self, value: str) -> tuple[bool, ...]:\n        return tuple(x != "*" for x in _mime_split_re.split(value))\n', '    @staticmethod\n    def _is_concrete(part: str) -> bool:\n        return part != "*"\n\n    def _specificity(self, value: str) -> tuple[bool, ...]:\n        is_concrete = self.__class__._is_concrete\n        return tuple(is_concrete(x) for x in _mime_split_re.split(value))\n'),
    ],
    'best-match-unpacks-the-match-under-try': [
        (A, '        result = default\n        best_quality: float = -1\n        best_specificity: tuple[float, ...] = (-1,)\n        for server_item in matches:\n            match = self._best_single_match(server_item)\n            if not match:\n                continue\n            client_item, quality = match\n            specificity = self._specificity(client_item)\n            if quality <= 0 or quality < best_quality:\n                continue\n            # better quality or same quality but more specific => better match\n            if quality > best_quality or specificity > best_specificity:\n                result = server_item\n                best_quality = quality\n                best_specificity = specificity\n        return result\n', '        result = default\n        best_quality: float = -1\n        best_specificity: tuple[float, ...] = (-1,)\n        for server_item in matches:\n            try:\n                client_item, quality = self._best_single_match(server_item)  # type: ignore[misc]\n            except TypeError:\n                # no client item matches\n                continue\n            specificity = self._specificity(client_item)\n            if quality <= 0 or quality < best_quality:\n                continue\n            # better quality or same quality but more specific => better match\n            if quality > best_quality or specificity > best_specificity:\n                result = server_item\n                best_quality = quality\n                best_specificity = specificity\n        return result\n'),
    ],
    'init-sort-key-through-an-alias-of-the-specificity-method': [
        (A, '        if values is None:\n            super().__init__()\n            self.provided = False\n        elif isinstance(values, Accept):\n            self.provided = values.provided\n            super().__init__(values)\n        else:\n            self.provided = True\n            values = sorted(\n                values, key=lambda x: (self._specificity(x[0]), x[1]), reverse=True\n            )\n            super().__init__(values)\n', '        if values is None:\n            super().__init__()\n            self.provided = False\n        elif isinstance(values, Accept):\n            self.provided = values.provided\n            super().__init__(values)\n        else:\n            self.provided = True\n            specificity = self._specificity\n            values = sorted(\n                values, key=lambda pair: (specificity(pair[0]), pair[1]), reverse=True\n            )\n            super().__init__(values)\n'),
    ],
    'charset-codec-found-or-none-by-a-module-helper': [
        (A, 'class CharsetAccept(Accept):\n', 'def _find_codec(name: str) -> codecs.CodecInfo | None:\n    try:\n        return codecs.lookup(name)\n    except LookupError:\n        return None\n\n\nclass CharsetAccept(Accept):\n'),
        (A, '        def _normalize(name: str) -> str:\n            try:\n                return codecs.lookup(name).name\n            except LookupError:\n                return name.lower()\n\n        return item == "*" or _normalize(value) == _normalize(item)\n', '        def _normalize(name: str) -> str:\n            if (codec := _find_codec(name)) is not None:\n                return codec.name\n\n            return name.lower()\n\n        return item == "*" or _normalize(value) == _normalize(item)\n'),
    ],
    'charset-known-flag-set-in-the-handler': [
        (A, '        def _normalize(name: str) -> str:\n            try:\n                return codecs.lookup(name).name\n            except LookupError:\n                return name.lower()\n\n        return item == "*" or _normalize(value) == _normalize(item)\n', '        def _normalize(name: str) -> str:\n            known = True\n\n            try:\n                info = codecs.lookup(name)\n            except LookupError:\n                known = False\n\n            return info.name if known else name.lower()\n\n        return item == "*" or _normalize(value) == _normalize(item)\n'),
    ],
}

_S5.update(_S5B)
TWINS += [{"name": name, "edits": edits} for name, edits in _S5B.items()]
MUTANTS += [
    {"name": "aliased-static-normaliser-keeps-case-in-the-handler", "expect": "R17.4", "edits": _s5("charset-static-normaliser-aliased-from-type-self", ("            return name.lower()\n", "            return name\n"))},
    {"name": "aliased-static-normaliser-applied-to-one-side", "expect": "R17.4", "edits": _s5("charset-static-normaliser-aliased-from-type-self", ("normalize(value) == normalize(item)", "normalize(value) == item.lower()"))},
    {"name": "aliased-mime-predicate-inverted", "expect": "R17.3", "edits": _s5("mime-specificity-predicate-aliased-from-the-class", ('        return part != "*"\n', '        return part == "*"\n'))},
    {"name": "try-unpack-lets-quality-zero-win", "expect": "R17.2", "edits": _s5("best-match-unpacks-the-match-under-try", ("            if quality <= 0 or quality < best_quality:\n", "            if quality < 0 or quality < best_quality:\n"))},
    {"name": "try-unpack-no-match-ends-the-scan", "expect": "R17.2", "edits": _s5("best-match-unpacks-the-match-under-try", ("                # no client item matches\n                continue\n", "                # no client item matches\n                break\n"))},
    {"name": "aliased-sort-key-quality-major", "expect": "R17.3", "edits": _s5("init-sort-key-through-an-alias-of-the-specificity-method", ("(specificity(pair[0]), pair[1])", "(pair[1], specificity(pair[0]))"))},
    {"name": "codec-or-none-helper-unknown-label-verbatim", "expect": "R17.4", "edits": _s5("charset-codec-found-or-none-by-a-module-helper", ("            return name.lower()\n", "            return name\n"))},
    {"name": "codec-or-none-helper-catches-the-wrong-exception", "expect": "R17.4", "edits": _s5("charset-codec-found-or-none-by-a-module-helper", ("    except LookupError:\n        return None\n", "    except KeyError:\n        return None\n"))},
    {"name": "known-flag-unknown-label-verbatim", "expect": "R17.4", "edits": _s5("charset-known-flag-set-in-the-handler", ("return info.name if known else name.lower()", "return info.name if known else name"))},
    {"name": "known-flag-arms-swapped-on-a-lowered-label", "expect": "R17.4", "edits": _s5("charset-known-flag-set-in-the-handler", ("return info.name if known else name.lower()", "return name if known else name.lower()"))},
]

# star-unpacking of the normalised media type (seed C17-F's shape): the parameter lists must still be compared as sets
_MIME_SPLIT_V = "        normalized_value = _normalize_mime(value)\n        value_type, value_subtype = normalized_value[:2]\n        value_params = sorted(normalized_value[2:])\n"
_MIME_SPLIT_I = "        normalized_item = _normalize_mime(item)\n        item_type, item_subtype = normalized_item[:2]\n        item_params = sorted(normalized_item[2:])\n"
TWINS += [
    {"name": "mime-star-unpacking-parameters-sorted-in-place", "edits": [
        (A, _MIME_SPLIT_V, "        value_type, value_subtype, *value_params = _normalize_mime(value)\n        value_params.sort()\n"),
        (A, _MIME_SPLIT_I, "        item_type, item_subtype, *item_params = _normalize_mime(item)\n        item_params.sort()\n")]},
    {"name": "mime-star-unpacking-parameters-compared-as-sets", "edits": [
        (A, _MIME_SPLIT_V, "        value_type, value_subtype, *value_rest = _normalize_mime(value)\n        value_params = sorted(value_rest)\n"),
        (A, _MIME_SPLIT_I, "        item_type, item_subtype, *item_rest = _normalize_mime(item)\n        item_params = sorted(item_rest)\n")]},
]
MUTANTS += [
    {"name": "mime-star-unpacking-loses-the-sort", "expect": "R17.4", "edits": [
        (A, _MIME_SPLIT_V, "        value_type, value_subtype, *value_params = _normalize_mime(value)\n"),
        (A, _MIME_SPLIT_I, "        item_type, item_subtype, *item_params = _normalize_mime(item)\n")]},
    {"name": "mime-star-unpacking-sorts-one-side-only", "expect": "R17.4", "edits": [
        (A, _MIME_SPLIT_V, "        value_type, value_subtype, *value_params = _normalize_mime(value)\n        value_params.sort()\n"),
        (A, _MIME_SPLIT_I, "        item_type, item_subtype, *item_params = _normalize_mime(item)\n")]},
    {"name": "mime-split-helper-returns-parameters-unsorted", "expect": "R17.4", "edits": _s5("mime-parts-split-by-a-helper-with-starred-unpacking", ("    return type_, subtype, sorted(params)\n", "    return type_, subtype, params\n"))},
]

# R17.6 (refused offers and the primary-tag fallbacks): the unchanged tree carries the known findings; repaired shapes
# must be silent (no finding, no give-up) in more than one spelling
_R176_AT = "        result = super().best_match(matches)\n\n        if result is not None:\n            return result\n\n        # Fall back to accepting primary tags."
TWINS += [
    {"name": "refused-offers-filtered-before-fallbacks-walrus", "edits": [("datastructures/accept.py", _R176_AT, "        result = super().best_match(matches)\n\n        if result is not None:\n            return result\n\n        matches = [\n            item\n            for item in matches\n            if (found := self._best_single_match(item)) is None or found[1] > 0\n        ]\n\n        # Fall back to accepting primary tags.")]},
    {"name": "refused-offers-filtered-before-fallbacks-quality-find", "edits": [("datastructures/accept.py", _R176_AT, "        result = super().best_match(matches)\n\n        if result is not None:\n            return result\n\n        allowed = []\n        for offer in matches:\n            if self.find(offer) < 0 or self.quality(offer) > 0:\n                allowed.append(offer)\n        matches = allowed\n\n        # Fall back to accepting primary tags.")]},
]


# /repo fix b5aeb6b widened CharsetAccept's handler to (LookupError, ValueError) and added a comment line: anchors
# written against the older text are rebased here (the replacement text of an entry is left as its author wrote it).
def _rebase_charset_handler(entries):
    old_h = "            except LookupError:\n                return name.lower()"
    new_h = "            except (LookupError, ValueError):\n                # ValueError: the name contains a null character.\n                return name.lower()"
    for e in entries:
        fixed = []
        for ed in e["edits"]:
            if isinstance(ed, tuple) and len(ed) == 3 and ed[0] == A and old_h in ed[1]:
                ed = (ed[0], ed[1].replace(old_h, new_h), ed[2])
            elif isinstance(ed, tuple) and len(ed) == 3 and ed[0] == A and ed[1].startswith("            except LookupError:\n"):
                ed = (ed[0], ed[1].replace("            except LookupError:\n", "            except (LookupError, ValueError):\n", 1), ed[2].replace("            except LookupError:\n", "            except (LookupError, ValueError):\n", 1))
            fixed.append(ed)
        e["edits"] = fixed


_rebase_charset_handler(MUTANTS)
_rebase_charset_handler(TWINS)
