"""self-validation battery for C17."""
H = "http.py"
A = "datastructures/accept.py"

_RANGE = "            if q < 0 or q > 1:\n                # ignore an invalid q\n                continue\n"
_GATE = "            if quality <= 0 or quality < best_quality:\n                continue\n"
_REPL = "            if quality > best_quality or specificity > best_specificity:\n"
_KEY = "                values, key=lambda x: (self._specificity(x[0]), x[1]), reverse=True\n"
_BSM = "        for client_item, quality in self:\n            if self._value_matches(match, client_item):\n                # self is sorted by specificity descending, we can exit\n                return client_item, quality\n        return None"

_MAPBACK = "            return next(\n                item\n                for item in matches\n                if _locale_delim_re.split(item, 1)[0] == result\n            )"

MUTANTS = [
    # ---- R17.1 ----
    {"name": "range-check-removed", "expect": "R17.1", "edits": [(H, _RANGE, "")]},
    {"name": "upper-bound-conjunct-dropped", "expect": "R17.1", "edits": [(H, "            if q < 0 or q > 1:\n", "            if q < 0:\n")]},
    {"name": "upper-bound-rejects-one", "expect": "R17.1", "edits": [(H, "            if q < 0 or q > 1:\n", "            if q < 0 or q >= 1:\n")]},
    {"name": "lower-bound-rejects-zero", "expect": "R17.1", "edits": [(H, "            if q < 0 or q > 1:\n", "            if q <= 0 or q > 1:\n")]},
    {"name": "range-check-after-append", "expect": "R17.1", "edits": [(H, _RANGE, ""), (H, "        result.append((item, q))\n", "        result.append((item, q))\n\n        if q < 0 or q > 1:\n            continue\n")]},
    {"name": "fullmatch-becomes-match", "expect": "R17.1", "edits": [(H, "            if _q_value_re.fullmatch(q_str) is None:", "            if _q_value_re.match(q_str) is None:")]},
    {"name": "pattern-loses-ascii-flag", "expect": "R17.1", "edits": [(H, '_q_value_re = re.compile(r"-?\\d+(\\.\\d+)?", re.ASCII)', '_q_value_re = re.compile(r"-?\\d+(\\.\\d+)?")')]},
    {"name": "pattern-admits-exponent", "expect": "R17.1", "edits": [(H, '_q_value_re = re.compile(r"-?\\d+(\\.\\d+)?", re.ASCII)', '_q_value_re = re.compile(r"-?\\d+(\\.\\d+)?(e-?\\d+)?", re.ASCII)')]},
    {"name": "pattern-requires-fraction", "expect": "R17.1", "edits": [(H, '_q_value_re = re.compile(r"-?\\d+(\\.\\d+)?", re.ASCII)', '_q_value_re = re.compile(r"-?\\d+\\.\\d+", re.ASCII)')]},
    {"name": "pattern-test-polarity-flipped", "expect": "R17.1", "edits": [(H, "            if _q_value_re.fullmatch(q_str) is None:", "            if _q_value_re.fullmatch(q_str) is not None:")]},
    {"name": "default-quality-zero", "expect": "R17.1", "edits": [(H, "        else:\n            q = 1\n\n        if options:", "        else:\n            q = 0\n\n        if options:")]},
    {"name": "tight-pattern-without-range-check", "expect": "R17.1", "edits": [(H, '_q_value_re = re.compile(r"-?\\d+(\\.\\d+)?", re.ASCII)', '_q_value_re = re.compile(r"(?:0|1)(?:\\.\\d{0,3})?", re.ASCII)'), (H, _RANGE, "")]},
    # ---- R17.2 ----
    {"name": "zero-quality-eligible", "expect": "R17.2", "edits": [(A, "            if quality <= 0 or quality < best_quality:", "            if quality < 0 or quality < best_quality:")]},
    {"name": "worse-quality-not-skipped", "expect": "R17.2", "edits": [(A, "            if quality <= 0 or quality < best_quality:", "            if quality <= 0:")]},
    {"name": "tie-replaces-earlier-offer", "expect": "R17.2", "edits": [(A, _REPL, "            if quality > best_quality or specificity >= best_specificity:\n")]},
    {"name": "rank-tuple-specificity-major", "expect": "R17.2", "edits": [(A, _REPL, "            if (specificity, quality) > (best_specificity, best_quality):\n")]},
    {"name": "equal-quality-never-replaces", "expect": "R17.2", "edits": [(A, _REPL, "            if quality > best_quality:\n")]},
    {"name": "no-match-not-skipped", "expect": "R17.2", "edits": [(A, "            if not match:\n                continue\n            client_item, quality = match", "            if not match:\n                pass\n            client_item, quality = match")]},
    {"name": "best-quality-not-updated", "expect": "R17.2", "edits": [(A, "                result = server_item\n                best_quality = quality\n", "                result = server_item\n")]},
    {"name": "best-quality-starts-at-one", "expect": "R17.2", "edits": [(A, "        best_quality: float = -1\n", "        best_quality: float = 1\n")]},
    {"name": "offers-visited-backwards", "expect": "R17.2", "edits": [(A, "        for server_item in matches:\n            match = self._best_single_match(server_item)", "        for server_item in reversed(list(matches)):\n            match = self._best_single_match(server_item)")]},
    {"name": "language-fallback-forgets-q", "expect": "R17.2", "edits": [(A, "[(_locale_delim_re.split(item[0], 1)[0], item[1]) for item in self]", "[(_locale_delim_re.split(item[0], 1)[0], 1) for item in self]")]},
    {"name": "language-fallback-overrides-exact", "expect": "R17.2", "edits": [(A, "        result = super().best_match(matches)\n\n        if result is not None:\n            return result\n\n        # Fall back to accepting primary tags.", "        result = super().best_match(matches)\n\n        # Fall back to accepting primary tags.")]},
    {"name": "language-last-resort-first-offer", "expect": "R17.2", "edits": [(A, "        return default\n\n\nclass CharsetAccept", "        return next(iter(matches), default)\n\n\nclass CharsetAccept")]},
    {"name": "language-tag-mapped-back-by-prefix", "expect": "R17.2", "edits": [(A, "                if _locale_delim_re.split(item, 1)[0] == result\n", "                if item.startswith(result)\n")]},
    {"name": "language-maps-back-last-offer", "expect": "R17.2", "edits": [(A, _MAPBACK, "            return [\n                item\n                for item in matches\n                if _locale_delim_re.split(item, 1)[0] == result\n            ][-1]")]},
    # ---- R17.3 ----
    {"name": "sort-key-quality-major", "expect": "R17.3", "edits": [(A, _KEY, "                values, key=lambda x: (x[1], self._specificity(x[0])), reverse=True\n")]},
    {"name": "sort-key-without-quality", "expect": "R17.3", "edits": [(A, _KEY, "                values, key=lambda x: self._specificity(x[0]), reverse=True\n")]},
    {"name": "sort-ascending", "expect": "R17.3", "edits": [(A, _KEY, "                values, key=lambda x: (self._specificity(x[0]), x[1])\n")]},
    {"name": "sort-key-alphabetical-ties", "expect": "R17.3", "edits": [(A, _KEY, "                values, key=lambda x: (self._specificity(x[0]), x[1], x[0]), reverse=True\n")]},
    {"name": "sorted-then-reversed-slice", "expect": "R17.3", "edits": [(A, "            values = sorted(\n" + _KEY + "            )\n", "            values = sorted(\n                values, key=lambda x: (self._specificity(x[0]), x[1])\n            )[::-1]\n")]},
    {"name": "single-match-scans-backwards", "expect": "R17.3", "edits": [(A, "        for client_item, quality in self:\n            if self._value_matches(match, client_item):", "        for client_item, quality in reversed(self):\n            if self._value_matches(match, client_item):")]},
    {"name": "single-match-arguments-swapped", "expect": "R17.3", "edits": [(A, "            if self._value_matches(match, client_item):", "            if self._value_matches(client_item, match):")]},
    {"name": "quality-defaults-to-one", "expect": "R17.3", "edits": [(A, "            if self._value_matches(key, item):\n                return quality\n        return 0", "            if self._value_matches(key, item):\n                return quality\n        return 1")]},
    {"name": "mime-specificity-inverted", "expect": "R17.3", "edits": [(A, '        return tuple(x != "*" for x in _mime_split_re.split(value))', '        return tuple(x == "*" for x in _mime_split_re.split(value))')]},
    {"name": "parser-prepends-items", "expect": "R17.3", "edits": [(H, "        result.append((item, q))\n", "        result.append((item, q))\n        result.reverse()\n")]},
    # ---- R17.4 ----
    {"name": "base-wildcard-dropped", "expect": "R17.4", "edits": [(A, '        return item == "*" or item.lower() == value.lower()', "        return item.lower() == value.lower()")]},
    {"name": "language-wildcard-on-offer", "expect": "R17.4", "edits": [(A, '        return item == "*" or _normalize_lang(value) == _normalize_lang(item)', '        return value == "*" or _normalize_lang(value) == _normalize_lang(item)')]},
    {"name": "charset-wildcard-dropped", "expect": "R17.4", "edits": [(A, '        return item == "*" or _normalize(value) == _normalize(item)', "        return _normalize(value) == _normalize(item)")]},
    {"name": "charset-range-not-normalised", "expect": "R17.4", "edits": [(A, '        return item == "*" or _normalize(value) == _normalize(item)', '        return item == "*" or _normalize(value) == item')]},
    {"name": "base-offer-not-lowercased", "expect": "R17.4", "edits": [(A, '        return item == "*" or item.lower() == value.lower()', '        return item == "*" or item.lower() == value')]},
    {"name": "mime-subtype-wildcard-dropped", "expect": "R17.4", "edits": [(A, '                item_subtype == "*"\n                or value_subtype == "*"', '                value_subtype == "*"')]},
    {"name": "mime-full-wildcard-needs-type-only", "expect": "R17.4", "edits": [(A, '            (item_type == "*" and item_subtype == "*")\n', '            (item_type == "*" and item_subtype != "*")\n')]},
    {"name": "mime-params-ignored", "expect": "R17.4", "edits": [(A, "(item_subtype == value_subtype and item_params == value_params)", "(item_subtype == value_subtype)")]},
    {"name": "mime-split-loses-case-folding", "expect": "R17.4", "edits": [(A, "    return _mime_split_re.split(value.lower())", "    return _mime_split_re.split(value)")]},
]

TWINS = [
    {"name": "replace-condition-commuted", "edits": [(A, _REPL, "            if specificity > best_specificity or quality > best_quality:\n")]},
    {"name": "gate-split-into-early-continues", "edits": [(A, _GATE, "            if quality <= 0:\n                continue\n            if quality < best_quality:\n                continue\n")]},
    {"name": "rank-tuple-quality-major", "edits": [(A, _REPL, "            if (quality, specificity) > (best_quality, best_specificity):\n")]},
    {"name": "rank-tuple-state-variable", "edits": [
        (A, "        best_quality: float = -1\n        best_specificity: tuple[float, ...] = (-1,)\n", "        best: tuple[float, tuple[float, ...]] = (-1, (-1,))\n"),
        (A, "            specificity = self._specificity(client_item)\n" + _GATE + "            # better quality or same quality but more specific => better match\n" + _REPL + "                result = server_item\n                best_quality = quality\n                best_specificity = specificity\n",
         "            if quality <= 0:\n                continue\n            rank = (quality, self._specificity(client_item))\n            if rank > best:\n                result = server_item\n                best = rank\n"),
    ]},
    {"name": "match-test-is-none-and-flipped-branches", "edits": [(A, "            if not match:\n                continue\n            client_item, quality = match", "            if match is None:\n                continue\n            client_item, quality = match")]},
    {"name": "range-check-chained-comparison", "edits": [(H, "            if q < 0 or q > 1:\n", "            if not 0 <= q <= 1:\n")]},
    {"name": "range-check-after-the-branches", "edits": [(H, _RANGE, ""), (H, "        if options:\n            # reconstruct", "        if q < 0 or q > 1:\n            # ignore an invalid q\n            continue\n\n        if options:\n            # reconstruct")]},
    {"name": "pattern-test-via-local-and-truthiness", "edits": [(H, "            if _q_value_re.fullmatch(q_str) is None:\n", "            q_match = _q_value_re.fullmatch(q_str)\n\n            if not q_match:\n")]},
    # property-preserving rather than byte-for-byte: the range is enforced by the pattern's language instead of the comparison
    {"name": "range-enforced-by-pattern-language", "edits": [(H, '_q_value_re = re.compile(r"-?\\d+(\\.\\d+)?", re.ASCII)', '_q_value_re = re.compile(r"(?:0(?:\\.\\d+)?|1(?:\\.0+)?)", re.ASCII)'), (H, _RANGE, "")]},
    {"name": "single-match-returns-the-pair", "edits": [(A, _BSM, "        for pair in self:\n            if self._value_matches(match, pair[0]):\n                return pair\n        return None")]},
    {"name": "base-wildcard-early-return", "edits": [(A, '        return item == "*" or item.lower() == value.lower()', '        if item == "*":\n            return True\n        return value.lower() == item.lower()')]},
    {"name": "sort-key-named-components", "edits": [(A, _KEY, "                values, key=lambda pair: (self._specificity(pair[0]), pair[1]), reverse=True\n")]},
    {"name": "language-fallback-tuple-target", "edits": [(A, "[(_locale_delim_re.split(item[0], 1)[0], item[1]) for item in self]", "[(_locale_delim_re.split(tag, 1)[0], q) for tag, q in self]")]},
]

_PAH = (
    '        if "q" in options:\n            # pop q, remaining options are reconstructed\n            q_str = options.pop("q").strip()\n\n'
    "            if _q_value_re.fullmatch(q_str) is None:\n                # ignore an invalid q\n                continue\n\n            q = float(q_str)\n\n"
    + _RANGE + "        else:\n            q = 1\n"
)
_LOOP_BODY = (
    "            if not match:\n                continue\n            client_item, quality = match\n            specificity = self._specificity(client_item)\n"
    + _GATE + "            # better quality or same quality but more specific => better match\n" + _REPL
    + "                result = server_item\n                best_quality = quality\n                best_specificity = specificity\n"
)
_INIT = (
    "        if values is None:\n            super().__init__()\n            self.provided = False\n        elif isinstance(values, Accept):\n"
    "            self.provided = values.provided\n            super().__init__(values)\n        else:\n            self.provided = True\n"
    "            values = sorted(\n" + _KEY + "            )\n            super().__init__(values)\n"
)

TWINS += [
    {"name": "parser-branches-flipped", "edits": [(H, _PAH, '        if "q" not in options:\n            q = 1\n        else:\n            q_str = options.pop("q").strip()\n\n            if _q_value_re.fullmatch(q_str) is None:\n                continue\n\n            q = float(q_str)\n\n            if q < 0 or q > 1:\n                continue\n')]},
    {"name": "parser-locals-renamed-bounds-reordered", "edits": [
        (H, _PAH, '        if "q" in options:\n            raw = options.pop("q").strip()\n\n            if not _q_value_re.fullmatch(raw):\n                continue\n\n            weight = float(raw)\n\n            if weight > 1 or weight < 0:\n                continue\n        else:\n            weight = 1.0\n'),
        (H, "        result.append((item, q))\n", "        result.append((item, weight))\n"),
    ]},
    {"name": "parser-default-first-positive-nesting", "edits": [(H, _PAH, '        q = 1\n        if "q" in options:\n            q_str = options.pop("q").strip()\n            if _q_value_re.fullmatch(q_str) is not None:\n                q = float(q_str)\n                if not (0 <= q <= 1):\n                    continue\n            else:\n                continue\n')]},
    {"name": "quality-built-on-single-match", "edits": [(A, "        for item, quality in self:\n            if self._value_matches(key, item):\n                return quality\n        return 0", "        found = self._best_single_match(key)\n        return found[1] if found else 0")]},
    {"name": "language-stage-bound-by-walrus", "edits": [(A, "        result = super().best_match(matches)\n\n        if result is not None:\n            return result\n\n        # Fall back to accepting primary tags.", "        if (result := super().best_match(matches)) is not None:\n            return result\n\n        # Fall back to accepting primary tags.")]},
    {"name": "replace-branches-duplicated-elif", "edits": [(A, _REPL + "                result = server_item\n                best_quality = quality\n                best_specificity = specificity\n",
        "            if quality > best_quality:\n                result = server_item\n                best_quality = quality\n                best_specificity = specificity\n            elif specificity > best_specificity:\n                result = server_item\n                best_quality = quality\n                best_specificity = specificity\n")]},
    {"name": "loop-body-positive-nesting-reordered-updates", "edits": [(A, _LOOP_BODY,
        "            if match is not None:\n                client_item, quality = match\n                if quality > 0 and quality >= best_quality:\n                    specificity = self._specificity(client_item)\n"
        "                    if quality > best_quality or specificity > best_specificity:\n                        best_specificity = specificity\n                        best_quality = quality\n                        result = server_item\n")]},
    {"name": "loop-gate-merged-on-match-components", "edits": [(A, "            if not match:\n                continue\n            client_item, quality = match\n            specificity = self._specificity(client_item)\n" + _GATE,
        "            if not match or match[1] <= 0 or match[1] < best_quality:\n                continue\n            client_item, quality = match\n            specificity = self._specificity(client_item)\n")]},
    {"name": "base-specificity-conditional-expression", "edits": [(A, '        return (value != "*",)', '        return (0,) if value == "*" else (1,)')]},
    {"name": "init-early-returns-sorted-into-new-local", "edits": [(A, _INIT,
        "        if values is None:\n            super().__init__()\n            self.provided = False\n            return\n        if isinstance(values, Accept):\n            self.provided = values.provided\n            super().__init__(values)\n            return\n"
        "        self.provided = True\n        ordered = sorted(\n            values, reverse=True, key=lambda x: (self._specificity(x[0]), x[1])\n        )\n        super().__init__(ordered)\n")]},
    {"name": "mime-full-wildcard-early-return", "edits": [(A, '        return (\n            (item_type == "*" and item_subtype == "*")\n            or (value_type == "*" and value_subtype == "*")\n        ) or (',
        '        if item_type == "*" and item_subtype == "*":\n            return True\n\n        return (value_type == "*" and value_subtype == "*") or (')]},
]


# ---- refactored shapes (helper extraction, equivalent stdlib idioms, result variables) and defects seeded on top of them ----
_SORT = "            values = sorted(\n" + _KEY + "            )\n            super().__init__(values)\n"
_OVERLOAD = "@t.overload\ndef parse_accept_header(value: str | None) -> ds.Accept: ..."
_QHELPER = (
    "def _accept_quality(raw):\n    text = raw.strip()\n    if not _q_value_re.fullmatch(text):\n        return None\n"
    "    number = float(text)\n    return number if 0 <= number <= 1 else None\n\n\n"
)
_PAH_HELPER = (
    '        q = 1\n\n        if "q" in options:\n            if (given := _accept_quality(options.pop("q"))) is None:\n                continue\n\n            q = given\n'
)
_BASE_VM = '        return item == "*" or item.lower() == value.lower()'
_LANG_VM = '        return item == "*" or _normalize_lang(value) == _normalize_lang(item)'
_CHARSET_VM = '        return item == "*" or _normalize(value) == _normalize(item)'
_MIME_SPEC = '        return tuple(x != "*" for x in _mime_split_re.split(value))'
_MIME_TAIL = (
    "        normalized_value = _normalize_mime(value)\n        value_type, value_subtype = normalized_value[:2]\n        value_params = sorted(normalized_value[2:])\n"
)
_LANG_STAGE3 = "        fallback_matches = [_locale_delim_re.split(item, 1)[0] for item in matches]\n        result = super().best_match(fallback_matches)\n"
_LANG_FALLBACK = "        fallback = Accept(\n            [(_locale_delim_re.split(item[0], 1)[0], item[1]) for item in self]\n        )\n"
_BSM_NEXT = "        return next(((rng, q) for rng, q in self if self._value_matches(match, rng)), None)"
_BSM_BREAK = "        hit = None\n        for rng, q in self:\n            if self._value_matches(match, rng):\n                hit = (rng, q)\n                break\n        return hit"

TWINS += [
    {"name": "q-parsing-in-helper-conditional-return-walrus", "edits": [(H, _OVERLOAD, _QHELPER + _OVERLOAD), (H, _PAH, _PAH_HELPER)]},
    {"name": "q-pattern-test-in-predicate-helper", "edits": [(H, _OVERLOAD, "def _q_ok(text):\n    return _q_value_re.fullmatch(text) is not None\n\n\n" + _OVERLOAD), (H, "            if _q_value_re.fullmatch(q_str) is None:\n", "            if not _q_ok(q_str):\n")]},
    {"name": "single-match-next-over-generator", "edits": [(A, _BSM, _BSM_NEXT)]},
    {"name": "single-match-search-loop-with-break", "edits": [(A, _BSM, _BSM_BREAK)]},
    {"name": "quality-next-over-generator", "edits": [(A, "        for item, quality in self:\n            if self._value_matches(key, item):\n                return quality\n        return 0", "        return next((q for rng, q in self if self._value_matches(key, rng)), 0)")]},
    {"name": "loop-one-tuple-assignment-for-choice-and-state", "edits": [(A, "                result = server_item\n                best_quality = quality\n                best_specificity = specificity\n", "                result, best_quality, best_specificity = server_item, quality, specificity\n")]},
    {"name": "loop-state-initialised-by-tuple-assignment", "edits": [(A, "        result = default\n        best_quality: float = -1\n        best_specificity: tuple[float, ...] = (-1,)\n", "        result, best_quality, best_specificity = default, -1, (-1,)\n")]},
    {"name": "loop-default-applied-after-the-loop", "edits": [(A, "        result = default\n        best_quality: float = -1", "        result = None\n        best_quality: float = -1"), (A, "                best_specificity = specificity\n        return result\n", "                best_specificity = specificity\n        return default if result is None else result\n")]},
    {"name": "loop-comparison-in-private-method", "edits": [(A, _REPL, "            if self._outranks(quality, specificity, best_quality, best_specificity):\n"), (A, "    @property\n    def best(self)", "    def _outranks(self, q, s, bq, bs):\n        if q > bq:\n            return True\n        return s > bs\n\n    @property\n    def best(self)")]},
    {"name": "init-list-sort-in-place", "edits": [(A, _SORT, "            ordered = list(values)\n            ordered.sort(key=lambda x: (self._specificity(x[0]), x[1]), reverse=True)\n            super().__init__(ordered)\n")]},
    {"name": "init-sort-key-nested-function", "edits": [(A, _SORT, "            def rank(pair):\n                return self._specificity(pair[0]), pair[1]\n\n            super().__init__(sorted(values, key=rank, reverse=True))\n")]},
    {"name": "base-match-result-variable", "edits": [(A, _BASE_VM, '        matched = False\n        if item == "*":\n            matched = True\n        elif item.lower() == value.lower():\n            matched = True\n        return matched')]},
    {"name": "language-match-normalised-locals", "edits": [(A, _LANG_VM, '        if item == "*":\n            return True\n        offered = _normalize_lang(value)\n        accepted = _normalize_lang(item)\n        return offered == accepted')]},
    {"name": "charset-match-in-module-helper", "edits": [(A, _CHARSET_VM, '        return item == "*" or _same_charset(value, item)'), (A, "class CharsetAccept(Accept):", "def _same_charset(a, b):\n    return _normalize(a) == _normalize(b)\n\n\nclass CharsetAccept(Accept):")]},
    {"name": "mime-specificity-append-loop", "edits": [(A, _MIME_SPEC, '        out = []\n        for part in _mime_split_re.split(value):\n            out.append(part != "*")\n        return tuple(out)')]},
    {"name": "mime-split-in-helper-returning-triple", "edits": [
        (A, "class MIMEAccept(Accept):", "def _mime_parts(text):\n    pieces = _normalize_mime(text)\n    return pieces[0], pieces[1], sorted(pieces[2:])\n\n\nclass MIMEAccept(Accept):"),
        (A, _MIME_TAIL, "        value_type, value_subtype, value_params = _mime_parts(value)\n"),
        (A, "        normalized_item = _normalize_mime(item)\n        item_type, item_subtype = normalized_item[:2]\n        item_params = sorted(normalized_item[2:])\n", "        item_type, item_subtype, item_params = _mime_parts(item)\n"),
    ]},
    {"name": "language-map-back-search-loop", "edits": [(A, "        if result is not None:\n" + _MAPBACK + "\n\n        return default", "        if result is not None:\n            for item in matches:\n                if _locale_delim_re.split(item, 1)[0] == result:\n                    return item\n\n        return default")]},
    {"name": "language-fallback-ranges-built-by-loop", "edits": [(A, _LANG_FALLBACK, "        primary = []\n        for tag, q in self:\n            primary.append((_locale_delim_re.split(tag, 1)[0], q))\n        fallback = Accept(primary)\n")]},
    {"name": "language-first-offer-per-primary-tag-mapping", "edits": [(A, _LANG_STAGE3, "        by_primary = {}\n        for item in matches:\n            by_primary.setdefault(_locale_delim_re.split(item, 1)[0], item)\n        result = super().best_match(list(by_primary))\n"), (A, _MAPBACK, "            return by_primary[result]")]},
    {"name": "language-primary-tag-helper", "edits": [(A, "[(_locale_delim_re.split(item[0], 1)[0], item[1]) for item in self]", "[(_primary_tag(item[0]), item[1]) for item in self]"), (A, "[_locale_delim_re.split(item, 1)[0] for item in matches]", "[_primary_tag(item) for item in matches]"),
        (A, "if _locale_delim_re.split(item, 1)[0] == result", "if _primary_tag(item) == result"), (A, "class LanguageAccept(Accept):", "def _primary_tag(tag):\n    return _locale_delim_re.split(tag, 1)[0]\n\n\nclass LanguageAccept(Accept):")]},
    # stage 3 can only yield a tag that is itself an offer when stage 1 already matched that offer: unreachable shortcut (differentially tested)
    {"name": "language-derived-tag-shortcut-unreachable", "edits": [(A, "        result = super().best_match(fallback_matches)\n", "        result = super().best_match(fallback_matches)\n\n        if result in matches:\n            return result\n")]},
]

MUTANTS += [
    {"name": "helper-upper-bound-dropped", "expect": "R17.1", "edits": [(H, _OVERLOAD, _QHELPER.replace("0 <= number <= 1", "0 <= number") + _OVERLOAD), (H, _PAH, _PAH_HELPER)]},
    {"name": "helper-result-tested-for-truth-drops-zero", "expect": "R17.1", "edits": [(H, _OVERLOAD, _QHELPER + _OVERLOAD), (H, _PAH, _PAH_HELPER.replace("if (given := _accept_quality(options.pop(\"q\"))) is None:", "if not (given := _accept_quality(options.pop(\"q\"))):"))]},
    {"name": "helper-rejected-q-falls-back-to-default", "expect": "R17.1", "edits": [(H, _OVERLOAD, _QHELPER + _OVERLOAD), (H, _PAH, '        q = 1\n\n        if "q" in options:\n            if (given := _accept_quality(options.pop("q"))) is not None:\n                q = given\n')]},
    {"name": "helper-pattern-prefix-match", "expect": "R17.1", "edits": [(H, _OVERLOAD, _QHELPER.replace("fullmatch", "match") + _OVERLOAD), (H, _PAH, _PAH_HELPER)]},
    {"name": "out-of-range-q-raises", "expect": "R17.1", "edits": [(H, _RANGE, "            if q < 0 or q > 1:\n                raise ValueError(q_str)\n")]},
    {"name": "single-match-next-scans-backwards", "expect": "R17.3", "edits": [(A, _BSM, _BSM_NEXT.replace("in self if", "in reversed(self) if"))]},
    {"name": "single-match-next-without-default", "expect": "R17.3", "edits": [(A, _BSM, _BSM_NEXT.replace(", None)", ")"))]},
    {"name": "single-match-search-loop-last-wins", "expect": "R17.3", "edits": [(A, _BSM, _BSM_BREAK.replace("                break\n", ""))]},
    {"name": "init-list-sort-ascending", "expect": "R17.3", "edits": [(A, _SORT, "            ordered = list(values)\n            ordered.sort(key=lambda x: (self._specificity(x[0]), x[1]))\n            super().__init__(ordered)\n")]},
    {"name": "init-list-sorted-copy-not-stored", "expect": "R17.3", "edits": [(A, _SORT, "            ordered = list(values)\n            ordered.sort(key=lambda x: (self._specificity(x[0]), x[1]), reverse=True)\n            super().__init__(values)\n")]},
    {"name": "tuple-assignment-forgets-best-quality", "expect": "R17.2", "edits": [(A, "                result = server_item\n                best_quality = quality\n                best_specificity = specificity\n", "                result, best_specificity = server_item, specificity\n")]},
    {"name": "private-method-comparison-ties-replace", "expect": "R17.2", "edits": [(A, _REPL, "            if self._outranks(quality, specificity, best_quality, best_specificity):\n"), (A, "    @property\n    def best(self)", "    def _outranks(self, q, s, bq, bs):\n        if q > bq:\n            return True\n        return s >= bs\n\n    @property\n    def best(self)")]},
    {"name": "default-returned-even-when-chosen", "expect": "R17.2", "edits": [(A, "                best_specificity = specificity\n        return result\n", "                best_specificity = specificity\n        return default if result is not None else result\n")]},
    {"name": "language-fallback-loop-forgets-q", "expect": "R17.2", "edits": [(A, _LANG_FALLBACK, "        primary = []\n        for tag, q in self:\n            primary.append((_locale_delim_re.split(tag, 1)[0], 1))\n        fallback = Accept(primary)\n")]},
    {"name": "language-mapping-keeps-last-offer-per-tag", "expect": "R17.2", "edits": [(A, _LANG_STAGE3, "        by_primary = {_locale_delim_re.split(item, 1)[0]: item for item in matches}\n        result = super().best_match(list(by_primary))\n"), (A, _MAPBACK, "            return by_primary[result]")]},
    {"name": "language-fallback-object-is-language-accept", "expect": "R17.2", "edits": [(A, "        fallback = Accept(\n            [(_locale_delim_re", "        fallback = LanguageAccept(\n            [(_locale_delim_re")]},
    {"name": "charset-helper-compares-raw-range", "expect": "R17.4", "edits": [(A, _CHARSET_VM, '        return item == "*" or _same_charset(value, item)'), (A, "class CharsetAccept(Accept):", "def _same_charset(a, b):\n    return _normalize(a) == b\n\n\nclass CharsetAccept(Accept):")]},
    {"name": "base-match-result-variable-loses-wildcard", "expect": "R17.4", "edits": [(A, _BASE_VM, '        matched = False\n        if item.lower() == value.lower():\n            matched = True\n        return matched')]},
    {"name": "mime-helper-early-returns-lose-subtype-wildcard", "expect": "R17.4", "edits": [
        (A, "        return (\n            (item_type == \"*\" and item_subtype == \"*\")\n            or (value_type == \"*\" and value_subtype == \"*\")\n        ) or (\n            item_type == value_type\n            and (\n                item_subtype == \"*\"\n                or value_subtype == \"*\"\n                or (item_subtype == value_subtype and item_params == value_params)\n            )\n        )",
         "        if item_type == \"*\" or value_type == \"*\":\n            return True\n        if item_type != value_type:\n            return False\n        if value_subtype == \"*\":\n            return True\n        return item_subtype == value_subtype and item_params == value_params")]},
    {"name": "mime-specificity-loop-inverted", "expect": "R17.3", "edits": [(A, _MIME_SPEC, '        out = []\n        for part in _mime_split_re.split(value):\n            out.append(part == "*")\n        return tuple(out)')]},
]
