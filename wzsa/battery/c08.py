"""self-validation battery for C08."""
M = "datastructures/mixins.py"
S = "datastructures/structures.py"
H = "datastructures/headers.py"
MUTANTS = [
    {"name": "list-mixin-loses-append", "expect": "R8.1", "edits": [(M, "    def append(self, item: t.Any) -> t.NoReturn:\n        _immutable_error(self)\n\n", "")]},
    {"name": "dict-mixin-loses-ior", "expect": "R8.1", "edits": [(M, "    def __ior__(self, other: t.Any) -> t.NoReturn:\n        _immutable_error(self)\n\n    def pop(self, key: t.Any, default: t.Any = None) -> t.NoReturn:", "    def pop(self, key: t.Any, default: t.Any = None) -> t.NoReturn:")]},
    {"name": "new-multidict-mutator-unblocked", "expect": "R8.1", "edits": [(S, "    def setlist(self, key: K, new_list: cabc.Iterable[V]) -> None:\n        \"\"\"Remove the old values for a key and add new ones.", "    def extendlist(self, key: K, values: cabc.Iterable[V]) -> None:\n        super().setdefault(key, []).extend(values)  # type: ignore[arg-type]\n\n    def setlist(self, key: K, new_list: cabc.Iterable[V]) -> None:\n        \"\"\"Remove the old values for a key and add new ones.")]},
    {"name": "immutable-multidict-base-order", "expect": "R8.1", "edits": [(S, "class ImmutableMultiDict(ImmutableMultiDictMixin[K, V], MultiDict[K, V]):", "class ImmutableMultiDict(MultiDict[K, V], ImmutableMultiDictMixin[K, V]):")]},
    {"name": "rejector-returns", "expect": "R8.1", "edits": [(M, "    def popitemlist(self) -> t.NoReturn:\n        _immutable_error(self)", "    def popitemlist(self) -> t.Any:\n        return None")]},
    {"name": "headers-set-raw-key", "expect": "R8.2", "edits": [(H, "[t for t in iter_list if t[0].lower() != ikey]", "[t for t in iter_list if t[0].lower() != key]")]},
    {"name": "headerset-find-raw", "expect": "R8.2", "edits": [(S, "        header = header.lower()\n        for idx, item in enumerate(self._headers):", "        for idx, item in enumerate(self._headers):")]},
    {"name": "headerset-clear-list-only", "expect": "R8.3", "edits": [(S, "        self._set.clear()\n        self._headers.clear()", "        self._headers.clear()")]},
    {"name": "headerset-setitem-raw-member", "expect": "R8.3", "edits": [(S, "        self._set.add(value.lower())", "        self._set.add(value)")]},
    {"name": "copy-shares-lists", "expect": "R8.4", "edits": [(S, "super().__init__((k, vs[:]) for k, vs in mapping.lists())", "super().__init__((k, vs) for k, vs in mapping.lists())")]},
    {"name": "getlist-returns-internal", "expect": "R8.4", "edits": [(S, "        if type is None:\n            return list(rv)\n        result = []\n        for item in rv:\n            try:\n                result.append(type(item))", "        if type is None:\n            return rv\n        result = []\n        for item in rv:\n            try:\n                result.append(type(item))")]},
    {"name": "lists-yields-internal", "expect": "R8.4", "edits": [(S, "            yield key, list(values)\n\n    def values(self)", "            yield key, values\n\n    def values(self)")]},
    {"name": "environ-headers-cache", "expect": "R8.5", "edits": [(H, "    def __len__(self) -> int:\n        return sum(1 for _ in self)", "    def __len__(self) -> int:\n        self._len = sum(1 for _ in self)\n        return self._len")]},
    {"name": "hash-enumerates", "expect": "R8.6", "edits": [(M, "    def _iter_hashitems(self) -> t.Iterable[t.Any]:\n        return self.items(multi=True)  # type: ignore[attr-defined,no-any-return]", "    def _iter_hashitems(self) -> t.Iterable[t.Any]:\n        return enumerate(self.items(multi=True))  # type: ignore[attr-defined]")]},
]
TWINS = [
    {"name": "new-mutator-through-add", "edits": [(S, "    def setlist(self, key: K, new_list: cabc.Iterable[V]) -> None:\n        \"\"\"Remove the old values for a key and add new ones.", "    def addmany(self, key: K, values: cabc.Iterable[V]) -> None:\n        for v in values:\n            self.add(key, v)\n\n    def setlist(self, key: K, new_list: cabc.Iterable[V]) -> None:\n        \"\"\"Remove the old values for a key and add new ones.")]},
    {"name": "headers-get-key-renamed-local", "edits": [(H, "        ikey = key.lower()\n\n        for k, v in self._list:\n            if k.lower() == ikey:\n                return v", "        wanted = key.lower()\n\n        for k, v in self._list:\n            if wanted == k.lower():\n                return v")]},
    {"name": "copy-with-list-call", "edits": [(S, "super().__init__((k, vs[:]) for k, vs in mapping.lists())", "super().__init__((k, list(vs)) for k, vs in mapping.lists())")]},
]

# ---------------------------------------------------------------------------------------------------------------------
# round 2: further behaviour-preserving shapes the rules accept (decided on the inlined call graph), and for each of
# them a defect planted in that shape (``_derive``: the twin's edits with one fragment of the new text replaced)

ROUND2_TWINS = [
    {"name": "headers-get-key-tuple-assignment-helper-compare", "edits": [
        (H, "        ikey = key.lower()\n\n        for k, v in self._list:\n            if k.lower() == ikey:\n                return v\n\n        raise BadRequestKeyError(key)", "        wanted, missing = key.lower(), BadRequestKeyError(key)\n\n        for k, v in self._list:\n            if self._same(k, wanted):\n                return v\n\n        raise missing\n\n    @staticmethod\n    def _same(name: str, folded: str) -> bool:\n        return name.lower() == folded"),
    ]},
    {"name": "headers-del-key-comprehension-conditional-lower", "edits": [
        (H, "        key = key.lower()\n        new = []\n\n        for k, v in self._list:\n            if k.lower() != key:\n                new.append((k, v))\n\n        self._list[:] = new", "        folded = key.lower() if key else \"\"\n        self._list[:] = [item for item in self._list if item[0].lower() != folded]"),
    ]},
    {"name": "headerset-find-next-generator-remove-split-helpers", "edits": [
        (S, "        header = header.lower()\n        for idx, item in enumerate(self._headers):\n            if item.lower() == header:\n                return idx\n        return -1", "        wanted = header.lower()\n        return next((i for i, item in enumerate(self._headers) if item.lower() == wanted), -1)"),
        (S, "        self._set.remove(key)\n        for idx, item in enumerate(self._headers):\n            if item.lower() == key:\n                del self._headers[idx]\n                break\n        if self.on_update is not None:\n            self.on_update(self)", "        self._forget(key)\n        self._unlist(key)\n        if self.on_update is not None:\n            self.on_update(self)\n\n    def _forget(self, folded: str) -> None:\n        self._set.remove(folded)\n\n    def _unlist(self, folded: str) -> None:\n        for idx, item in enumerate(self._headers):\n            if item.lower() == folded:\n                del self._headers[idx]\n                break"),
    ]},
    {"name": "multidict-init-renamed-local-star-copy-getlist-copy", "edits": [
        (S, "            tmp = {}\n            for key, value in mapping.items():\n                if isinstance(value, (list, tuple, set)):\n                    value = list(value)\n\n                    if not value:\n                        continue\n                else:\n                    value = [value]\n                tmp[key] = value\n            super().__init__(tmp)  # type: ignore[arg-type]", "            data = {}\n            for key, value in mapping.items():\n                values = [*value] if isinstance(value, (list, tuple, set)) else [value]\n                if values:\n                    data[key] = values\n            super().__init__(data)  # type: ignore[arg-type]"),
        (S, "        if type is None:\n            return list(rv)\n        result = []\n        for item in rv:\n            try:\n                result.append(type(item))", "        if type is None:\n            return rv.copy()\n        result = []\n        for item in rv:\n            try:\n                result.append(type(item))"),
    ]},
    {"name": "multidict-copy-through-local-class-setlist-local", "edits": [
        (S, "        return self.__class__(self)\n\n    def deepcopy", "        cls = type(self)\n        return cls(self)\n\n    def deepcopy"),
        (S, "        super().__setitem__(key, list(new_list))  # type: ignore[assignment]", "        own = list(new_list)\n        super().__setitem__(key, own)  # type: ignore[assignment]"),
    ]},
    {"name": "environ-headers-len-via-list-getitem-direct", "edits": [
        (H, "    def __len__(self) -> int:\n        return sum(1 for _ in self)", "    def __len__(self) -> int:\n        return len(list(iter(self)))"),
        (H, "        return self.environ is other.environ\n", "        mine = self.environ\n        return mine is other.environ\n"),
    ]},
    {"name": "hash-read-cache-once-compute-if-none", "edits": [
        (M, "        if self._hash_cache is not None:\n            return self._hash_cache\n        rv = self._hash_cache = hash(frozenset(self._iter_hashitems()))\n        return rv", "        rv = self._hash_cache\n        if rv is None:\n            material = frozenset(self._iter_hashitems())\n            rv = self._hash_cache = hash(material)\n        return rv"),
    ]},
    {"name": "headerset-setitem-lowered-locals", "edits": [
        (S, "        old = self._headers[idx]\n        self._set.remove(old.lower())\n        self._headers[idx] = value\n        self._set.add(value.lower())", "        old_key, new_key = self._headers[idx].lower(), value.lower()\n        self._set.remove(old_key)\n        self._headers[idx] = value\n        self._set.add(new_key)"),
    ]},
]


def _derive(twin_name, repl):
    tw = next(t for t in ROUND2_TWINS if t["name"] == twin_name)
    out = []
    hit = 0
    for rel, old, new in tw["edits"]:
        for a, b in repl:
            if a in new:
                assert new.count(a) == 1, (twin_name, a)
                new = new.replace(a, b)
                hit += 1
        out.append((rel, old, new))
    assert hit == len(repl), (twin_name, hit)
    return out


ROUND2_MUTANTS = [
    {"name": "shape:tuple-assigned-key-raw", "expect": "R8.2", "edits": _derive("headers-get-key-tuple-assignment-helper-compare", [("wanted, missing = key.lower(), BadRequestKeyError(key)", "wanted, missing = key, BadRequestKeyError(key)")])},
    {"name": "shape:compare-helper-raw-side", "expect": "R8.2", "edits": _derive("headers-get-key-tuple-assignment-helper-compare", [("        return name.lower() == folded", "        return name == folded")])},
    {"name": "shape:conditional-lower-one-arm-raw", "expect": "R8.2", "edits": _derive("headers-del-key-comprehension-conditional-lower", [("key.lower() if key else \"\"", "key.lower() if key.islower() else key")])},
    {"name": "shape:next-generator-raw", "expect": "R8.2", "edits": _derive("headerset-find-next-generator-remove-split-helpers", [("        wanted = header.lower()\n        return next(", "        wanted = header\n        return next(")])},
    {"name": "shape:split-helper-forgets-list", "expect": "R8.3", "edits": _derive("headerset-find-next-generator-remove-split-helpers", [("        self._forget(key)\n        self._unlist(key)\n", "        self._forget(key)\n")])},
    {"name": "shape:renamed-local-shares-list", "expect": "R8.4", "edits": _derive("multidict-init-renamed-local-star-copy-getlist-copy", [("values = [*value] if isinstance(value, (list, tuple, set)) else [value]", "values = value if isinstance(value, list) else [value]")])},
    {"name": "shape:getlist-copy-dropped", "expect": "R8.4", "edits": _derive("multidict-init-renamed-local-star-copy-getlist-copy", [("            return rv.copy()", "            return rv")])},
    {"name": "shape:setlist-local-not-copied", "expect": "R8.4", "edits": _derive("multidict-copy-through-local-class-setlist-local", [("        own = list(new_list)", "        own = new_list")])},
    {"name": "shape:copy-returns-self", "expect": "R8.4", "edits": _derive("multidict-copy-through-local-class-setlist-local", [("        return cls(self)", "        return self if cls is MultiDict else cls(self)")])},
    {"name": "shape:environ-len-cached", "expect": "R8.5", "edits": _derive("environ-headers-len-via-list-getitem-direct", [("        return len(list(iter(self)))", "        self._n = len(list(iter(self)))\n        return self._n")])},
    {"name": "shape:hash-material-a-tuple", "expect": "R8.6", "edits": _derive("hash-read-cache-once-compute-if-none", [("material = frozenset(self._iter_hashitems())", "material = tuple(self._iter_hashitems())")])},
    {"name": "shape:setitem-lowered-local-raw", "expect": "R8.3", "edits": _derive("headerset-setitem-lowered-locals", [("self._headers[idx].lower(), value.lower()", "self._headers[idx].lower(), value")])},
]
ROUND2_TWINS.append({"name": "list-mixin-rejects-through-private-helper", "edits": [
    (M, "    def append(self, item: t.Any) -> t.NoReturn:\n        _immutable_error(self)\n\n", "    def _reject(self) -> t.NoReturn:\n        _immutable_error(self)\n\n    def append(self, item: t.Any) -> t.NoReturn:\n        self._reject()\n\n"),
]})
ROUND2_MUTANTS.append({"name": "shape:reject-helper-returns", "expect": "R8.1", "edits": _derive("list-mixin-rejects-through-private-helper", [("    def _reject(self) -> t.NoReturn:\n        _immutable_error(self)", "    def _reject(self) -> None:\n        return None")])})
ROUND2_TWINS.append({"name": 'remove-via-find', "edits": [(S, '        key = header.lower()\n        if key not in self._set:\n            raise KeyError(header)\n        self._set.remove(key)\n        for idx, item in enumerate(self._headers):\n            if item.lower() == key:\n                del self._headers[idx]\n                break\n        if self.on_update is not None:', '        idx = self.find(header)\n        if idx < 0:\n            raise KeyError(header)\n        del self._headers[idx]\n        self._set.remove(header.lower())\n        if self.on_update is not None:')]})
ROUND2_TWINS.append({"name": 'init-set-map-lower', "edits": [(S, '        self._set = {x.lower() for x in self._headers}', '        self._set = set(map(str.lower, self._headers))')]})
ROUND2_TWINS.append({"name": 'clear-rebinding', "edits": [(S, '        self._set.clear()\n        self._headers.clear()\n', '        self._set = set()\n        self._headers = []\n')]})
TWINS = TWINS + ROUND2_TWINS
MUTANTS = MUTANTS + ROUND2_MUTANTS

# ---------------------------------------------------------------------------------------------------------------------
# round 3 (R8.7): read-through of the combined multi dict.  Class of defects: a read stops consulting the wrapped
# dicts while some are unvisited and answers what it answers after a complete scan (default / KeyError / False / the
# accumulated result), in different spellings; and neutral restructurings of the same scans.

_GET_TAIL = "                    except (ValueError, TypeError):\n                        continue\n                return d[key]\n        return default"
_GET_LOOP = (
    "        for d in self.dicts:\n            if key in d:\n                if type is not None:\n                    try:\n"
    "                        return type(d[key])\n                    except (ValueError, TypeError):\n                        continue\n"
    "                return d[key]\n        return default"
)
_GETITEM = "        for d in self.dicts:\n            if key in d:\n                return d[key]\n        raise exceptions.BadRequestKeyError(key)"
_CONTAINS = "        for d in self.dicts:\n            if key in d:\n                return True\n        return False"

ROUND3_TWINS = [
    {"name": "combined-get-lookup-once", "edits": [(S, _GET_LOOP,
        "        for d in self.dicts:\n            if key in d:\n                rv = d[key]\n\n                if type is None:\n                    return rv\n\n"
        "                try:\n                    return type(rv)\n                except (ValueError, TypeError):\n                    continue\n        return default")]},
    {"name": "combined-contains-found-flag-break", "edits": [(S, _CONTAINS,
        "        found = False\n        for d in self.dicts:\n            if key in d:\n                found = True\n                break\n        return found")]},
    {"name": "combined-getitem-through-private-helper", "edits": [(S, _GETITEM,
        "        holder = self._first_with(key)\n        if holder is None:\n            raise exceptions.BadRequestKeyError(key)\n        return holder[key]\n\n"
        "    def _first_with(self, key: K) -> MultiDict[K, V] | None:\n        for d in self.dicts:\n            if key in d:\n                return d\n        return None")]},
    {"name": "combined-getitem-via-get-sentinel", "edits": [(S, _GETITEM,
        "        rv = self.get(key, _missing)\n        if rv is _missing:\n            raise exceptions.BadRequestKeyError(key)\n        return rv  # type: ignore[return-value]")]},
    {"name": "combined-get-result-local-break-else", "edits": [(S, _GET_LOOP,
        "        rv = default\n        for wrapped in self.dicts:\n            if key not in wrapped:\n                continue\n            if type is None:\n                rv = wrapped[key]\n                break\n"
        "            try:\n                rv = type(wrapped[key])\n            except (ValueError, TypeError):\n                pass\n            else:\n                break\n        return rv")]},
    {"name": "combined-getlist-alias-enumerate-getitem-guarded", "edits": [
        (S, "        rv = []\n        for d in self.dicts:\n            rv.extend(d.getlist(key, type))  # type: ignore[arg-type]\n        return rv",
            "        wrapped = self.dicts\n        rv = []\n        for _i, d in enumerate(wrapped):\n            rv += d.getlist(key, type)  # type: ignore[arg-type]\n        return rv"),
        (S, _GETITEM, "        if key not in self:\n            raise exceptions.BadRequestKeyError(key)\n        for d in self.dicts:\n            if key in d:\n                return d[key]\n        raise exceptions.BadRequestKeyError(key)"),
    ]},
    {"name": "combined-scans-copy-slice-module-helper", "edits": [
        (S, _CONTAINS, "        for d in self.dicts[:]:\n            if key in d:\n                return True\n        return False"),
        (S, _GETITEM, "        holder = _first_holding(list(self.dicts), key)\n        if holder is not None:\n            return holder[key]  # type: ignore[no-any-return]\n        raise exceptions.BadRequestKeyError(key)"),
        (S, "class CombinedMultiDict(ImmutableMultiDictMixin[K, V], MultiDict[K, V]):  # type: ignore[misc]\n", "def _first_holding(wrapped: t.Any, key: t.Any) -> t.Any:\n    for candidate in wrapped:\n        if key in candidate:\n            return candidate\n    return None\n\n\nclass CombinedMultiDict(ImmutableMultiDictMixin[K, V], MultiDict[K, V]):  # type: ignore[misc]\n"),
    ]},
    {"name": "combined-getitem-try-each-getlist-comprehension", "edits": [
        (S, _GETITEM, "        for d in self.dicts:\n            try:\n                return d[key]\n            except KeyError:\n                continue\n        raise exceptions.BadRequestKeyError(key)"),
        (S, "        rv = []\n        for d in self.dicts:\n            rv.extend(d.getlist(key, type))  # type: ignore[arg-type]\n        return rv", "        return [v for d in self.dicts for v in d.getlist(key, type)]  # type: ignore[arg-type]"),
    ]},
    {"name": "combined-contains-any-keys-direct", "edits": [
        (S, _CONTAINS, "        return any(key in d for d in self.dicts)"),
        (S, "    def keys(self) -> cabc.Iterable[K]:  # type: ignore[override]\n        return self._keys_impl()", "    def keys(self) -> cabc.Iterable[K]:  # type: ignore[override]\n        return {k for d in self.dicts for k in d}"),
    ]},
]

ROUND3_MUTANTS = [
    {"name": "combined-get-failed-conversion-breaks", "expect": "R8.7", "edits": [(S, _GET_TAIL, _GET_TAIL.replace("continue", "break"))]},
    {"name": "combined-get-failed-conversion-returns-default", "expect": "R8.7", "edits": [(S, _GET_TAIL, _GET_TAIL.replace("continue", "return default"))]},
    {"name": "combined-get-falls-back-to-single-dict-get", "expect": "R8.7", "edits": [(S, _GET_LOOP, "        return super().get(key, default, type)  # type: ignore[arg-type]")]},
    {"name": "combined-getitem-raises-at-first-miss", "expect": "R8.7", "edits": [(S, _GETITEM,
        "        for d in self.dicts:\n            if key in d:\n                return d[key]\n            raise exceptions.BadRequestKeyError(key)\n        raise exceptions.BadRequestKeyError(key)")]},
    {"name": "combined-contains-answers-from-first-dict", "expect": "R8.7", "edits": [(S, _CONTAINS, "        for d in self.dicts:\n            return key in d\n        return False")]},
    {"name": "combined-getlist-stops-at-first-hit", "expect": "R8.7", "edits": [(S,
        "            rv.extend(d.getlist(key, type))  # type: ignore[arg-type]\n        return rv",
        "            rv.extend(d.getlist(key, type))  # type: ignore[arg-type]\n            if rv:\n                break\n        return rv")]},
    {"name": "combined-lists-first-dict-only", "expect": "R8.7", "edits": [(S,
        "                rv.setdefault(key, []).extend(values)\n        return rv.items()",
        "                rv.setdefault(key, []).extend(values)\n            break\n        return rv.items()")]},
    {"name": "combined-items-generator-returns-after-first", "expect": "R8.7", "edits": [(S,
        "                elif key not in found:\n                    found.add(key)\n                    yield key, value\n",
        "                elif key not in found:\n                    found.add(key)\n                    yield key, value\n            return\n")]},
    {"name": "combined-contains-scans-a-slice", "expect": "R8.7", "edits": [(S, _CONTAINS, _CONTAINS.replace("in self.dicts:", "in self.dicts[:1]:"))]},
    {"name": "combined-getlist-scans-reversed", "expect": "R8.7", "edits": [(S, "        rv = []\n        for d in self.dicts:\n            rv.extend(", "        rv = []\n        for d in reversed(self.dicts):\n            rv.extend(")]},
    {"name": "combined-values-override-lost", "expect": "R8.7", "edits": [(S,
        "    def values(self) -> cabc.Iterable[V]:  # type: ignore[override]\n        for _, value in self.items():\n            yield value\n\n    def lists(self) -> cabc.Iterable[tuple[K, list[V]]]:\n        rv: dict[K, list[V]] = {}",
        "    def lists(self) -> cabc.Iterable[tuple[K, list[V]]]:\n        rv: dict[K, list[V]] = {}")]},
    {"name": "shape:lookup-once-failed-conversion-breaks", "expect": "R8.7", "edits": None},
    {"name": "shape:found-flag-set-from-first-dict", "expect": "R8.7", "edits": None},
    {"name": "shape:helper-gives-up-at-first-miss", "expect": "R8.7", "edits": None},
    {"name": "shape:result-local-failed-conversion-breaks", "expect": "R8.7", "edits": None},
    {"name": "shape:grown-result-starts-as-shared-list", "expect": "R8.4", "edits": None},
    {"name": "shape:module-helper-gives-up-at-first-miss", "expect": "R8.7", "edits": None},
    {"name": "shape:try-each-stops-at-first-keyerror", "expect": "R8.7", "edits": None},
]


def _derive3(twin_name, repl):
    tw = next(t for t in ROUND3_TWINS if t["name"] == twin_name)
    out = []
    hit = 0
    for rel, old, new in tw["edits"]:
        for a, b in repl:
            if a in new:
                assert new.count(a) == 1, (twin_name, a)
                new = new.replace(a, b)
                hit += 1
        out.append((rel, old, new))
    assert hit == len(repl), (twin_name, hit)
    return out


_SHAPES3 = {
    "shape:lookup-once-failed-conversion-breaks": ("combined-get-lookup-once", [("                    continue\n", "                    break\n")]),
    "shape:found-flag-set-from-first-dict": ("combined-contains-found-flag-break", [("            if key in d:\n                found = True\n                break\n", "            found = key in d\n            break\n")]),
    "shape:helper-gives-up-at-first-miss": ("combined-getitem-through-private-helper", [("            if key in d:\n                return d\n        return None", "            if key in d:\n                return d\n            return None\n        return None")]),
    "shape:module-helper-gives-up-at-first-miss": ("combined-scans-copy-slice-module-helper", [("        if key in candidate:\n            return candidate\n    return None", "        if key in candidate:\n            return candidate\n        break\n    return None")]),
    "shape:try-each-stops-at-first-keyerror": ("combined-getitem-try-each-getlist-comprehension", [("            except KeyError:\n                continue\n", "            except KeyError:\n                break\n")]),
    "shape:grown-result-starts-as-shared-list": ("combined-getlist-alias-enumerate-getitem-guarded", [("        wrapped = self.dicts\n        rv = []\n", "        wrapped = self.dicts\n        rv = wrapped\n")]),
    "shape:result-local-failed-conversion-breaks": ("combined-get-result-local-break-else", [("                pass\n            else:\n                break\n", "                break\n            else:\n                break\n")]),
}
for _m in ROUND3_MUTANTS:
    if _m["edits"] is None:
        _m["edits"] = _derive3(*_SHAPES3[_m["name"]])
TWINS = TWINS + ROUND3_TWINS
MUTANTS = MUTANTS + ROUND3_MUTANTS
