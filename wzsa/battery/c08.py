"""self-validation battery for C08."""
M = "datastructures/mixins.py"
S = "datastructures/structures.py"
H = "datastructures/headers.py"
MUTANTS = [
    {"name": "list-mixin-loses-append", "expect": "R8.1", "edits": [(M, "    def append(self, item: t.Any) -> t.NoReturn:\n        _immutable_error(self)\n\n", "")]},
    {"name": "dict-mixin-loses-ior", "expect": "R8.1", "edits": [(M, "    def __ior__(self, other: t.Any) -> t.NoReturn:\n        _immutable_error(self)\n\n    def pop(self, key: t.Any, default: t.Any = None) -> t.NoReturn:", "    def pop(self, key: t.Any, default: t.Any = None) -> t.NoReturn:")]},
    {"name": "new-multidict-mutator-unblocked", "expect": "R8.1", "edits": [(S, "    def setlist(self, key: K, new_list: cabc.Iterable[V]) -> None:\n        \"\"\"Remove the old values for a key and add new ones.", "    def extendlist(self, key: K, values: cabc.Iterable[V]) -> None:\n        super().setdefault(key, []).extend(values)  # type: ignore[arg-type]\n\n    def setlist(self, key: K, new_list: cabc.Iterable[V]) -> None:\n        \"\"\"Remove the old values for a key and add new ones.")]},
    {"name": "immutable-multidict-base-order", "expect": "R8.1", "edits": [(S, "class ImmutableMultiDict(ImmutableMultiDictMixin[K, V], MultiDict[K, V]):", "class ImmutableMultiDict(MultiDict[K, V], ImmutableMultiDictMixin[K, V]):")]},
    {"name": "rejector-returns", "expect": "R8.1", "edits": [(M, "    def popitemlist(self) -> t.NoReturn:\n        _immutable_error(self)", "    def popitemlist(self) -> t.Any:\n        return None")]},
    {"name": "headers-set-raw-key", "expect": "R8.2", "edits": [(H, "[t for t in iter_list if t[0].lower() != ikey]", "[t for t in iter_list if t[0].lower() != key]")]},
    {"name": "headerset-find-raw", "expect": "R8.2", "edits": [(S, "        header = header.lower()\n        for idx, item in enumerate(self._headers):", "        for idx, item in enumerate(self._headers):")]},
    {"name": "headerset-clear-list-only", "expect": "R8.3", "edits": [(S, "        self._set.clear()\n        self._headers.clear()", "        self._headers.clear()")]},
    {"name": "headerset-setitem-raw-member", "expect": "R8.3", "edits": [(S, "        self._set.add(value.lower())", "        self._set.add(value)")]},
    {"name": "copy-shares-lists", "expect": "R8.4", "edits": [(S, "super().__init__((k, vs[:]) for k, vs in mapping.lists())", "super().__init__((k, vs) for k, vs in mapping.lists())")]},
    {"name": "getlist-returns-internal", "expect": "R8.4", "edits": [(S, "        if type is None:\n            return list(rv)\n        result = []\n        for item in rv:\n            try:\n                result.append(type(item))", "        if type is None:\n            return rv\n        result = []\n        for item in rv:\n            try:\n                result.append(type(item))")]},
    {"name": "lists-yields-internal", "expect": "R8.4", "edits": [(S, "            yield key, list(values)\n\n    def values(self)", "            yield key, values\n\n    def values(self)")]},
    {"name": "environ-headers-cache", "expect": "R8.5", "edits": [(H, "    def __len__(self) -> int:\n        return sum(1 for _ in self)", "    def __len__(self) -> int:\n        self._len = sum(1 for _ in self)\n        return self._len")]},
    {"name": "hash-enumerates", "expect": "R8.6", "edits": [(M, "    def _iter_hashitems(self) -> t.Iterable[t.Any]:\n        return self.items(multi=True)  # type: ignore[attr-defined,no-any-return]", "    def _iter_hashitems(self) -> t.Iterable[t.Any]:\n        return enumerate(self.items(multi=True))  # type: ignore[attr-defined]")]},
]
TWINS = [
    {"name": "new-mutator-through-add", "edits": [(S, "    def setlist(self, key: K, new_list: cabc.Iterable[V]) -> None:\n        \"\"\"Remove the old values for a key and add new ones.", "    def addmany(self, key: K, values: cabc.Iterable[V]) -> None:\n        for v in values:\n            self.add(key, v)\n\n    def setlist(self, key: K, new_list: cabc.Iterable[V]) -> None:\n        \"\"\"Remove the old values for a key and add new ones.")]},
    {"name": "headers-get-key-renamed-local", "edits": [(H, "        ikey = key.lower()\n\n        for k, v in self._list:\n            if k.lower() == ikey:\n                return v", "        wanted = key.lower()\n\n        for k, v in self._list:\n            if wanted == k.lower():\n                return v")]},
    {"name": "copy-with-list-call", "edits": [(S, "super().__init__((k, vs[:]) for k, vs in mapping.lists())", "super().__init__((k, list(vs)) for k, vs in mapping.lists())")]},
]
