"""self-validation battery for C08."""
M = "datastructures/mixins.py"
S = "datastructures/structures.py"
H = "datastructures/headers.py"
MUTANTS = [
    {"name": "list-mixin-loses-append", "expect": "R8.1", "edits": [(M, "    def append(self, item: t.Any) -> t.NoReturn:\n        _immutable_error(self)\n\n", "")]},
    {"name": "dict-mixin-loses-ior", "expect": "R8.1", "edits": [(M, "    def __ior__(self, other: t.Any) -> t.NoReturn:\n        _immutable_error(self)\n\n    def pop(self, key: t.Any, default: t.Any = None) -> t.NoReturn:", "    def pop(self, key: t.Any, default: t.Any = None) -> t.NoReturn:")]},
    {"name": "new-multidict-mutator-unblocked", "expect": "R8.1", "edits": [(S, "    def setlist(self, key: K, new_list: cabc.Iterable[V]) -> None:\n        \"\"\"Remove the old values for a key and add new ones.", "    def extendlist(self, key: K, values: cabc.Iterable[V]) -> None:\n        super().setdefault(key, []).extend(values)  # type: ignore[arg-type]\n\n    def setlist(self, key: K, new_list: cabc.Iterable[V]) -> None:\n        \"\"\"Remove the old values for a key and add new ones.")]},
    {"name": "immutable-multidict-base-order", "expect": "R8.1", "edits": [(S, "class ImmutableMultiDict(ImmutableMultiDictMixin[K, V], MultiDict[K, V]):", "class ImmutableMultiDict(MultiDict[K, V], ImmutableMultiDictMixin[K, V]):")]},
    {"name": "rejector-returns", "expect": "R8.1", "edits": [(M, "    def popitemlist(self) -> t.NoReturn:\n        _immutable_error(self)", "    def popitemlist(self) -> t.Any:\n        return None")]},
    {"name": "headers-set-raw-key", "expect": "R8.2", "edits": [(H, "[t for t in iter_list if t[0].lower() != ikey]", "[t for t in iter_list if t[0].lower() != key]")]},
    {"name": "headerset-find-raw", "expect": "R8.2", "edits": [(S, "        header = header.lower()\n        for idx, item in enumerate(self._headers):", "        for idx, item in enumerate(self._headers):")]},
    {"name": "headerset-clear-list-only", "expect": "R8.3", "edits": [(S, "        self._set.clear()\n        self._headers.clear()", "        self._headers.clear()")]},
    {"name": "headerset-setitem-raw-member", "expect": "R8.3", "edits": [(S, "        self._set.add(value.lower())", "        self._set.add(value)")]},
    {"name": "copy-shares-lists", "expect": "R8.4", "edits": [(S, "super().__init__((k, vs[:]) for k, vs in mapping.lists())", "super().__init__((k, vs) for k, vs in mapping.lists())")]},
    {"name": "getlist-returns-internal", "expect": "R8.4", "edits": [(S, "        if type is None:\n            return list(rv)\n        result = []\n        for item in rv:\n            try:\n                result.append(type(item))", "        if type is None:\n            return rv\n        result = []\n        for item in rv:\n            try:\n                result.append(type(item))")]},
    {"name": "lists-yields-internal", "expect": "R8.4", "edits": [(S, "            yield key, list(values)\n\n    def values(self)", "            yield key, values\n\n    def values(self)")]},
    {"name": "environ-headers-cache", "expect": "R8.5", "edits": [(H, "    def __len__(self) -> int:\n        return sum(1 for _ in self)", "    def __len__(self) -> int:\n        self._len = sum(1 for _ in self)\n        return self._len")]},
    {"name": "hash-enumerates", "expect": "R8.6", "edits": [(M, "    def _iter_hashitems(self) -> t.Iterable[t.Any]:\n        return self.items(multi=True)  # type: ignore[attr-defined,no-any-return]", "    def _iter_hashitems(self) -> t.Iterable[t.Any]:\n        return enumerate(self.items(multi=True))  # type: ignore[attr-defined]")]},
]
TWINS = [
    {"name": "new-mutator-through-add", "edits": [(S, "    def setlist(self, key: K, new_list: cabc.Iterable[V]) -> None:\n        \"\"\"Remove the old values for a key and add new ones.", "    def addmany(self, key: K, values: cabc.Iterable[V]) -> None:\n        for v in values:\n            self.add(key, v)\n\n    def setlist(self, key: K, new_list: cabc.Iterable[V]) -> None:\n        \"\"\"Remove the old values for a key and add new ones.")]},
    {"name": "headers-get-key-renamed-local", "edits": [(H, "        ikey = key.lower()\n\n        for k, v in self._list:\n            if k.lower() == ikey:\n                return v", "        wanted = key.lower()\n\n        for k, v in self._list:\n            if wanted == k.lower():\n                return v")]},
    {"name": "copy-with-list-call", "edits": [(S, "super().__init__((k, vs[:]) for k, vs in mapping.lists())", "super().__init__((k, list(vs)) for k, vs in mapping.lists())")]},
]

# ---------------------------------------------------------------------------------------------------------------------
# round 2: further behaviour-preserving shapes the rules accept (decided on the inlined call graph), and for each of
# them a defect planted in that shape (``_derive``: the twin's edits with one fragment of the new text replaced)

ROUND2_TWINS = [
    {"name": "headers-get-key-tuple-assignment-helper-compare", "edits": [
        (H, "        ikey = key.lower()\n\n        for k, v in self._list:\n            if k.lower() == ikey:\n                return v\n\n        raise BadRequestKeyError(key)", "        wanted, missing = key.lower(), BadRequestKeyError(key)\n\n        for k, v in self._list:\n            if self._same(k, wanted):\n                return v\n\n        raise missing\n\n    @staticmethod\n    def _same(name: str, folded: str) -> bool:\n        return name.lower() == folded"),
    ]},
    {"name": "headers-del-key-comprehension-conditional-lower", "edits": [
        (H, "        key = key.lower()\n        new = []\n\n        for k, v in self._list:\n            if k.lower() != key:\n                new.append((k, v))\n\n        self._list[:] = new", "        folded = key.lower() if key else \"\"\n        self._list[:] = [item for item in self._list if item[0].lower() != folded]"),
    ]},
    {"name": "headerset-find-next-generator-remove-split-helpers", "edits": [
        (S, "        header = header.lower()\n        for idx, item in enumerate(self._headers):\n            if item.lower() == header:\n                return idx\n        return -1", "        wanted = header.lower()\n        return next((i for i, item in enumerate(self._headers) if item.lower() == wanted), -1)"),
        (S, "        self._set.remove(key)\n        for idx, item in enumerate(self._headers):\n            if item.lower() == key:\n                del self._headers[idx]\n                break\n        if self.on_update is not None:\n            self.on_update(self)", "        self._forget(key)\n        self._unlist(key)\n        if self.on_update is not None:\n            self.on_update(self)\n\n    def _forget(self, folded: str) -> None:\n        self._set.remove(folded)\n\n    def _unlist(self, folded: str) -> None:\n        for idx, item in enumerate(self._headers):\n            if item.lower() == folded:\n                del self._headers[idx]\n                break"),
    ]},
    {"name": "multidict-init-renamed-local-star-copy-getlist-copy", "edits": [
        (S, "            tmp = {}\n            for key, value in mapping.items():\n                if isinstance(value, (list, tuple, set)):\n                    value = list(value)\n\n                    if not value:\n                        continue\n                else:\n                    value = [value]\n                tmp[key] = value\n            super().__init__(tmp)  # type: ignore[arg-type]", "            data = {}\n            for key, value in mapping.items():\n                values = [*value] if isinstance(value, (list, tuple, set)) else [value]\n                if values:\n                    data[key] = values\n            super().__init__(data)  # type: ignore[arg-type]"),
        (S, "        if type is None:\n            return list(rv)\n        result = []\n        for item in rv:\n            try:\n                result.append(type(item))", "        if type is None:\n            return rv.copy()\n        result = []\n        for item in rv:\n            try:\n                result.append(type(item))"),
    ]},
    {"name": "multidict-copy-through-local-class-setlist-local", "edits": [
        (S, "        return self.__class__(self)\n\n    def deepcopy", "        cls = type(self)\n        return cls(self)\n\n    def deepcopy"),
        (S, "        super().__setitem__(key, list(new_list))  # type: ignore[assignment]", "        own = list(new_list)\n        super().__setitem__(key, own)  # type: ignore[assignment]"),
    ]},
    {"name": "environ-headers-len-via-list-getitem-direct", "edits": [
        (H, "    def __len__(self) -> int:\n        return sum(1 for _ in self)", "    def __len__(self) -> int:\n        return len(list(iter(self)))"),
        (H, "        return self.environ is other.environ\n", "        mine = self.environ\n        return mine is other.environ\n"),
    ]},
    {"name": "hash-read-cache-once-compute-if-none", "edits": [
        (M, "        if self._hash_cache is not None:\n            return self._hash_cache\n        rv = self._hash_cache = hash(frozenset(self._iter_hashitems()))\n        return rv", "        rv = self._hash_cache\n        if rv is None:\n            material = frozenset(self._iter_hashitems())\n            rv = self._hash_cache = hash(material)\n        return rv"),
    ]},
    {"name": "headerset-setitem-lowered-locals", "edits": [
        (S, "        old = self._headers[idx]\n        self._set.remove(old.lower())\n        self._headers[idx] = value\n        self._set.add(value.lower())", "        old_key, new_key = self._headers[idx].lower(), value.lower()\n        self._set.remove(old_key)\n        self._headers[idx] = value\n        self._set.add(new_key)"),
    ]},
]


def _derive(twin_name, repl):
    tw = next(t for t in ROUND2_TWINS if t["name"] == twin_name)
    out = []
    hit = 0
    for rel, old, new in tw["edits"]:
        for a, b in repl:
            if a in new:
                assert new.count(a) == 1, (twin_name, a)
                new = new.replace(a, b)
                hit += 1
        out.append((rel, old, new))
    assert hit == len(repl), (twin_name, hit)
    return out


ROUND2_MUTANTS = [
    {"name": "shape:tuple-assigned-key-raw", "expect": "R8.2", "edits": _derive("headers-get-key-tuple-assignment-helper-compare", [("wanted, missing = key.lower(), BadRequestKeyError(key)", "wanted, missing = key, BadRequestKeyError(key)")])},
    {"name": "shape:compare-helper-raw-side", "expect": "R8.2", "edits": _derive("headers-get-key-tuple-assignment-helper-compare", [("        return name.lower() == folded", "        return name == folded")])},
    {"name": "shape:conditional-lower-one-arm-raw", "expect": "R8.2", "edits": _derive("headers-del-key-comprehension-conditional-lower", [("key.lower() if key else \"\"", "key.lower() if key.islower() else key")])},
    {"name": "shape:next-generator-raw", "expect": "R8.2", "edits": _derive("headerset-find-next-generator-remove-split-helpers", [("        wanted = header.lower()\n        return next(", "        wanted = header\n        return next(")])},
    {"name": "shape:split-helper-forgets-list", "expect": "R8.3", "edits": _derive("headerset-find-next-generator-remove-split-helpers", [("        self._forget(key)\n        self._unlist(key)\n", "        self._forget(key)\n")])},
    {"name": "shape:renamed-local-shares-list", "expect": "R8.4", "edits": _derive("multidict-init-renamed-local-star-copy-getlist-copy", [("values = [*value] if isinstance(value, (list, tuple, set)) else [value]", "values = value if isinstance(value, list) else [value]")])},
    {"name": "shape:getlist-copy-dropped", "expect": "R8.4", "edits": _derive("multidict-init-renamed-local-star-copy-getlist-copy", [("            return rv.copy()", "            return rv")])},
    {"name": "shape:setlist-local-not-copied", "expect": "R8.4", "edits": _derive("multidict-copy-through-local-class-setlist-local", [("        own = list(new_list)", "        own = new_list")])},
    {"name": "shape:copy-returns-self", "expect": "R8.4", "edits": _derive("multidict-copy-through-local-class-setlist-local", [("        return cls(self)", "        return self if cls is MultiDict else cls(self)")])},
    {"name": "shape:environ-len-cached", "expect": "R8.5", "edits": _derive("environ-headers-len-via-list-getitem-direct", [("        return len(list(iter(self)))", "        self._n = len(list(iter(self)))\n        return self._n")])},
    {"name": "shape:hash-material-a-tuple", "expect": "R8.6", "edits": _derive("hash-read-cache-once-compute-if-none", [("material = frozenset(self._iter_hashitems())", "material = tuple(self._iter_hashitems())")])},
    {"name": "shape:setitem-lowered-local-raw", "expect": "R8.3", "edits": _derive("headerset-setitem-lowered-locals", [("self._headers[idx].lower(), value.lower()", "self._headers[idx].lower(), value")])},
]
ROUND2_TWINS.append({"name": "list-mixin-rejects-through-private-helper", "edits": [
    (M, "    def append(self, item: t.Any) -> t.NoReturn:\n        _immutable_error(self)\n\n", "    def _reject(self) -> t.NoReturn:\n        _immutable_error(self)\n\n    def append(self, item: t.Any) -> t.NoReturn:\n        self._reject()\n\n"),
]})
ROUND2_MUTANTS.append({"name": "shape:reject-helper-returns", "expect": "R8.1", "edits": _derive("list-mixin-rejects-through-private-helper", [("    def _reject(self) -> t.NoReturn:\n        _immutable_error(self)", "    def _reject(self) -> None:\n        return None")])})
ROUND2_TWINS.append({"name": 'remove-via-find', "edits": [(S, '        key = header.lower()\n        if key not in self._set:\n            raise KeyError(header)\n        self._set.remove(key)\n        for idx, item in enumerate(self._headers):\n            if item.lower() == key:\n                del self._headers[idx]\n                break\n        if self.on_update is not None:', '        idx = self.find(header)\n        if idx < 0:\n            raise KeyError(header)\n        del self._headers[idx]\n        self._set.remove(header.lower())\n        if self.on_update is not None:')]})
ROUND2_TWINS.append({"name": 'init-set-map-lower', "edits": [(S, '        self._set = {x.lower() for x in self._headers}', '        self._set = set(map(str.lower, self._headers))')]})
ROUND2_TWINS.append({"name": 'clear-rebinding', "edits": [(S, '        self._set.clear()\n        self._headers.clear()\n', '        self._set = set()\n        self._headers = []\n')]})
TWINS = TWINS + ROUND2_TWINS
MUTANTS = MUTANTS + ROUND2_MUTANTS

# ---------------------------------------------------------------------------------------------------------------------
# round 3 (R8.7): read-through of the combined multi dict.  Class of defects: a read stops consulting the wrapped
# dicts while some are unvisited and answers what it answers after a complete scan (default / KeyError / False / the
# accumulated result), in different spellings; and neutral restructurings of the same scans.

_GET_TAIL = "                    except (ValueError, TypeError):\n                        continue\n                return d[key]\n        return default"
_GET_LOOP = (
    "        for d in self.dicts:\n            if key in d:\n                if type is not None:\n                    try:\n"
    "                        return type(d[key])\n                    except (ValueError, TypeError):\n                        continue\n"
    "                return d[key]\n        return default"
)
_GETITEM = "        for d in self.dicts:\n            if key in d:\n                return d[key]\n        raise exceptions.BadRequestKeyError(key)"
_CONTAINS = "        for d in self.dicts:\n            if key in d:\n                return True\n        return False"

ROUND3_TWINS = [
    {"name": "combined-get-lookup-once", "edits": [(S, _GET_LOOP,
        "        for d in self.dicts:\n            if key in d:\n                rv = d[key]\n\n                if type is None:\n                    return rv\n\n"
        "                try:\n                    return type(rv)\n                except (ValueError, TypeError):\n                    continue\n        return default")]},
    {"name": "combined-contains-found-flag-break", "edits": [(S, _CONTAINS,
        "        found = False\n        for d in self.dicts:\n            if key in d:\n                found = True\n                break\n        return found")]},
    {"name": "combined-getitem-through-private-helper", "edits": [(S, _GETITEM,
        "        holder = self._first_with(key)\n        if holder is None:\n            raise exceptions.BadRequestKeyError(key)\n        return holder[key]\n\n"
        "    def _first_with(self, key: K) -> MultiDict[K, V] | None:\n        for d in self.dicts:\n            if key in d:\n                return d\n        return None")]},
    {"name": "combined-getitem-via-get-sentinel", "edits": [(S, _GETITEM,
        "        rv = self.get(key, _missing)\n        if rv is _missing:\n            raise exceptions.BadRequestKeyError(key)\n        return rv  # type: ignore[return-value]")]},
    {"name": "combined-get-result-local-break-else", "edits": [(S, _GET_LOOP,
        "        rv = default\n        for wrapped in self.dicts:\n            if key not in wrapped:\n                continue\n            if type is None:\n                rv = wrapped[key]\n                break\n"
        "            try:\n                rv = type(wrapped[key])\n            except (ValueError, TypeError):\n                pass\n            else:\n                break\n        return rv")]},
    {"name": "combined-getlist-alias-enumerate-getitem-guarded", "edits": [
        (S, "        rv = []\n        for d in self.dicts:\n            rv.extend(d.getlist(key, type))  # type: ignore[arg-type]\n        return rv",
            "        wrapped = self.dicts\n        rv = []\n        for _i, d in enumerate(wrapped):\n            rv += d.getlist(key, type)  # type: ignore[arg-type]\n        return rv"),
        (S, _GETITEM, "        if key not in self:\n            raise exceptions.BadRequestKeyError(key)\n        for d in self.dicts:\n            if key in d:\n                return d[key]\n        raise exceptions.BadRequestKeyError(key)"),
    ]},
    {"name": "combined-scans-copy-slice-module-helper", "edits": [
        (S, _CONTAINS, "        for d in self.dicts[:]:\n            if key in d:\n                return True\n        return False"),
        (S, _GETITEM, "        holder = _first_holding(list(self.dicts), key)\n        if holder is not None:\n            return holder[key]  # type: ignore[no-any-return]\n        raise exceptions.BadRequestKeyError(key)"),
        (S, "class CombinedMultiDict(ImmutableMultiDictMixin[K, V], MultiDict[K, V]):  # type: ignore[misc]\n", "def _first_holding(wrapped: t.Any, key: t.Any) -> t.Any:\n    for candidate in wrapped:\n        if key in candidate:\n            return candidate\n    return None\n\n\nclass CombinedMultiDict(ImmutableMultiDictMixin[K, V], MultiDict[K, V]):  # type: ignore[misc]\n"),
    ]},
    {"name": "combined-getitem-try-each-getlist-comprehension", "edits": [
        (S, _GETITEM, "        for d in self.dicts:\n            try:\n                return d[key]\n            except KeyError:\n                continue\n        raise exceptions.BadRequestKeyError(key)"),
        (S, "        rv = []\n        for d in self.dicts:\n            rv.extend(d.getlist(key, type))  # type: ignore[arg-type]\n        return rv", "        return [v for d in self.dicts for v in d.getlist(key, type)]  # type: ignore[arg-type]"),
    ]},
    {"name": "combined-contains-any-keys-direct", "edits": [
        (S, _CONTAINS, "        return any(key in d for d in self.dicts)"),
        (S, "    def keys(self) -> cabc.Iterable[K]:  # type: ignore[override]\n        return self._keys_impl()", "    def keys(self) -> cabc.Iterable[K]:  # type: ignore[override]\n        return {k for d in self.dicts for k in d}"),
    ]},
]

ROUND3_MUTANTS = [
    {"name": "combined-get-failed-conversion-breaks", "expect": "R8.7", "edits": [(S, _GET_TAIL, _GET_TAIL.replace("continue", "break"))]},
    {"name": "combined-get-failed-conversion-returns-default", "expect": "R8.7", "edits": [(S, _GET_TAIL, _GET_TAIL.replace("continue", "return default"))]},
    {"name": "combined-get-falls-back-to-single-dict-get", "expect": "R8.7", "edits": [(S, _GET_LOOP, "        return super().get(key, default, type)  # type: ignore[arg-type]")]},
    {"name": "combined-getitem-raises-at-first-miss", "expect": "R8.7", "edits": [(S, _GETITEM,
        "        for d in self.dicts:\n            if key in d:\n                return d[key]\n            raise exceptions.BadRequestKeyError(key)\n        raise exceptions.BadRequestKeyError(key)")]},
    {"name": "combined-contains-answers-from-first-dict", "expect": "R8.7", "edits": [(S, _CONTAINS, "        for d in self.dicts:\n            return key in d\n        return False")]},
    {"name": "combined-getlist-stops-at-first-hit", "expect": "R8.7", "edits": [(S,
        "            rv.extend(d.getlist(key, type))  # type: ignore[arg-type]\n        return rv",
        "            rv.extend(d.getlist(key, type))  # type: ignore[arg-type]\n            if rv:\n                break\n        return rv")]},
    {"name": "combined-lists-first-dict-only", "expect": "R8.7", "edits": [(S,
        "                rv.setdefault(key, []).extend(values)\n        return rv.items()",
        "                rv.setdefault(key, []).extend(values)\n            break\n        return rv.items()")]},
    {"name": "combined-items-generator-returns-after-first", "expect": "R8.7", "edits": [(S,
        "                elif key not in found:\n                    found.add(key)\n                    yield key, value\n",
        "                elif key not in found:\n                    found.add(key)\n                    yield key, value\n            return\n")]},
    {"name": "combined-contains-scans-a-slice", "expect": "R8.7", "edits": [(S, _CONTAINS, _CONTAINS.replace("in self.dicts:", "in self.dicts[:1]:"))]},
    {"name": "combined-getlist-scans-reversed", "expect": "R8.7", "edits": [(S, "        rv = []\n        for d in self.dicts:\n            rv.extend(", "        rv = []\n        for d in reversed(self.dicts):\n            rv.extend(")]},
    {"name": "combined-values-override-lost", "expect": "R8.7", "edits": [(S,
        "    def values(self) -> cabc.Iterable[V]:  # type: ignore[override]\n        for _, value in self.items():\n            yield value\n\n    def lists(self) -> cabc.Iterable[tuple[K, list[V]]]:\n        rv: dict[K, list[V]] = {}",
        "    def lists(self) -> cabc.Iterable[tuple[K, list[V]]]:\n        rv: dict[K, list[V]] = {}")]},
    {"name": "shape:lookup-once-failed-conversion-breaks", "expect": "R8.7", "edits": None},
    {"name": "shape:found-flag-set-from-first-dict", "expect": "R8.7", "edits": None},
    {"name": "shape:helper-gives-up-at-first-miss", "expect": "R8.7", "edits": None},
    {"name": "shape:result-local-failed-conversion-breaks", "expect": "R8.7", "edits": None},
    {"name": "shape:grown-result-starts-as-shared-list", "expect": "R8.4", "edits": None},
    {"name": "shape:module-helper-gives-up-at-first-miss", "expect": "R8.7", "edits": None},
    {"name": "shape:try-each-stops-at-first-keyerror", "expect": "R8.7", "edits": None},
]


def _derive3(twin_name, repl):
    tw = next(t for t in ROUND3_TWINS if t["name"] == twin_name)
    out = []
    hit = 0
    for rel, old, new in tw["edits"]:
        for a, b in repl:
            if a in new:
                assert new.count(a) == 1, (twin_name, a)
                new = new.replace(a, b)
                hit += 1
        out.append((rel, old, new))
    assert hit == len(repl), (twin_name, hit)
    return out


_SHAPES3 = {
    "shape:lookup-once-failed-conversion-breaks": ("combined-get-lookup-once", [("                    continue\n", "                    break\n")]),
    "shape:found-flag-set-from-first-dict": ("combined-contains-found-flag-break", [("            if key in d:\n                found = True\n                break\n", "            found = key in d\n            break\n")]),
    "shape:helper-gives-up-at-first-miss": ("combined-getitem-through-private-helper", [("            if key in d:\n                return d\n        return None", "            if key in d:\n                return d\n            return None\n        return None")]),
    "shape:module-helper-gives-up-at-first-miss": ("combined-scans-copy-slice-module-helper", [("        if key in candidate:\n            return candidate\n    return None", "        if key in candidate:\n            return candidate\n        break\n    return None")]),
    "shape:try-each-stops-at-first-keyerror": ("combined-getitem-try-each-getlist-comprehension", [("            except KeyError:\n                continue\n", "            except KeyError:\n                break\n")]),
    "shape:grown-result-starts-as-shared-list": ("combined-getlist-alias-enumerate-getitem-guarded", [("        wrapped = self.dicts\n        rv = []\n", "        wrapped = self.dicts\n        rv = wrapped\n")]),
    "shape:result-local-failed-conversion-breaks": ("combined-get-result-local-break-else", [("                pass\n            else:\n                break\n", "                break\n            else:\n                break\n")]),
}
for _m in ROUND3_MUTANTS:
    if _m["edits"] is None:
        _m["edits"] = _derive3(*_SHAPES3[_m["name"]])
TWINS = TWINS + ROUND3_TWINS
MUTANTS = MUTANTS + ROUND3_MUTANTS

# ---------------------------------------------------------------------------------------------------------------------
# round 4 (blind seeds C08-H / I / J): in-place removal loops (R8.8), get() never raises (R8.9), pickle state of the
# multi dicts (R8.10) - the defect of each class in several spellings, and the correct spellings of the same shapes
_DEL_KEY = "        key = key.lower()\n        new = []\n\n        for k, v in self._list:\n            if k.lower() != key:\n                new.append((k, v))\n\n        self._list[:] = new\n"
_DK = "        key = key.lower()\n"
_GET_TRY = "        try:\n            rv = self[key]\n        except KeyError:\n            return default\n\n        if type is None:\n            return rv\n"
_HGET_TRY = "        try:\n            rv = self._get_key(key)\n        except KeyError:\n            return default\n\n        if type is None:\n            return rv\n"
_IMM_REDUCE = "        return type(self), (list(self.items(multi=True)),)  # type: ignore[attr-defined]\n"
_OMD_REDUCE = "    def __reduce_ex__(self, protocol: t.SupportsIndex) -> t.Any:\n        return type(self), (list(self.items(multi=True)),)\n\n    def __getstate__(self) -> t.Any:\n        return list(self.items(multi=True))\n"
_MD_GETSTATE = "    def __getstate__(self) -> t.Any:\n        return dict(self.lists())\n"
_GET_VIA_HELPER = "        rv = self._item_or(key, _missing)\n\n        if rv is _missing:\n            return default\n\n        if type is None:\n            return rv  # type: ignore[no-any-return]\n"
_GET_END = "        try:\n            return type(rv)\n        except (ValueError, TypeError):\n            return default\n\n\nclass ImmutableTypeConversionDict"
_GET_END_HELPER = "        try:\n            return type(rv)\n        except (ValueError, TypeError):\n            return default\n\n    def _item_or(self, key: t.Any, fallback: t.Any) -> t.Any:\n        try:\n            return self[key]\n        except KeyError:\n            return fallback\n\n\nclass ImmutableTypeConversionDict"

ROUND4_TWINS = [
    # R8.8: in-place deletion done right
    {"name": "del-key-index-walk-else-advance", "edits": [(H, _DEL_KEY, _DK + "        idx = 0\n\n        while idx < len(self._list):\n            if self._list[idx][0].lower() == key:\n                del self._list[idx]\n            else:\n                idx += 1\n")]},
    {"name": "del-key-index-walk-pop-continue", "edits": [(H, _DEL_KEY, _DK + "        items = self._list\n        pos = 0\n\n        while pos < len(items):\n            if items[pos][0].lower() == key:\n                items.pop(pos)\n                continue\n\n            pos += 1\n")]},
    {"name": "del-key-index-walk-step-back", "edits": [(H, _DEL_KEY, _DK + "        idx = 0\n\n        while idx < len(self._list):\n            if self._list[idx][0].lower() == key:\n                del self._list[idx]\n                idx -= 1\n\n            idx += 1\n")]},
    {"name": "del-key-backwards-range", "edits": [(H, _DEL_KEY, _DK + "\n        for idx in range(len(self._list) - 1, -1, -1):\n            if self._list[idx][0].lower() == key:\n                del self._list[idx]\n")]},
    {"name": "del-key-reversed-range", "edits": [(H, _DEL_KEY, _DK + "\n        for idx in reversed(range(len(self._list))):\n            if self._list[idx][0].lower() == key:\n                self._list.pop(idx)\n")]},
    {"name": "del-key-copy-remove-by-value", "edits": [(H, _DEL_KEY, _DK + "\n        for item in list(self._list):\n            if item[0].lower() == key:\n                self._list.remove(item)\n")]},
    {"name": "del-key-backwards-helper", "edits": [(H, _DEL_KEY, _DK + "\n        for idx in reversed(range(len(self._list))):\n            if self._list[idx][0].lower() == key:\n                self._drop_at(idx)\n\n    def _drop_at(self, pos: int) -> None:\n        del self._list[pos]\n")]},
    # R8.9: get() that cannot raise
    {"name": "get-wider-handler-lookup-error", "edits": [(S, _GET_TRY, _GET_TRY.replace("except KeyError:", "except LookupError:"))]},
    {"name": "get-try-else", "edits": [(S, _GET_TRY, "        try:\n            rv = self[key]\n        except (KeyError, IndexError):\n            return default\n        else:\n            if type is None:\n                return rv\n")]},
    {"name": "get-through-private-helper-sentinel", "edits": [(S, _GET_TRY, _GET_VIA_HELPER), (S, _GET_END, _GET_END_HELPER)]},
    {"name": "headers-get-membership-then-lookup-in-try", "edits": [(H, _HGET_TRY, "        if key not in self:\n            return default\n\n        try:\n            rv = self._get_key(key)\n        except KeyError:\n            return default\n\n        if type is None:\n            return rv\n")]},
    # R8.10: reductions that carry every value
    {"name": "reduce-dict-of-lists", "edits": [(M, _IMM_REDUCE, "        return type(self), (dict(self.lists()),)  # type: ignore[attr-defined]\n")]},
    {"name": "reduce-to-dict-not-flat", "edits": [(M, _IMM_REDUCE, "        return type(self), (self.to_dict(flat=False),)  # type: ignore[attr-defined]\n")]},
    {"name": "reduce-pairs-through-local-tuple", "edits": [(M, _IMM_REDUCE, "        pairs = tuple(self.items(multi=True))  # type: ignore[attr-defined]\n        return type(self), (pairs,)\n")]},
    {"name": "reduce-pairs-comprehension", "edits": [(M, _IMM_REDUCE, "        return type(self), ([(k, v) for k, v in self.items(multi=True)],)  # type: ignore[attr-defined]\n")]},
    {"name": "getstate-dict-comprehension-over-lists", "edits": [(S, _MD_GETSTATE, "    def __getstate__(self) -> t.Any:\n        return {key: list(values) for key, values in self.lists()}\n")]},
    {"name": "getstate-getlist-per-key", "edits": [(S, _MD_GETSTATE, "    def __getstate__(self) -> t.Any:\n        return {key: self.getlist(key) for key in self}\n")]},
]
ROUND4_MUTANTS = [
    # R8.8: the walk advances past the element that moved into the hole
    {"name": "del-key-index-walk-always-advances", "expect": "R8.8", "edits": [(H, _DEL_KEY, _DK + "        pos = 0\n\n        while pos < len(self._list):\n            if self._list[pos][0].lower() == key:\n                self._list.pop(pos)\n\n            pos = pos + 1\n")]},
    {"name": "del-key-enumerate-del-in-place", "expect": "R8.8", "edits": [(H, _DEL_KEY, _DK + "\n        for idx, (k, _v) in enumerate(self._list):\n            if k.lower() == key:\n                del self._list[idx]\n")]},
    {"name": "del-key-for-remove-while-iterating", "expect": "R8.8", "edits": [(H, _DEL_KEY, _DK + "\n        for item in self._list:\n            if item[0].lower() == key:\n                self._list.remove(item)\n")]},
    {"name": "del-key-enumerate-copy-del-by-stale-index", "expect": "R8.8", "edits": [(H, _DEL_KEY, _DK + "\n        for idx, (k, _v) in enumerate(list(self._list)):\n            if k.lower() == key:\n                del self._list[idx]\n")]},
    {"name": "shape:alias-index-walk-continue-after-advance", "expect": "R8.8", "edits": [(H, _DEL_KEY, _DK + "        items = self._list\n        pos = 0\n\n        while pos < len(items):\n            if items[pos][0].lower() == key:\n                items.pop(pos)\n\n            pos += 1\n            continue\n")]},
    {"name": "shape:forward-range-helper", "expect": "R8.8", "edits": [(H, _DEL_KEY, _DK + "\n        for idx, item in enumerate(self._list):\n            if item[0].lower() == key:\n                self._drop_at(idx)\n\n    def _drop_at(self, pos: int) -> None:\n        del self._list[pos]\n")]},
    {"name": "shape:step-back-forgotten-on-one-branch", "expect": "R8.8", "edits": [(H, _DEL_KEY, _DK + "        idx = 0\n\n        while idx < len(self._list):\n            if self._list[idx][0].lower() == key:\n                del self._list[idx]\n\n                if not self._list:\n                    idx -= 1\n\n            idx += 1\n")]},
    # R8.9: a lookup error escapes get()
    {"name": "get-membership-then-item", "expect": "R8.9", "edits": [(S, _GET_TRY, "        if key in self:\n            rv = self[key]\n        else:\n            return default\n\n        if type is None:\n            return rv\n")]},
    {"name": "get-handler-narrowed", "expect": "R8.9", "edits": [(S, _GET_TRY, _GET_TRY.replace("except KeyError:", "except IndexError:"))]},
    {"name": "get-dict-get-is-none-then-item", "expect": "R8.9", "edits": [(S, _GET_TRY, "        if dict.get(self, key) is None:\n            return default\n\n        rv = self[key]\n\n        if type is None:\n            return rv\n")]},
    {"name": "headers-get-handler-for-another-error", "expect": "R8.9", "edits": [(H, _HGET_TRY, _HGET_TRY.replace("except KeyError:", "except ValueError:"))]},
    {"name": "shape:helper-sentinel-handler-narrowed", "expect": "R8.9", "edits": [(S, _GET_TRY, _GET_VIA_HELPER), (S, _GET_END, _GET_END_HELPER.replace("except KeyError:", "except TypeError:"))]},
    # R8.10: the state is the first-value view
    {"name": "reduce-pairs-collapsed-by-dict", "expect": "R8.10", "edits": [(M, _IMM_REDUCE, "        return type(self), (dict(self.items(multi=True)),)  # type: ignore[attr-defined]\n")]},
    {"name": "reduce-items-without-multi", "expect": "R8.10", "edits": [(M, _IMM_REDUCE, "        return type(self), (list(self.items()),)  # type: ignore[attr-defined]\n")]},
    {"name": "reduce-to-dict-flat", "expect": "R8.10", "edits": [(M, _IMM_REDUCE, "        return type(self), (self.to_dict(),)  # type: ignore[attr-defined]\n")]},
    {"name": "getstate-plain-dict-of-self", "expect": "R8.10", "edits": [(S, _MD_GETSTATE, "    def __getstate__(self) -> t.Any:\n        return dict(self)\n")]},
    {"name": "shape:reduce-flat-state-through-local", "expect": "R8.10", "edits": [(M, _IMM_REDUCE, "        state = dict(self)  # type: ignore[call-overload]\n        return type(self), (state,)\n")]},
    {"name": "ordered-reduce-multi-false", "expect": "R8.10", "edits": [(S, _OMD_REDUCE, _OMD_REDUCE.replace("return type(self), (list(self.items(multi=True)),)", "return type(self), (list(self.items(multi=False)),)"))]},
    {"name": "shape:getstate-comprehension-first-values", "expect": "R8.10", "edits": [(S, _MD_GETSTATE, "    def __getstate__(self) -> t.Any:\n        return {key: [self[key]] for key in self}\n")]},
]
TWINS = TWINS + ROUND4_TWINS
MUTANTS = MUTANTS + ROUND4_MUTANTS

# ---------------------------------------------------------------------------------------------------------------------
# round 5 (stress of R8.7 - R8.10 with fresh maintainer-style refactorings): the shapes that tripped a rule - a pickle
# state filled by a loop / reached through another method, super() or a module-level helper / a bound reader handed to
# map(), the wrapped list handed whole to a call (*self.dicts), sum(lists, []) - and a defect planted in each shape
_CLS_IMM = "class ImmutableMultiDictMixin(ImmutableDictMixin[K, V]):\n"
_KEYS_IMPL = "        return set(k for d in self.dicts for k in d)"
_GETLIST5 = "        rv = []\n        for d in self.dicts:\n            rv.extend(d.getlist(key, type))  # type: ignore[arg-type]\n        return rv"
_GS = "    def __getstate__(self) -> t.Any:\n"
_OMD_TAIL = "\n    def __getstate__(self) -> t.Any:\n        return list(self.items(multi=True))\n"
_OMD_RX = "    def __reduce_ex__(self, protocol: t.SupportsIndex) -> t.Any:\n"

ROUND5_TWINS = [
    {"name": "getstate-filled-by-loop-over-lists", "edits": [(S, _MD_GETSTATE, _GS + "        state: dict[K, list[V]] = {}\n\n        for key, values in self.lists():\n            state[key] = values\n\n        return state\n")]},
    {"name": "getstate-per-key-lists-extended", "edits": [(S, _MD_GETSTATE, _GS + "        state: dict[K, list[V]] = {}\n\n        for key, values in self.lists():\n            state.setdefault(key, []).extend(values)\n\n        return state\n")]},
    {"name": "getstate-update-from-lists", "edits": [(S, _MD_GETSTATE, _GS + "        state: dict[K, list[V]] = {}\n        state.update(self.lists())\n        return state\n")]},
    {"name": "getstate-keys-then-getlist-loop", "edits": [(S, _MD_GETSTATE, _GS + "        state = {}\n\n        for key in self:\n            state[key] = self.getlist(key)\n\n        return state\n")]},
    {"name": "getstate-raw-items-through-super", "edits": [(S, _MD_GETSTATE, _GS + "        return dict(super().items())\n")]},
    {"name": "getstate-zip-keys-map-bound-getlist", "edits": [(S, _MD_GETSTATE, _GS + "        keys = list(self)\n        return dict(zip(keys, map(self.getlist, keys)))\n")]},
    {"name": "ordered-reduce-reuses-getstate", "edits": [(S, _OMD_REDUCE, _OMD_RX + "        return type(self), (self.__getstate__(),)\n" + _OMD_TAIL)]},
    {"name": "ordered-reduce-pairs-appended-in-loop", "edits": [(S, _OMD_REDUCE, _OMD_RX + "        pairs = []\n\n        for key, value in self.items(multi=True):\n            pairs.append((key, value))\n\n        return type(self), (pairs,)\n" + _OMD_TAIL)]},
    {"name": "ordered-reduce-walks-the-buckets", "edits": [(S, _OMD_REDUCE, _OMD_RX + "        pairs = []\n        ptr = self._first_bucket\n\n        while ptr is not None:\n            pairs.append((ptr.key, ptr.value))\n            ptr = ptr.next\n\n        return type(self), (pairs,)\n" + _OMD_TAIL)]},
    {"name": "reduce-star-unpacked-pairs", "edits": [(M, _IMM_REDUCE, "        return type(self), ([*self.items(multi=True)],)  # type: ignore[attr-defined]\n")]},
    {"name": "reduce-pairs-extended-into-local", "edits": [(M, _IMM_REDUCE, "        pairs: list[t.Any] = []\n        pairs.extend(self.items(multi=True))  # type: ignore[attr-defined]\n        return type(self), (pairs,)\n")]},
    {"name": "reduce-through-module-level-helper", "edits": [(M, _IMM_REDUCE, "        return type(self), (_multi_items(self),)\n"), (M, _CLS_IMM, "def _multi_items(md: t.Any) -> list[tuple[t.Any, t.Any]]:\n    return list(md.items(multi=True))\n\n\n" + _CLS_IMM)]},
    {"name": "reduce-module-helper-fills-a-list", "edits": [(M, _IMM_REDUCE, "        return type(self), (_multi_items(self),)\n"), (M, _CLS_IMM, "def _multi_items(md: t.Any) -> list[tuple[t.Any, t.Any]]:\n    out = []\n    for pair in md.items(multi=True):\n        out.append(pair)\n    return out\n\n\n" + _CLS_IMM)]},
    {"name": "combined-contains-via-key-set-union-star", "edits": [(S, _CONTAINS, "        return key in self._keys_impl()"), (S, _KEYS_IMPL, "        return set().union(*self.dicts)")]},
    {"name": "combined-getlist-sum-of-lists", "edits": [(S, _GETLIST5, "        return sum((d.getlist(key, type) for d in self.dicts), [])  # type: ignore[arg-type]")]},
]
ROUND5_MUTANTS = [
    {"name": "shape:state-loop-stores-first-values", "expect": "R8.10", "edits": [(S, _MD_GETSTATE, _GS + "        state = {}\n\n        for key in self:\n            state[key] = [self[key]]\n\n        return state\n")]},
    {"name": "shape:state-loop-pairs-stored-per-key", "expect": "R8.10", "edits": [(S, _MD_GETSTATE, _GS + "        state: dict[K, t.Any] = {}\n\n        for key, value in self.items(multi=True):\n            state[key] = [value]\n\n        return state\n")]},
    {"name": "shape:state-loop-setdefault-keeps-first", "expect": "R8.10", "edits": [(S, _MD_GETSTATE, _GS + "        state: dict[K, t.Any] = {}\n\n        for key, value in self.items(multi=True):\n            state.setdefault(key, [value])\n\n        return state\n")]},
    {"name": "shape:state-update-from-flat-items", "expect": "R8.10", "edits": [(S, _MD_GETSTATE, _GS + "        state: dict[K, t.Any] = {}\n        state.update(self.items())\n        return state\n")]},
    {"name": "shape:super-items-is-the-flat-view", "expect": "R8.10", "edits": [(M, _IMM_REDUCE, "        return type(self), (list(super().items()),)  # type: ignore[misc]\n")]},
    {"name": "shape:map-bound-get", "expect": "R8.10", "edits": [(S, _MD_GETSTATE, _GS + "        keys = list(self)\n        return dict(zip(keys, map(self.get, keys)))\n")]},
    {"name": "shape:reused-getstate-is-flat", "expect": "R8.10", "edits": [(S, _OMD_REDUCE, _OMD_RX + "        return type(self), (self.__getstate__(),)\n\n    def __getstate__(self) -> t.Any:\n        return list(self.items())\n")]},
    {"name": "shape:pairs-loop-over-flat-items", "expect": "R8.10", "edits": [(S, _OMD_REDUCE, _OMD_RX + "        pairs = []\n\n        for key, value in self.items():\n            pairs.append((key, value))\n\n        return type(self), (pairs,)\n" + _OMD_TAIL)]},
    {"name": "shape:star-unpacked-flat-items", "expect": "R8.10", "edits": [(M, _IMM_REDUCE, "        return type(self), ([*self.items()],)  # type: ignore[attr-defined]\n")]},
    {"name": "shape:module-helper-reads-flat", "expect": "R8.10", "edits": [(M, _IMM_REDUCE, "        return type(self), (_multi_items(self),)\n"), (M, _CLS_IMM, "def _multi_items(md: t.Any) -> list[tuple[t.Any, t.Any]]:\n    out = []\n    for pair in md.items():\n        out.append(pair)\n    return out\n\n\n" + _CLS_IMM)]},
    {"name": "shape:key-set-union-of-first-dict-only", "expect": "R8.7", "edits": [(S, _KEYS_IMPL, "        return set().union(*self.dicts[:1])")]},
    {"name": "shape:sum-of-lists-over-a-slice", "expect": "R8.7", "edits": [(S, _GETLIST5, "        return sum((d.getlist(key, type) for d in self.dicts[:1]), [])  # type: ignore[arg-type]")]},
    {"name": "shape:sum-onto-a-wrapped-list", "expect": "R8.4", "edits": [(S, _GETLIST5, "        return sum((d.getlist(key, type) for d in self.dicts), self.dicts)  # type: ignore[arg-type]")]},
]
ROUND5_TWINS += [
    {"name": "getstate-through-private-generator-helper", "edits": [(S, _MD_GETSTATE, _GS + "        return dict(self._iter_lists())\n\n    def _iter_lists(self) -> cabc.Iterator[tuple[K, list[V]]]:\n        for key, values in dict.items(self):  # type: ignore[assignment]\n            yield key, list(values)\n")]},
    {"name": "getstate-raw-dict-calls-per-key", "edits": [(S, _MD_GETSTATE, _GS + "        state = {}\n        for key in dict.keys(self):\n            state[key] = list(dict.__getitem__(self, key))\n        return state\n")]},
    {"name": "reduce-empty-guard-constant-state", "edits": [(M, _IMM_REDUCE, "        if not self:\n            return type(self), ([],)\n\n        return type(self), (list(self.items(multi=True)),)  # type: ignore[attr-defined]\n")]},
    {"name": "ordered-reduce-and-getstate-share-a-private-loop", "edits": [(S, _OMD_REDUCE, _OMD_RX + "        return type(self), (self._all_pairs(),)\n\n    def __getstate__(self) -> t.Any:\n        return self._all_pairs()\n\n    def _all_pairs(self) -> list[tuple[K, V]]:\n        pairs = []\n        for pair in self.items(multi=True):\n            pairs.append(pair)\n        return pairs\n")]},
]
ROUND5_MUTANTS += [
    {"name": "shape:generator-helper-yields-first-values", "expect": "R8.10", "edits": [(S, _MD_GETSTATE, _GS + "        return dict(self._iter_lists())\n\n    def _iter_lists(self) -> cabc.Iterator[tuple[K, list[V]]]:\n        for key in self:\n            yield key, [self[key]]\n")]},
    {"name": "shape:raw-dict-keys-first-values", "expect": "R8.10", "edits": [(S, _MD_GETSTATE, _GS + "        state = {}\n        for key in dict.keys(self):\n            state[key] = [self[key]]\n        return state\n")]},
    {"name": "shape:empty-guard-then-flat-state", "expect": "R8.10", "edits": [(M, _IMM_REDUCE, "        if not self:\n            return type(self), ([],)\n\n        return type(self), (list(self.items()),)  # type: ignore[attr-defined]\n")]},
    {"name": "shape:shared-private-loop-over-flat-items", "expect": "R8.10", "edits": [(S, _OMD_REDUCE, _OMD_RX + "        return type(self), (self._all_pairs(),)\n\n    def __getstate__(self) -> t.Any:\n        return self._all_pairs()\n\n    def _all_pairs(self) -> list[tuple[K, V]]:\n        pairs = []\n        for pair in self.items():\n            pairs.append(pair)\n        return pairs\n")]},
    {"name": "shape:constant-state-on-every-path", "expect": "R8.10", "edits": [(M, _IMM_REDUCE, "        return type(self), ([],)\n")]},
]
_HG5 = "        try:\n            rv = self._get_key(key)\n        except KeyError:\n            return default\n\n        if type is None:\n            return rv\n"
_HG5_TAIL = "\n        if type is None:\n            return rv\n"
ROUND5_TWINS.append({"name": "headers-get-membership-test-then-plain-lookup", "edits": [(H, _HG5, "        if key not in self:\n            return default\n\n        rv = self._get_key(key)\n" + _HG5_TAIL)]})
ROUND5_MUTANTS += [
    {"name": "shape:membership-then-lookup-after-a-removal", "expect": "R8.9", "edits": [(H, _HG5, "        if key not in self:\n            return default\n\n        self._list.pop()\n        rv = self._get_key(key)\n" + _HG5_TAIL)]},
    {"name": "shape:membership-then-lookup-of-another-key", "expect": "R8.9", "edits": [(H, _HG5, "        if key not in self:\n            return default\n\n        rv = self._get_key(key.strip())\n" + _HG5_TAIL)]},
]
TWINS = TWINS + ROUND5_TWINS
MUTANTS = MUTANTS + ROUND5_MUTANTS

# ---------------------------------------------------------------------------------------------------------------------
# round 7 (R8.11 / R8.12): observers evaluated on a table of container states.  Own variants in many spellings, the
# 14 refactorings a fresh author wrote for exactly the functions the two rules look at ("fresh:*"), and for each shape a
# mutant in that shape.
_LEN7 = "        return len(self._keys_impl())"
_ITER7 = "        return iter(self._keys_impl())"
_KEYS7 = "    def keys(self) -> cabc.Iterable[K]:  # type: ignore[override]\n        return self._keys_impl()"
_KEYS7_DEF = "    def keys(self) -> cabc.Iterable[K]:  # type: ignore[override]\n"
_IMP7 = "from copy import deepcopy\n"
_GK7 = "        ikey = key.lower()\n\n        for k, v in self._list:\n            if k.lower() == ikey:\n                return v\n\n        raise BadRequestKeyError(key)"
_POP7 = "        try:\n            rv = self._get_key(key)\n        except KeyError:\n            if default is not _missing:\n                return default\n\n            raise\n\n        self.remove(key)\n        return rv"
_GI7 = "        if isinstance(key, str):\n            return self._get_key(key)\n\n        if isinstance(key, int):\n            return self._list[key]"
ROUND7_TWINS = [
    {"name": "len-counts-own-iteration", "edits": [(S, _LEN7, "        return sum(1 for _ in self)")]},
    {"name": "len-of-list-of-self", "edits": [(S, _LEN7, "        return len(list(self))")]},
    {"name": "len-of-keys-call", "edits": [(S, _LEN7, "        keys = self.keys()\n        return len(keys)  # type: ignore[arg-type]")]},
    {"name": "len-of-dict-fromkeys-chain", "edits": [(S, _IMP7, _IMP7 + "from itertools import chain\n"), (S, _LEN7, "        return len(dict.fromkeys(chain.from_iterable(self.dicts)))")]},
    {"name": "len-of-reduced-key-views", "edits": [(S, _IMP7, _IMP7 + "from functools import reduce\n"), (S, _LEN7, "        merged: set[K] = reduce(lambda acc, d: acc | d.keys(), self.dicts, set())\n        return len(merged)")]},
    {"name": "len-of-flat-dict", "edits": [(S, _LEN7, "        return len(self.to_dict())")]},
    {"name": "len-of-first-items", "edits": [(S, _LEN7, "        return len([key for key, _ in self.items()])")]},
    {"name": "len-sum-of-new-keys-per-dict", "edits": [(S, _LEN7, "        seen: set[K] = set()\n        total = 0\n        for d in self.dicts:\n            fresh = set(d) - seen\n            total += len(fresh)\n            seen |= fresh\n        return total")]},
    {"name": "iter-yields-from-key-set", "edits": [(S, _ITER7, "        yield from self._keys_impl()")]},
    {"name": "iter-over-keys-call", "edits": [(S, _ITER7, "        return iter(self.keys())")]},
    {"name": "iter-generator-with-seen-set", "edits": [(S, _ITER7, "        seen = set()\n        for d in self.dicts:\n            for key in d:\n                if key not in seen:\n                    seen.add(key)\n                    yield key")]},
    {"name": "keys-frozen-union-then-set", "edits": [(S, _KEYS_IMPL, "        return set(frozenset().union(*self.dicts))")]},
    {"name": "keys-set-of-self-iter-owns-the-scan", "edits": [(S, _KEYS7, _KEYS7_DEF + "        return set(self)"), (S, _ITER7, "        return iter({k for d in self.dicts for k in d.keys()})"), (S, _LEN7, "        return len(set(self))")]},
    {"name": "keys-impl-try-except-free-union-of-key-sets", "edits": [(S, _KEYS_IMPL, "        out: set[K] = set()\n        for d in self.dicts:\n            out = out.union(d.keys())\n        return out")]},
    # Headers
    {"name": "get-key-index-walk", "edits": [(H, _GK7, "        ikey = key.lower()\n\n        for i in range(len(self._list)):\n            k, v = self._list[i]\n            if k.lower() == ikey:\n                return v\n\n        raise BadRequestKeyError(key)")]},
    {"name": "get-key-while-loop", "edits": [(H, _GK7, "        ikey = key.lower()\n        i = 0\n\n        while i < len(self._list):\n            if self._list[i][0].lower() == ikey:\n                return self._list[i][1]\n            i += 1\n\n        raise BadRequestKeyError(key)")]},
    {"name": "get-key-matching-values-list", "edits": [(H, _GK7, "        ikey = key.lower()\n        values = [v for k, v in self._list if k.lower() == ikey]\n\n        if not values:\n            raise BadRequestKeyError(key)\n\n        return values[0]")]},
    {"name": "get-key-reversed-dict-first-wins", "edits": [(H, _GK7, "        first: dict[str, str] = {}\n\n        for k, v in reversed(self._list):\n            first[k.lower()] = v\n\n        try:\n            return first[key.lower()]\n        except KeyError:\n            raise BadRequestKeyError(key) from None")]},
    {"name": "get-key-setdefault-keeps-first", "edits": [(H, _GK7, "        first: dict[str, str] = {}\n\n        for k, v in self._list:\n            first.setdefault(k.lower(), v)\n\n        ikey = key.lower()\n        if ikey not in first:\n            raise BadRequestKeyError(key)\n        return first[ikey]")]},
    {"name": "get-key-found-flag-and-break", "edits": [(H, _GK7, "        ikey = key.lower()\n        found = False\n        rv = \"\"\n\n        for k, v in self._list:\n            if k.lower() == ikey:\n                found, rv = True, v\n                break\n\n        if not found:\n            raise BadRequestKeyError(key)\n        return rv")]},
    {"name": "get-key-accumulates-only-while-unset", "edits": [(H, _GK7, "        ikey = key.lower()\n        rv = None\n\n        for k, v in self._list:\n            if rv is None and k.lower() == ikey:\n                rv = v\n\n        if rv is None:\n            raise BadRequestKeyError(key)\n        return rv")]},
    {"name": "get-key-backward-scan-overwrites", "edits": [(H, _GK7, "        ikey = key.lower()\n        rv = None\n\n        for k, v in self._list[::-1]:\n            if k.lower() == ikey:\n                rv = v\n\n        if rv is None:\n            raise BadRequestKeyError(key)\n        return rv")]},
    {"name": "getitem-conditional-expression", "edits": [(H, _GI7, "        if isinstance(key, (str, int)):\n            return self._get_key(key) if isinstance(key, str) else self._list[key]")]},
    {"name": "get-through-item-access", "edits": [(H, _HG5, "        try:\n            rv = self[key]\n        except KeyError:\n            return default\n" + _HG5_TAIL)]},
    {"name": "get-through-getlist-head", "edits": [(H, _HG5, "        found = self.getlist(key)\n\n        if not found:\n            return default\n\n        rv = found[0]\n" + _HG5_TAIL)]},
    {"name": "pop-index-list-delete-backwards", "edits": [(H, _POP7, "        ikey = key.lower()\n        hits = [i for i, (k, _) in enumerate(self._list) if k.lower() == ikey]\n\n        if not hits:\n            if default is _missing:\n                raise BadRequestKeyError(key)\n            return default\n\n        rv = self._list[hits[0]][1]\n        for i in reversed(hits):\n            del self._list[i]\n        return rv")]},
    {"name": "pop-caught-error-reraised-by-name", "edits": [(H, _POP7, "        try:\n            rv = self._get_key(key)\n        except KeyError as exc:\n            if default is _missing:\n                raise exc\n            return default\n\n        self._del_key(key)\n        return rv")]},
    {"name": "pop-getlist-then-delitem", "edits": [(H, _POP7, "        values = self.getlist(key)\n\n        if values:\n            del self[key]\n            return values[0]\n\n        if default is not _missing:\n            return default\n\n        raise BadRequestKeyError(key)")]},
]
ROUND7_MUTANTS = [
    {"name": "len-sums-wrapped-lengths", "expect": "R8.11", "edits": [(S, _LEN7, "        return sum(len(d) for d in self.dicts)")]},
    {"name": "shape:len-sum-loop-without-seen", "expect": "R8.11", "edits": [(S, _LEN7, "        total = 0\n        for d in self.dicts:\n            total += len(d.keys())\n        return total")]},
    {"name": "shape:len-of-chained-keys-list", "expect": "R8.11", "edits": [(S, _IMP7, _IMP7 + "from itertools import chain\n"), (S, _LEN7, "        return len(list(chain.from_iterable(self.dicts)))")]},
    {"name": "shape:len-of-multi-items", "expect": "R8.11", "edits": [(S, _LEN7, "        return len([key for key, _ in self.items(multi=True)])")]},
    {"name": "shape:len-of-lowered-key-set", "expect": "R8.11", "edits": [(S, _LEN7, "        return len({str(k).lower() for k in self._keys_impl()})")]},
    {"name": "shape:len-new-keys-forgets-seen-update", "expect": "R8.11", "edits": [(S, _LEN7, "        seen: set[K] = set()\n        total = 0\n        for d in self.dicts:\n            fresh = set(d) - seen\n            total += len(fresh)\n        return total")]},
    {"name": "shape:iter-generator-without-seen-set", "expect": "R8.11", "edits": [(S, _ITER7, "        for d in self.dicts:\n            for key in d:\n                yield key")]},
    {"name": "shape:iter-chains-the-dicts", "expect": "R8.11", "edits": [(S, _IMP7, _IMP7 + "from itertools import chain\n"), (S, _ITER7, "        return chain.from_iterable(self.dicts)")]},
    {"name": "shape:keys-list-with-repeats", "expect": "R8.11", "edits": [(S, _KEYS7, _KEYS7_DEF + "        return [k for d in self.dicts for k in d]")]},
    {"name": "shape:keys-of-last-dict-that-has-any", "expect": "R8.11", "edits": [(S, _KEYS_IMPL, "        out: set[K] = set()\n        for d in self.dicts:\n            out = set(d.keys()) or out\n        return out")]},
    # Headers
    {"name": "pop-single-pass-overwrites", "expect": "R8.12", "edits": [(H, _POP7, "        ikey = key.lower()\n        rv = default\n        rest = []\n\n        for item in self._list:\n            if item[0].lower() == ikey:\n                rv = item[1]\n            else:\n                rest.append(item)\n\n        if rv is _missing:\n            raise BadRequestKeyError(key)\n\n        self._list[:] = rest\n        return rv")]},
    {"name": "shape:get-key-forward-scan-overwrites", "expect": "R8.12", "edits": [(H, _GK7, "        ikey = key.lower()\n        rv = None\n\n        for k, v in self._list:\n            if k.lower() == ikey:\n                rv = v\n\n        if rv is None:\n            raise BadRequestKeyError(key)\n        return rv")]},
    {"name": "shape:get-key-backward-scan-returns", "expect": "R8.12", "edits": [(H, _GK7, "        ikey = key.lower()\n\n        for k, v in reversed(self._list):\n            if k.lower() == ikey:\n                return v\n\n        raise BadRequestKeyError(key)")]},
    {"name": "shape:get-key-values-list-tail", "expect": "R8.12", "edits": [(H, _GK7, "        ikey = key.lower()\n        values = [v for k, v in self._list if k.lower() == ikey]\n\n        if not values:\n            raise BadRequestKeyError(key)\n\n        return values[-1]")]},
    {"name": "shape:get-key-dict-last-wins", "expect": "R8.12", "edits": [(H, _GK7, "        first: dict[str, str] = {}\n\n        for k, v in self._list:\n            first[k.lower()] = v\n\n        try:\n            return first[key.lower()]\n        except KeyError:\n            raise BadRequestKeyError(key) from None")]},
    {"name": "shape:get-key-found-flag-without-break", "expect": "R8.12", "edits": [(H, _GK7, "        ikey = key.lower()\n        found = False\n        rv = \"\"\n\n        for k, v in self._list:\n            if k.lower() == ikey:\n                found, rv = True, v\n\n        if not found:\n            raise BadRequestKeyError(key)\n        return rv")]},
    {"name": "shape:get-key-index-walk-from-the-end", "expect": "R8.12", "edits": [(H, _GK7, "        ikey = key.lower()\n\n        for i in range(len(self._list) - 1, -1, -1):\n            k, v = self._list[i]\n            if k.lower() == ikey:\n                return v\n\n        raise BadRequestKeyError(key)")]},
    {"name": "shape:get-key-exact-case-preferred", "expect": "R8.12", "edits": [(H, _GK7, "        ikey = key.lower()\n\n        for k, v in self._list:\n            if k == key:\n                return v\n\n        for k, v in self._list:\n            if k.lower() == ikey:\n                return v\n\n        raise BadRequestKeyError(key)")]},
    {"name": "shape:get-through-getlist-tail", "expect": "R8.12", "edits": [(H, _HG5, "        found = self.getlist(key)\n\n        if not found:\n            return default\n\n        rv = found[-1]\n" + _HG5_TAIL)]},
    {"name": "shape:get-missing-key-gives-none-not-default", "expect": "R8.12", "edits": [(H, _HG5, "        try:\n            rv = self._get_key(key)\n        except KeyError:\n            return None\n" + _HG5_TAIL)]},
    {"name": "shape:pop-index-list-takes-last-hit", "expect": "R8.12", "edits": [(H, _POP7, "        ikey = key.lower()\n        hits = [i for i, (k, _) in enumerate(self._list) if k.lower() == ikey]\n\n        if not hits:\n            if default is _missing:\n                raise BadRequestKeyError(key)\n            return default\n\n        rv = self._list[hits[-1]][1]\n        for i in reversed(hits):\n            del self._list[i]\n        return rv")]},
    {"name": "shape:pop-removes-only-the-first-pair", "expect": "R8.12", "edits": [(H, _POP7, "        ikey = key.lower()\n        hits = [i for i, (k, _) in enumerate(self._list) if k.lower() == ikey]\n\n        if not hits:\n            if default is _missing:\n                raise BadRequestKeyError(key)\n            return default\n\n        rv = self._list[hits[0]][1]\n        del self._list[hits[0]]\n        return rv")]},
    {"name": "shape:pop-removes-before-it-reads", "expect": "R8.12", "edits": [(H, _POP7, "        self.remove(key)\n\n        try:\n            rv = self._get_key(key)\n        except KeyError:\n            if default is not _missing:\n                return default\n\n            raise\n\n        return rv")]},
    {"name": "shape:pop-default-given-for-a-present-key", "expect": "R8.12", "edits": [(H, _POP7, "        if default is not _missing:\n            self.remove(key)\n            return default\n\n        rv = self._get_key(key)\n        self.remove(key)\n        return rv")]},
    {"name": "shape:getitem-str-branch-case-sensitive", "expect": "R8.12", "edits": [(H, _GI7, "        if isinstance(key, str):\n            for k, v in self._list:\n                if k == key:\n                    return v\n            return self._get_key(key.upper())\n\n        if isinstance(key, int):\n            return self._list[key]")]},
]
ROUND7_TWINS += [
    {"name": "fresh:inline-keys-impl", "edits": [(S, '            rv.extend(d.getlist(key, type))  # type: ignore[arg-type]\n        return rv\n\n    def _keys_impl(self) -> set[K]:\n        """This function exists so __len__ can be implemented more efficiently,\n        saving one list creation from an iterator.\n        """\n        return set(k for d in self.dicts for k in d)\n\n    def keys(self) -> cabc.Iterable[K]:  # type: ignore[override]\n        return self._keys_impl()\n\n    def __iter__(self) -> cabc.Iterator[K]:\n        return iter(self._keys_impl())\n\n    @t.overload  # type: ignore[override]\n    def items(self) -> cabc.Iterable[tuple[K, V]]: ...\n', '            rv.extend(d.getlist(key, type))  # type: ignore[arg-type]\n        return rv\n\n    def keys(self) -> cabc.Iterable[K]:  # type: ignore[override]\n        return set(k for d in self.dicts for k in d)\n\n    def __iter__(self) -> cabc.Iterator[K]:\n        return iter(set(k for d in self.dicts for k in d))\n\n    @t.overload  # type: ignore[override]\n    def items(self) -> cabc.Iterable[tuple[K, V]]: ...\n'), (S, '        return MultiDict(self)\n\n    def __len__(self) -> int:\n        return len(self._keys_impl())\n\n    def __contains__(self, key: K) -> bool:  # type: ignore[override]\n        for d in self.dicts:\n', '        return MultiDict(self)\n\n    def __len__(self) -> int:\n        # Build the set directly rather than going through keys(), saving\n        # one list creation from an iterator.\n        return len(set(k for d in self.dicts for k in d))\n\n    def __contains__(self, key: K) -> bool:  # type: ignore[override]\n        for d in self.dicts:\n')]},
    {"name": "fresh:keys-set-union", "edits": [(S, '        """This function exists so __len__ can be implemented more efficiently,\n        saving one list creation from an iterator.\n        """\n        return set(k for d in self.dicts for k in d)\n\n    def keys(self) -> cabc.Iterable[K]:  # type: ignore[override]\n        return self._keys_impl()\n', '        """This function exists so __len__ can be implemented more efficiently,\n        saving one list creation from an iterator.\n        """\n        return set().union(*self.dicts)\n\n    def keys(self) -> cabc.Iterable[K]:  # type: ignore[override]\n        return self._keys_impl()\n')]},
    {"name": "fresh:keys-chain-from-iterable", "edits": [(S, 'import collections.abc as cabc\nimport typing as t\nfrom copy import deepcopy\n\nfrom .. import exceptions\nfrom .._internal import _missing\n', 'import collections.abc as cabc\nimport typing as t\nfrom copy import deepcopy\nfrom itertools import chain\n\nfrom .. import exceptions\nfrom .._internal import _missing\n'), (S, '        """This function exists so __len__ can be implemented more efficiently,\n        saving one list creation from an iterator.\n        """\n        return set(k for d in self.dicts for k in d)\n\n    def keys(self) -> cabc.Iterable[K]:  # type: ignore[override]\n        return self._keys_impl()\n', '        """This function exists so __len__ can be implemented more efficiently,\n        saving one list creation from an iterator.\n        """\n        return set(chain.from_iterable(self.dicts))\n\n    def keys(self) -> cabc.Iterable[K]:  # type: ignore[override]\n        return self._keys_impl()\n')]},
    {"name": "fresh:keys-loop-update", "edits": [(S, '        """This function exists so __len__ can be implemented more efficiently,\n        saving one list creation from an iterator.\n        """\n        return set(k for d in self.dicts for k in d)\n\n    def keys(self) -> cabc.Iterable[K]:  # type: ignore[override]\n        return self._keys_impl()\n', '        """This function exists so __len__ can be implemented more efficiently,\n        saving one list creation from an iterator.\n        """\n        rv: set[K] = set()\n\n        for mapping in self.dicts:\n            rv.update(mapping)\n\n        return rv\n\n    def keys(self) -> cabc.Iterable[K]:  # type: ignore[override]\n        return self._keys_impl()\n')]},
    {"name": "fresh:len-count-unseen", "edits": [(S, '        return MultiDict(self)\n\n    def __len__(self) -> int:\n        return len(self._keys_impl())\n\n    def __contains__(self, key: K) -> bool:  # type: ignore[override]\n        for d in self.dicts:\n', '        return MultiDict(self)\n\n    def __len__(self) -> int:\n        seen: set[K] = set()\n        count = 0\n\n        for d in self.dicts:\n            for key in d:\n                if key in seen:\n                    continue\n\n                seen.add(key)\n                count += 1\n\n        return count\n\n    def __contains__(self, key: K) -> bool:  # type: ignore[override]\n        for d in self.dicts:\n')]},
    {"name": "fresh:extract-merged-keys-helper", "edits": [(S, '        return key, [x.value for x in buckets]\n\n\nclass CombinedMultiDict(ImmutableMultiDictMixin[K, V], MultiDict[K, V]):  # type: ignore[misc]\n    """A read only :class:`MultiDict` that you can pass multiple :class:`MultiDict`\n    instances as sequence and it will combine the return values of all wrapped\n', '        return key, [x.value for x in buckets]\n\n\ndef _merged_keys(dicts: cabc.Iterable[cabc.Iterable[K]]) -> set[K]:\n    """Collect the distinct keys of all the given dicts."""\n    rv: set[K] = set()\n\n    for d in dicts:\n        for key in d:\n            rv.add(key)\n\n    return rv\n\n\nclass CombinedMultiDict(ImmutableMultiDictMixin[K, V], MultiDict[K, V]):  # type: ignore[misc]\n    """A read only :class:`MultiDict` that you can pass multiple :class:`MultiDict`\n    instances as sequence and it will combine the return values of all wrapped\n'), (S, '        """This function exists so __len__ can be implemented more efficiently,\n        saving one list creation from an iterator.\n        """\n        return set(k for d in self.dicts for k in d)\n\n    def keys(self) -> cabc.Iterable[K]:  # type: ignore[override]\n        return self._keys_impl()\n', '        """This function exists so __len__ can be implemented more efficiently,\n        saving one list creation from an iterator.\n        """\n        return _merged_keys(self.dicts)\n\n    def keys(self) -> cabc.Iterable[K]:  # type: ignore[override]\n        return self._keys_impl()\n')]},
    {"name": "fresh:set-comprehension-locals", "edits": [(S, '        """This function exists so __len__ can be implemented more efficiently,\n        saving one list creation from an iterator.\n        """\n        return set(k for d in self.dicts for k in d)\n\n    def keys(self) -> cabc.Iterable[K]:  # type: ignore[override]\n        return self._keys_impl()\n\n    def __iter__(self) -> cabc.Iterator[K]:\n        return iter(self._keys_impl())\n\n    @t.overload  # type: ignore[override]\n    def items(self) -> cabc.Iterable[tuple[K, V]]: ...\n', '        """This function exists so __len__ can be implemented more efficiently,\n        saving one list creation from an iterator.\n        """\n        return {key for mapping in self.dicts for key in mapping}\n\n    def keys(self) -> cabc.Iterable[K]:  # type: ignore[override]\n        return self._keys_impl()\n\n    def __iter__(self) -> cabc.Iterator[K]:\n        keys = self._keys_impl()\n        return iter(keys)\n\n    @t.overload  # type: ignore[override]\n    def items(self) -> cabc.Iterable[tuple[K, V]]: ...\n'), (S, '        return MultiDict(self)\n\n    def __len__(self) -> int:\n        return len(self._keys_impl())\n\n    def __contains__(self, key: K) -> bool:  # type: ignore[override]\n        for d in self.dicts:\n', '        return MultiDict(self)\n\n    def __len__(self) -> int:\n        if not self.dicts:\n            return 0\n\n        keys = self._keys_impl()\n        return len(keys)\n\n    def __contains__(self, key: K) -> bool:  # type: ignore[override]\n        for d in self.dicts:\n')]},
    {"name": "fresh:getitem-inline-get-key", "edits": [(H, '    def __getitem__(self, key: slice) -> te.Self: ...\n    def __getitem__(self, key: str | int | slice) -> str | tuple[str, str] | te.Self:\n        if isinstance(key, str):\n            return self._get_key(key)\n\n        if isinstance(key, int):\n            return self._list[key]\n', '    def __getitem__(self, key: slice) -> te.Self: ...\n    def __getitem__(self, key: str | int | slice) -> str | tuple[str, str] | te.Self:\n        if isinstance(key, str):\n            ikey = key.lower()\n\n            for k, v in self._list:\n                if k.lower() == ikey:\n                    return v\n\n            raise BadRequestKeyError(key)\n\n        if isinstance(key, int):\n            return self._list[key]\n')]},
    {"name": "fresh:get-key-next-sentinel", "edits": [(H, '\n    def _get_key(self, key: str) -> str:\n        ikey = key.lower()\n\n        for k, v in self._list:\n            if k.lower() == ikey:\n                return v\n\n        raise BadRequestKeyError(key)\n\n    def __eq__(self, other: object) -> bool:\n        if other.__class__ is not self.__class__:\n', '\n    def _get_key(self, key: str) -> str:\n        ikey = key.lower()\n        rv = next((v for k, v in self._list if k.lower() == ikey), _missing)\n\n        if rv is _missing:\n            raise BadRequestKeyError(key)\n\n        return rv  # type: ignore[return-value]\n\n    def __eq__(self, other: object) -> bool:\n        if other.__class__ is not self.__class__:\n')]},
    {"name": "fresh:get-flip-type-check", "edits": [(H, '        except KeyError:\n            return default\n\n        if type is None:\n            return rv\n\n        try:\n            return type(rv)\n        except ValueError:\n            return default\n\n    @t.overload\n    def getlist(self, key: str) -> list[str]: ...\n', '        except KeyError:\n            return default\n\n        if type is not None:\n            try:\n                return type(rv)\n            except ValueError:\n                return default\n\n        return rv\n\n    @t.overload\n    def getlist(self, key: str) -> list[str]: ...\n')]},
    {"name": "fresh:pop-contains-precheck", "edits": [(H, '        del self._list[key]\n\n    def _del_key(self, key: str) -> None:\n        key = key.lower()\n        new = []\n\n        for k, v in self._list:\n            if k.lower() != key:\n                new.append((k, v))\n\n        self._list[:] = new\n\n    def remove(self, key: str) -> None:\n        """Remove a key.\n', '        del self._list[key]\n\n    def _del_key(self, key: str) -> None:\n        ikey = key.lower()\n        self._list[:] = [(k, v) for k, v in self._list if k.lower() != ikey]\n\n    def remove(self, key: str) -> None:\n        """Remove a key.\n'), (H, '        if isinstance(key, int):\n            return self._list.pop(key)\n\n        try:\n            rv = self._get_key(key)\n        except KeyError:\n            if default is not _missing:\n                return default\n\n            raise\n\n        self.remove(key)\n        return rv\n\n    def popitem(self) -> tuple[str, str]:\n        """Removes a key or index and returns a (key, value) item."""\n', '        if isinstance(key, int):\n            return self._list.pop(key)\n\n        if key in self:\n            rv = self._get_key(key)\n            self.remove(key)\n            return rv\n\n        if default is _missing:\n            raise BadRequestKeyError(key)\n\n        return default\n\n    def popitem(self) -> tuple[str, str]:\n        """Removes a key or index and returns a (key, value) item."""\n')]},
    {"name": "fresh:pop-single-pass-filter", "edits": [(H, '        if isinstance(key, int):\n            return self._list.pop(key)\n\n        try:\n            rv = self._get_key(key)\n        except KeyError:\n            if default is not _missing:\n                return default\n\n            raise\n\n        self.remove(key)\n        return rv\n\n    def popitem(self) -> tuple[str, str]:\n', '        if isinstance(key, int):\n            return self._list.pop(key)\n\n        ikey = key.lower()\n        rv: str | T = _missing  # type: ignore[assignment]\n        remaining = []\n\n        for k, v in self._list:\n            if k.lower() != ikey:\n                remaining.append((k, v))\n            elif rv is _missing:\n                rv = v\n\n        if rv is _missing:\n            if default is _missing:\n                raise BadRequestKeyError(key)\n\n            return default\n\n        self._list[:] = remaining\n        return rv\n\n    def popitem(self) -> tuple[str, str]:\n')]},
    {"name": "fresh:pop-try-else-del-key", "edits": [(H, '        """\n        if key is None:\n            return self._list.pop()\n\n        if isinstance(key, int):\n            return self._list.pop(key)\n\n        try:\n            rv = self._get_key(key)\n        except KeyError:\n            if default is not _missing:\n                return default\n\n            raise\n\n        self.remove(key)\n        return rv\n\n    def popitem(self) -> tuple[str, str]:\n        """Removes a key or index and returns a (key, value) item."""\n', '        """\n        if key is None:\n            return self._list.pop()\n        elif isinstance(key, int):\n            return self._list.pop(key)\n\n        try:\n            rv = self._get_key(key)\n        except KeyError:\n            if default is _missing:\n                raise\n\n            return default\n        else:\n            self._del_key(key)\n            return rv\n\n    def popitem(self) -> tuple[str, str]:\n        """Removes a key or index and returns a (key, value) item."""\n')]},
    {"name": "fresh:get-key-for-else-reorder-getitem", "edits": [(H, '    @t.overload\n    def __getitem__(self, key: slice) -> te.Self: ...\n    def __getitem__(self, key: str | int | slice) -> str | tuple[str, str] | te.Self:\n        if isinstance(key, str):\n            return self._get_key(key)\n\n        if isinstance(key, int):\n            return self._list[key]\n\n        return self.__class__(self._list[key])\n\n    def _get_key(self, key: str) -> str:\n        ikey = key.lower()\n\n        for k, v in self._list:\n            if k.lower() == ikey:\n                return v\n\n        raise BadRequestKeyError(key)\n\n    def __eq__(self, other: object) -> bool:\n        if other.__class__ is not self.__class__:\n', '    @t.overload\n    def __getitem__(self, key: slice) -> te.Self: ...\n    def __getitem__(self, key: str | int | slice) -> str | tuple[str, str] | te.Self:\n        if isinstance(key, int):\n            return self._list[key]\n\n        if isinstance(key, str):\n            return self._get_key(key)\n\n        return self.__class__(self._list[key])\n\n    def _get_key(self, key: str) -> str:\n        wanted = key.lower()\n\n        for name, value in self._list:\n            if name.lower() == wanted:\n                break\n        else:\n            raise BadRequestKeyError(key)\n\n        return value\n\n    def __eq__(self, other: object) -> bool:\n        if other.__class__ is not self.__class__:\n')]},
]
_HIMP7 = "import re\nimport typing as t\n"
ROUND7_TWINS += [
    {"name": "get-suppress-keyerror-sentinel", "edits": [(H, _HIMP7, "import contextlib\n" + _HIMP7), (H, _HG5, "        rv = _missing\n\n        with contextlib.suppress(KeyError):\n            rv = self._get_key(key)\n\n        if rv is _missing:\n            return default\n" + _HG5_TAIL)]},
    {"name": "get-key-index-in-lowered-key-list", "edits": [(H, _GK7, "        lowered = list(map(str.lower, (k for k, _ in self._list)))\n\n        try:\n            return self._list[lowered.index(key.lower())][1]\n        except ValueError:\n            raise BadRequestKeyError(key) from None")]},
    {"name": "get-key-islice-first-match", "edits": [(H, _HIMP7, "from itertools import islice\n" + _HIMP7), (H, _GK7, "        ikey = key.lower()\n\n        for v in islice((v for k, v in self._list if k.lower() == ikey), 1):\n            return v\n\n        raise BadRequestKeyError(key)")]},
]
ROUND7_MUTANTS += [
    {"name": "shape:suppress-then-none-instead-of-default", "expect": "R8.12", "edits": [(H, _HIMP7, "import contextlib\n" + _HIMP7), (H, _HG5, "        rv = None\n\n        with contextlib.suppress(KeyError):\n            rv = self._get_key(key)\n\n        if rv is None:\n            return None\n" + _HG5_TAIL)]},
    {"name": "shape:last-index-in-lowered-key-list", "expect": "R8.12", "edits": [(H, _GK7, "        lowered = list(map(str.lower, (k for k, _ in self._list)))\n\n        try:\n            return self._list[len(lowered) - 1 - lowered[::-1].index(key.lower())][1]\n        except ValueError:\n            raise BadRequestKeyError(key) from None")]},
    {"name": "shape:islice-second-match", "expect": "R8.12", "edits": [(H, _HIMP7, "from itertools import islice\n" + _HIMP7), (H, _GK7, "        ikey = key.lower()\n\n        for v in islice((v for k, v in self._list if k.lower() == ikey), 1, 2):\n            return v\n\n        raise BadRequestKeyError(key)")]},
    {"name": "shape:values-list-tail-unguarded", "expect": "R8.12", "edits": [(H, _GK7, "        ikey = key.lower()\n        values = [v for k, v in self._list if k.lower() == ikey]\n        return values[-1]")]},
]
ROUND7_TWINS += [
    {"name": "fresh2:keys-reduce-or", "edits": [(S, 'from __future__ import annotations\n\nimport collections.abc as cabc\nimport typing as t\nfrom copy import deepcopy\n\nfrom .. import exceptions\nfrom .._internal import _missing\n', 'from __future__ import annotations\n\nimport collections.abc as cabc\nimport operator\nimport typing as t\nfrom copy import deepcopy\nfrom functools import reduce\n\nfrom .. import exceptions\nfrom .._internal import _missing\n'), (S, '        """This function exists so __len__ can be implemented more efficiently,\n        saving one list creation from an iterator.\n        """\n        return set(k for d in self.dicts for k in d)\n\n    def keys(self) -> cabc.Iterable[K]:  # type: ignore[override]\n        return self._keys_impl()\n', '        """This function exists so __len__ can be implemented more efficiently,\n        saving one list creation from an iterator.\n        """\n        empty: set[K] = set()\n        return reduce(operator.or_, map(set, self.dicts), empty)\n\n    def keys(self) -> cabc.Iterable[K]:  # type: ignore[override]\n        return self._keys_impl()\n')]},
    {"name": "fresh2:keys-list-extend-then-set", "edits": [(S, '        """This function exists so __len__ can be implemented more efficiently,\n        saving one list creation from an iterator.\n        """\n        return set(k for d in self.dicts for k in d)\n\n    def keys(self) -> cabc.Iterable[K]:  # type: ignore[override]\n        return self._keys_impl()\n', '        """This function exists so __len__ can be implemented more efficiently,\n        saving one list creation from an iterator.\n        """\n        every_key: list[K] = []\n\n        for d in self.dicts:\n            every_key.extend(d)\n\n        return set(every_key)\n\n    def keys(self) -> cabc.Iterable[K]:  # type: ignore[override]\n        return self._keys_impl()\n'), (S, '        return MultiDict(self)\n\n    def __len__(self) -> int:\n        return len(self._keys_impl())\n\n    def __contains__(self, key: K) -> bool:  # type: ignore[override]\n        for d in self.dicts:\n', '        return MultiDict(self)\n\n    def __len__(self) -> int:\n        keys = self._keys_impl()\n        return len(keys)\n\n    def __contains__(self, key: K) -> bool:  # type: ignore[override]\n        for d in self.dicts:\n')]},
    {"name": "fresh2:keys-from-lists", "edits": [(S, '        """This function exists so __len__ can be implemented more efficiently,\n        saving one list creation from an iterator.\n        """\n        return set(k for d in self.dicts for k in d)\n\n    def keys(self) -> cabc.Iterable[K]:  # type: ignore[override]\n        return self._keys_impl()\n', '        """This function exists so __len__ can be implemented more efficiently,\n        saving one list creation from an iterator.\n        """\n        return {key for key, _ in self.lists()}\n\n    def keys(self) -> cabc.Iterable[K]:  # type: ignore[override]\n        return self._keys_impl()\n')]},
    {"name": "fresh2:len-counts-iter-keys-set-self", "edits": [(S, '        return set(k for d in self.dicts for k in d)\n\n    def keys(self) -> cabc.Iterable[K]:  # type: ignore[override]\n        return self._keys_impl()\n\n    def __iter__(self) -> cabc.Iterator[K]:\n        return iter(self._keys_impl())\n', '        return set(k for d in self.dicts for k in d)\n\n    def keys(self) -> cabc.Iterable[K]:  # type: ignore[override]\n        return set(self)\n\n    def __iter__(self) -> cabc.Iterator[K]:\n        return iter(self._keys_impl())\n'), (S, '        return MultiDict(self)\n\n    def __len__(self) -> int:\n        return len(self._keys_impl())\n\n    def __contains__(self, key: K) -> bool:  # type: ignore[override]\n        for d in self.dicts:\n', '        return MultiDict(self)\n\n    def __len__(self) -> int:\n        return sum(1 for _ in self)\n\n    def __contains__(self, key: K) -> bool:  # type: ignore[override]\n        for d in self.dicts:\n')]},
    {"name": "fresh2:keys-while-next-walrus", "edits": [(S, '        """This function exists so __len__ can be implemented more efficiently,\n        saving one list creation from an iterator.\n        """\n        return set(k for d in self.dicts for k in d)\n\n    def keys(self) -> cabc.Iterable[K]:  # type: ignore[override]\n        return self._keys_impl()\n', '        """This function exists so __len__ can be implemented more efficiently,\n        saving one list creation from an iterator.\n        """\n        rv: set[K] = set()\n        remaining = iter(self.dicts)\n\n        while (d := next(remaining, None)) is not None:\n            rv |= set(d)\n\n        return rv\n\n    def keys(self) -> cabc.Iterable[K]:  # type: ignore[override]\n        return self._keys_impl()\n')]},
    {"name": "fresh2:keys-is-the-implementation", "edits": [(S, '        """This function exists so __len__ can be implemented more efficiently,\n        saving one list creation from an iterator.\n        """\n        return set(k for d in self.dicts for k in d)\n\n    def keys(self) -> cabc.Iterable[K]:  # type: ignore[override]\n        return self._keys_impl()\n\n    def __iter__(self) -> cabc.Iterator[K]:\n        return iter(self._keys_impl())\n\n    @t.overload  # type: ignore[override]\n    def items(self) -> cabc.Iterable[tuple[K, V]]: ...\n', '        """This function exists so __len__ can be implemented more efficiently,\n        saving one list creation from an iterator.\n        """\n        return self.keys()\n\n    def keys(self) -> set[K]:  # type: ignore[override]\n        return {k for d in self.dicts for k in d}\n\n    def __iter__(self) -> cabc.Iterator[K]:\n        return iter(self.keys())\n\n    @t.overload  # type: ignore[override]\n    def items(self) -> cabc.Iterable[tuple[K, V]]: ...\n'), (S, '        return MultiDict(self)\n\n    def __len__(self) -> int:\n        return len(self._keys_impl())\n\n    def __contains__(self, key: K) -> bool:  # type: ignore[override]\n        for d in self.dicts:\n', '        return MultiDict(self)\n\n    def __len__(self) -> int:\n        return len(self.keys())\n\n    def __contains__(self, key: K) -> bool:  # type: ignore[override]\n        for d in self.dicts:\n')]},
    {"name": "fresh2:keys-via-chainmap", "edits": [(S, '\nimport collections.abc as cabc\nimport typing as t\nfrom copy import deepcopy\n\nfrom .. import exceptions\n', '\nimport collections.abc as cabc\nimport typing as t\nfrom collections import ChainMap\nfrom copy import deepcopy\n\nfrom .. import exceptions\n'), (S, '        """This function exists so __len__ can be implemented more efficiently,\n        saving one list creation from an iterator.\n        """\n        return set(k for d in self.dicts for k in d)\n\n    def keys(self) -> cabc.Iterable[K]:  # type: ignore[override]\n        return self._keys_impl()\n', '        """This function exists so __len__ can be implemented more efficiently,\n        saving one list creation from an iterator.\n        """\n        return set(ChainMap(*self.dicts))\n\n    def keys(self) -> cabc.Iterable[K]:  # type: ignore[override]\n        return self._keys_impl()\n')]},
    {"name": "fresh2:find-index-helper", "edits": [(H, '\n        return self.__class__(self._list[key])\n\n    def _get_key(self, key: str) -> str:\n        ikey = key.lower()\n\n        for k, v in self._list:\n            if k.lower() == ikey:\n                return v\n\n        raise BadRequestKeyError(key)\n\n    def __eq__(self, other: object) -> bool:\n        if other.__class__ is not self.__class__:\n', '\n        return self.__class__(self._list[key])\n\n    def _find(self, key: str) -> int | None:\n        """Position of the first item stored under ``key``, if there is one."""\n        ikey = key.lower()\n\n        for idx, (k, _) in enumerate(self._list):\n            if k.lower() == ikey:\n                return idx\n\n        return None\n\n    def _get_key(self, key: str) -> str:\n        if (idx := self._find(key)) is None:\n            raise BadRequestKeyError(key)\n\n        return self._list[idx][1]\n\n    def __eq__(self, other: object) -> bool:\n        if other.__class__ is not self.__class__:\n'), (H, '        if isinstance(key, int):\n            return self._list.pop(key)\n\n        try:\n            rv = self._get_key(key)\n        except KeyError:\n            if default is not _missing:\n                return default\n\n            raise\n\n        self.remove(key)\n        return rv\n\n    def popitem(self) -> tuple[str, str]:\n        """Removes a key or index and returns a (key, value) item."""\n', '        if isinstance(key, int):\n            return self._list.pop(key)\n\n        if (idx := self._find(key)) is not None:\n            rv = self._list[idx][1]\n            self.remove(key)\n            return rv\n\n        if default is _missing:\n            raise BadRequestKeyError(key)\n\n        return default\n\n    def popitem(self) -> tuple[str, str]:\n        """Removes a key or index and returns a (key, value) item."""\n')]},
    {"name": "fresh2:iter-values-generator", "edits": [(H, '\n        return self.__class__(self._list[key])\n\n    def _get_key(self, key: str) -> str:\n        ikey = key.lower()\n\n        for k, v in self._list:\n            if k.lower() == ikey:\n                return v\n\n        raise BadRequestKeyError(key)\n\n', '\n        return self.__class__(self._list[key])\n\n    def _iter_values(self, key: str) -> cabc.Iterator[str]:\n        """Lazily yield the values of all items stored under ``key``."""\n        ikey = key.lower()\n\n        for k, v in self._list:\n            if k.lower() == ikey:\n                yield v\n\n    def _get_key(self, key: str) -> str:\n        for value in self._iter_values(key):\n            return value\n\n        raise BadRequestKeyError(key)\n\n'), (H, '        if isinstance(key, int):\n            return self._list.pop(key)\n\n        try:\n            rv = self._get_key(key)\n        except KeyError:\n            if default is not _missing:\n                return default\n\n            raise\n\n        self.remove(key)\n        return rv\n\n    def popitem(self) -> tuple[str, str]:\n        """Removes a key or index and returns a (key, value) item."""\n', '        if isinstance(key, int):\n            return self._list.pop(key)\n\n        found = list(self._iter_values(key))\n\n        if found:\n            self.remove(key)\n            return found[0]\n\n        if default is not _missing:\n            return default\n\n        raise BadRequestKeyError(key)\n\n    def popitem(self) -> tuple[str, str]:\n        """Removes a key or index and returns a (key, value) item."""\n')]},
    {"name": "fresh2:get-key-while-next-get-single-return", "edits": [(H, '\n    def _get_key(self, key: str) -> str:\n        ikey = key.lower()\n\n        for k, v in self._list:\n            if k.lower() == ikey:\n                return v\n\n', '\n    def _get_key(self, key: str) -> str:\n        ikey = key.lower()\n        items = iter(self._list)\n\n        while (item := next(items, None)) is not None:\n            k, v = item\n\n            if k.lower() == ikey:\n                return v\n\n'), (H, '        try:\n            rv = self._get_key(key)\n        except KeyError:\n            return default\n\n        if type is None:\n            return rv\n\n        try:\n            return type(rv)\n        except ValueError:\n            return default\n\n    @t.overload\n    def getlist(self, key: str) -> list[str]: ...\n', '        try:\n            rv = self._get_key(key)\n        except KeyError:\n            rv = default\n        else:\n            if type is not None:\n                try:\n                    rv = type(rv)\n                except ValueError:\n                    rv = default\n\n        return rv\n\n    @t.overload\n    def getlist(self, key: str) -> list[str]: ...\n')]},
    {"name": "fresh2:get-pop-contextlib-suppress", "edits": [(H, 'from __future__ import annotations\n\nimport collections.abc as cabc\nimport re\nimport typing as t\n\n', 'from __future__ import annotations\n\nimport collections.abc as cabc\nimport contextlib\nimport re\nimport typing as t\n\n'), (H, '        .. versionchanged:: 0.9\n            The ``as_bytes`` parameter was added.\n        """\n        try:\n            rv = self._get_key(key)\n        except KeyError:\n            return default\n\n        if type is None:\n            return rv\n\n        try:\n            return type(rv)\n        except ValueError:\n            return default\n\n    @t.overload\n    def getlist(self, key: str) -> list[str]: ...\n    @t.overload\n', '        .. versionchanged:: 0.9\n            The ``as_bytes`` parameter was added.\n        """\n        rv: t.Any = _missing\n\n        with contextlib.suppress(KeyError):\n            rv = self._get_key(key)\n\n        if rv is _missing:\n            return default\n\n        if type is not None:\n            with contextlib.suppress(ValueError):\n                return type(rv)\n\n            return default\n\n        return rv  # type: ignore[no-any-return]\n\n    @t.overload\n    def getlist(self, key: str) -> list[str]: ...\n    @t.overload\n'), (H, '        if isinstance(key, int):\n            return self._list.pop(key)\n\n        try:\n            rv = self._get_key(key)\n        except KeyError:\n            if default is not _missing:\n                return default\n\n            raise\n\n        self.remove(key)\n        return rv\n\n    def popitem(self) -> tuple[str, str]:\n        """Removes a key or index and returns a (key, value) item."""\n', '        if isinstance(key, int):\n            return self._list.pop(key)\n\n        rv: t.Any = _missing\n\n        with contextlib.suppress(KeyError):\n            rv = self._get_key(key)\n\n        if rv is not _missing:\n            self.remove(key)\n            return rv  # type: ignore[no-any-return]\n\n        if default is _missing:\n            raise BadRequestKeyError(key)\n\n        return default\n\n    def popitem(self) -> tuple[str, str]:\n        """Removes a key or index and returns a (key, value) item."""\n')]},
    {"name": "fresh2:lookup-with-fallback-helper", "edits": [(H, '\n        raise BadRequestKeyError(key)\n\n    def __eq__(self, other: object) -> bool:\n        if other.__class__ is not self.__class__:\n            return NotImplemented\n', '\n        raise BadRequestKeyError(key)\n\n    def _lookup(self, key: str, fallback: t.Any = None) -> t.Any:\n        """Like :meth:`_get_key`, but hand back ``fallback`` for a missing key."""\n        try:\n            return self._get_key(key)\n        except KeyError:\n            return fallback\n\n    def __eq__(self, other: object) -> bool:\n        if other.__class__ is not self.__class__:\n            return NotImplemented\n'), (H, '        .. versionchanged:: 0.9\n            The ``as_bytes`` parameter was added.\n        """\n        try:\n            rv = self._get_key(key)\n        except KeyError:\n            return default\n\n        if type is None:\n            return rv\n\n        try:\n            return type(rv)\n', '        .. versionchanged:: 0.9\n            The ``as_bytes`` parameter was added.\n        """\n        rv = self._lookup(key, fallback=_missing)\n\n        if rv is _missing:\n            return default\n\n        if type is None:\n            return rv  # type: ignore[no-any-return]\n\n        try:\n            return type(rv)\n'), (H, '        if isinstance(key, int):\n            return self._list.pop(key)\n\n        try:\n            rv = self._get_key(key)\n        except KeyError:\n            if default is not _missing:\n                return default\n\n            raise\n\n        self.remove(key)\n        return rv\n\n    def popitem(self) -> tuple[str, str]:\n        """Removes a key or index and returns a (key, value) item."""\n', '        if isinstance(key, int):\n            return self._list.pop(key)\n\n        rv = self._lookup(key, fallback=_missing)\n\n        if rv is _missing:\n            if default is _missing:\n                raise BadRequestKeyError(key)\n\n            return default\n\n        self.remove(key)\n        return rv  # type: ignore[no-any-return]\n\n    def popitem(self) -> tuple[str, str]:\n        """Removes a key or index and returns a (key, value) item."""\n')]},
    {"name": "fresh2:del-key-by-index-pop-merged-positional", "edits": [(H, '\n    def _del_key(self, key: str) -> None:\n        key = key.lower()\n        new = []\n\n        for k, v in self._list:\n            if k.lower() != key:\n                new.append((k, v))\n\n        self._list[:] = new\n\n    def remove(self, key: str) -> None:\n        """Remove a key.\n', '\n    def _del_key(self, key: str) -> None:\n        key = key.lower()\n        doomed = [idx for idx, (k, _) in enumerate(self._list) if k.lower() == key]\n\n        # Delete from the back so that the remaining positions stay valid.\n        for idx in reversed(doomed):\n            del self._list[idx]\n\n    def remove(self, key: str) -> None:\n        """Remove a key.\n'), (H, '                    item is removed.\n        :return: an item.\n        """\n        if key is None:\n            return self._list.pop()\n\n        if isinstance(key, int):\n            return self._list.pop(key)\n\n        try:\n            rv = self._get_key(key)\n        except KeyError:\n            if default is not _missing:\n                return default\n\n            raise\n\n        self.remove(key)\n        return rv\n', '                    item is removed.\n        :return: an item.\n        """\n        if key is None or isinstance(key, int):\n            return self._list.pop(-1 if key is None else key)\n\n        try:\n            rv = self._get_key(key)\n        except KeyError:\n            if default is _missing:\n                raise\n\n            return default\n\n        self.remove(key)\n        return rv\n')]},
    {"name": "fresh2:getitem-hoisted-subscript-get-key-filter", "edits": [(H, '        if isinstance(key, str):\n            return self._get_key(key)\n\n        if isinstance(key, int):\n            return self._list[key]\n\n        return self.__class__(self._list[key])\n\n    def _get_key(self, key: str) -> str:\n        ikey = key.lower()\n\n        for k, v in self._list:\n            if k.lower() == ikey:\n                return v\n\n        raise BadRequestKeyError(key)\n\n', '        if isinstance(key, str):\n            return self._get_key(key)\n\n        selected = self._list[key]\n        return selected if isinstance(key, int) else self.__class__(selected)\n\n    def _get_key(self, key: str) -> str:\n        ikey = key.lower()\n\n        def is_match(item: tuple[str, str]) -> bool:\n            return item[0].lower() == ikey\n\n        for _, value in filter(is_match, self._list):\n            return value\n\n        raise BadRequestKeyError(key)\n\n')]},
]


def _derive7(twin_name, repl):
    tw = next(t for t in ROUND7_TWINS if t["name"] == twin_name)
    out = []
    hit = 0
    for rel, old, new in tw["edits"]:
        for a, b in repl:
            if a in new:
                assert new.count(a) == 1, (twin_name, a)
                new = new.replace(a, b)
                hit += 1
        out.append((rel, old, new))
    assert hit == len(repl), (twin_name, hit)
    return out


ROUND7_MUTANTS += [
    {"name": "shape:find-index-helper-keeps-last-hit", "expect": "R8.12", "edits": _derive7("fresh2:find-index-helper", [("        for idx, (k, _) in enumerate(self._list):", "        for idx, (k, _) in reversed(list(enumerate(self._list))):")])},
    {"name": "shape:values-generator-last-of-list", "expect": "R8.12", "edits": _derive7("fresh2:iter-values-generator", [("            return found[0]", "            return found[-1]")])},
    {"name": "shape:del-key-by-index-forwards", "expect": "R8.12", "edits": _derive7("fresh2:del-key-by-index-pop-merged-positional", [("        for idx in reversed(doomed):", "        for idx in doomed:")])},
    {"name": "shape:walrus-walk-drops-the-first-dict", "expect": "R8.11", "edits": _derive7("fresh2:keys-while-next-walrus", [("        remaining = iter(self.dicts)\n", "        remaining = iter(self.dicts)\n        next(remaining, None)\n")])},
    {"name": "shape:chainmap-without-the-last-dict", "expect": "R8.11", "edits": _derive7("fresh2:keys-via-chainmap", [("ChainMap(*self.dicts)", "ChainMap(*self.dicts[:-1])")])},
    {"name": "shape:len-counts-iter-that-repeats", "expect": "R8.11", "edits": _derive7("fresh2:len-counts-iter-keys-set-self", [("sum(1 for _ in self)", "sum(1 for d in self.dicts for _ in d)")])},
    {"name": "shape:fallback-helper-ignores-fallback", "expect": "R8.12", "edits": _derive7("fresh2:lookup-with-fallback-helper", [("            return fallback", "            return None")])},
]
_KI_DEF7 = "    def _keys_impl(self) -> set[K]:\n"
ROUND7_TWINS += [
    {"name": "own2:len-union-of-key-views-starred-genexp", "edits": [(S, '        return len(self._keys_impl())', '        return len(set().union(*(d.keys() for d in self.dicts)))')]},
    {"name": "own2:keys-set-display-of-chain", "edits": [(S, 'from copy import deepcopy\n', 'from copy import deepcopy\nfrom itertools import chain\n'), (S, '        return set(k for d in self.dicts for k in d)', '        return {*chain(*self.dicts)}')]},
    {"name": "own2:iter-dict-fromkeys", "edits": [(S, '        return iter(self._keys_impl())', '        return iter(dict.fromkeys(k for d in self.dicts for k in d))')]},
    {"name": "own2:keys-static-helper-ior-views", "edits": [(S, '    def _keys_impl(self) -> set[K]:\n', '    @staticmethod\n    def _union(dicts: t.Any) -> set[t.Any]:\n        out: set[t.Any] = set()\n        for d in dicts:\n            out |= d.keys()\n        return out\n\n    def _keys_impl(self) -> set[K]:\n'), (S, '        return set(k for d in self.dicts for k in d)', '        return self._union(self.dicts)')]},
    {"name": "own2:keys-nested-function", "edits": [(S, '        return set(k for d in self.dicts for k in d)', '        def every_key() -> t.Iterator[K]:\n            for d in self.dicts:\n                yield from d\n\n        return set(every_key())')]},
    {"name": "own2:len-of-lists-dict", "edits": [(S, '        return len(self._keys_impl())', '        return len(dict(self.lists()))')]},
    {"name": "own2:len-of-listvalues", "edits": [(S, '        return len(self._keys_impl())', '        return len(list(self.listvalues()))')]},
    {"name": "own2:len-of-values", "edits": [(S, '        return len(self._keys_impl())', '        return len(list(self.values()))')]},
    {"name": "own2:get-key-lambda-predicate-next", "edits": [(H, '        ikey = key.lower()\n\n        for k, v in self._list:\n            if k.lower() == ikey:\n                return v\n\n        raise BadRequestKeyError(key)', '        ikey = key.lower()\n        matches = lambda item: item[0].lower() == ikey  # noqa: E731\n        hit = next(filter(matches, self._list), None)\n\n        if hit is None:\n            raise BadRequestKeyError(key)\n\n        return hit[1]')]},
    {"name": "own2:get-key-zip-columns", "edits": [(H, '        ikey = key.lower()\n\n        for k, v in self._list:\n            if k.lower() == ikey:\n                return v\n\n        raise BadRequestKeyError(key)', '        if not self._list:\n            raise BadRequestKeyError(key)\n\n        names, values = zip(*self._list)\n        lowered = [n.lower() for n in names]\n        ikey = key.lower()\n\n        if ikey not in lowered:\n            raise BadRequestKeyError(key)\n\n        return values[lowered.index(ikey)]')]},
    {"name": "own2:get-or-default-expression", "edits": [(H, '        try:\n            rv = self._get_key(key)\n        except KeyError:\n            return default\n\n        if type is None:\n            return rv\n', '        rv = self._get_key(key) if key in self else _missing\n\n        if rv is _missing:\n            return default\n\n        if type is None:\n            return rv\n')]},
    {"name": "own2:pop-while-index-removal", "edits": [(H, '        try:\n            rv = self._get_key(key)\n        except KeyError:\n            if default is not _missing:\n                return default\n\n            raise\n\n        self.remove(key)\n        return rv', '        ikey = key.lower()\n        rv = _missing\n        i = 0\n\n        while i < len(self._list):\n            k, v = self._list[i]\n            if k.lower() == ikey:\n                if rv is _missing:\n                    rv = v\n                del self._list[i]\n            else:\n                i += 1\n\n        if rv is not _missing:\n            return rv\n        if default is not _missing:\n            return default\n        raise BadRequestKeyError(key)')]},
    {"name": "own2:pop-live-iteration-over-copy-remove-by-value", "edits": [(H, '        try:\n            rv = self._get_key(key)\n        except KeyError:\n            if default is not _missing:\n                return default\n\n            raise\n\n        self.remove(key)\n        return rv', '        rv = self.get(key, _missing)\n\n        if rv is _missing:\n            if default is _missing:\n                raise BadRequestKeyError(key)\n            return default\n\n        ikey = key.lower()\n        for item in self._list[:]:\n            if item[0].lower() == ikey:\n                self._list.remove(item)\n        return rv')]},
    {"name": "own2:pop-new-list-attribute", "edits": [(H, '        try:\n            rv = self._get_key(key)\n        except KeyError:\n            if default is not _missing:\n                return default\n\n            raise\n\n        self.remove(key)\n        return rv', '        try:\n            rv = self._get_key(key)\n        except KeyError:\n            if default is not _missing:\n                return default\n\n            raise\n\n        ikey = key.lower()\n        self._list = [item for item in self._list if item[0].lower() != ikey]\n        return rv')]},
]
ROUND7_MUTANTS += [
    {"name": "shape:pop-live-iteration-remove-skips", "expect": "R8.12", "edits": [(H, '        try:\n            rv = self._get_key(key)\n        except KeyError:\n            if default is not _missing:\n                return default\n\n            raise\n\n        self.remove(key)\n        return rv', '        rv = self.get(key, _missing)\n\n        if rv is _missing:\n            if default is _missing:\n                raise BadRequestKeyError(key)\n            return default\n\n        ikey = key.lower()\n        for i, item in enumerate(self._list):\n            if item[0].lower() == ikey:\n                del self._list[i]\n        return rv')]},
    {"name": "shape:len-of-multi-values", "expect": "R8.11", "edits": [(S, '        return len(self._keys_impl())', '        return len([v for vs in self.listvalues() for v in vs])')]},
]
TWINS = TWINS + ROUND7_TWINS
MUTANTS = MUTANTS + ROUND7_MUTANTS


# ---------------------------------------------------------------------------------------------------------------------
# round 8: a scan of the wrapped dicts split into a prefix and its complement (first, *rest = self.dicts / self.dicts[0]
# + self.dicts[1:] / two halves / the parts joined again), both read in list order = the full ordered scan (R8.7); and
# the splits that are not: a dict dropped, the rest reversed, the rest read first
_SP_GETITEM = "        for d in self.dicts:\n            if key in d:\n                return d[key]\n        raise exceptions.BadRequestKeyError(key)"
_SP_CONTAINS = "        for d in self.dicts:\n            if key in d:\n                return True\n        return False"
_SP_GETLIST = "        rv = []\n        for d in self.dicts:\n            rv.extend(d.getlist(key, type))  # type: ignore[arg-type]\n        return rv"
_SP_KEYS_IMPL = "        return set(k for d in self.dicts for k in d)"
_SP_ITER = "        return iter(self._keys_impl())"
_SP_LEN = "        return len(self._keys_impl())"
_SP_GET_HEAD = "        for d in self.dicts:\n            if key in d:\n                if type is not None:\n                    try:\n                        return type(d[key])"

SPLIT_TWINS = [
    {"name": "split:getitem-unpack-first-star-rest", "edits": [(S, _SP_GETITEM,
        "        if not self.dicts:\n            raise exceptions.BadRequestKeyError(key)\n        first, *rest = self.dicts\n        if key in first:\n            return first[key]\n        for d in rest:\n            if key in d:\n                return d[key]\n        raise exceptions.BadRequestKeyError(key)")]},
    {"name": "split:contains-head-index-then-tail-slice", "edits": [(S, _SP_CONTAINS,
        "        if not self.dicts:\n            return False\n        head = self.dicts[0]\n        if key in head:\n            return True\n        for d in self.dicts[1:]:\n            if key in d:\n                return True\n        return False")]},
    {"name": "split:getitem-iterator-next-then-for", "edits": [(S, _SP_GETITEM,
        "        it = iter(self.dicts)\n        first = next(it, None)\n        if first is None:\n            raise exceptions.BadRequestKeyError(key)\n        if key in first:\n            return first[key]\n        for d in it:\n            if key in d:\n                return d[key]\n        raise exceptions.BadRequestKeyError(key)")]},
    {"name": "split:getlist-first-result-extended-by-rest", "edits": [(S, _SP_GETLIST,
        "        if not self.dicts:\n            return []\n        first, *rest = self.dicts\n        rv = list(first.getlist(key, type))  # type: ignore[arg-type]\n        for d in rest:\n            rv.extend(d.getlist(key, type))  # type: ignore[arg-type]\n        return rv")]},
    {"name": "split:keys-impl-head-slice-then-tail-update", "edits": [(S, _SP_KEYS_IMPL,
        "        head, tail = self.dicts[:1], self.dicts[1:]\n        keys = set(k for d in head for k in d)\n        for d in tail:\n            keys.update(d)\n        return keys")]},
    {"name": "split:iter-iterator-seeded-with-first", "edits": [(S, _SP_ITER,
        "        it = iter(self.dicts)\n        seen = set(next(it, ()))\n        for d in it:\n            seen.update(d)\n        return iter(seen)")]},
    {"name": "split:len-first-keys-then-union-of-rest", "edits": [(S, _SP_LEN,
        "        keys = set(self.dicts[0]) if self.dicts else set()\n        for d in self.dicts[1:]:\n            keys |= d.keys()\n        return len(keys)")]},
    {"name": "split:get-scans-prefix-plus-complement", "edits": [(S, _SP_GET_HEAD,
        "        first, rest = self.dicts[:1], self.dicts[1:]\n        for d in first + rest:\n            if key in d:\n                if type is not None:\n                    try:\n                        return type(d[key])")]},
    {"name": "split:contains-any-of-head-or-any-of-tail", "edits": [(S, _SP_CONTAINS,
        "        dicts = self.dicts\n        return any(key in d for d in dicts[:1]) or any(key in d for d in dicts[1:])")]},
    {"name": "split:getitem-two-halves", "edits": [(S, _SP_GETITEM,
        "        mid = len(self.dicts) // 2\n        for d in self.dicts[:mid]:\n            if key in d:\n                return d[key]\n        for d in self.dicts[mid:]:\n            if key in d:\n                return d[key]\n        raise exceptions.BadRequestKeyError(key)")]},
    {"name": "split:getlist-head-index-tail-slice-alias", "edits": [(S, _SP_GETLIST,
        "        wrapped = self.dicts\n        if not wrapped:\n            return []\n        rv = list(wrapped[0].getlist(key, type))  # type: ignore[arg-type]\n        for d in wrapped[1:]:\n            rv += d.getlist(key, type)  # type: ignore[arg-type]\n        return rv")]},
]

def _derive_split(name, repl):
    tw = next(t for t in SPLIT_TWINS if t["name"] == name)
    out = []; hit = 0
    for rel, old, new in tw["edits"]:
        for a, b in repl:
            if a in new:
                assert new.count(a) == 1, (name, a)
                new = new.replace(a, b); hit += 1
        out.append((rel, old, new))
    assert hit == len(repl), (name, hit)
    return out

SPLIT_MUTANTS = [
    {"name": "split:tail-slice-skips-second-dict", "expect": "R8.7", "edits": _derive_split("split:contains-head-index-then-tail-slice", [("in self.dicts[1:]:", "in self.dicts[2:]:")])},
    {"name": "split:rest-reversed", "expect": "R8.7", "edits": _derive_split("split:getitem-unpack-first-star-rest", [("        for d in rest:", "        for d in reversed(rest):")])},
    {"name": "split:rest-read-before-first", "expect": "R8.7", "edits": [(S, _SP_GETITEM,
        "        if not self.dicts:\n            raise exceptions.BadRequestKeyError(key)\n        first, *rest = self.dicts\n        for d in rest:\n            if key in d:\n                return d[key]\n        if key in first:\n            return first[key]\n        raise exceptions.BadRequestKeyError(key)")]},
    {"name": "split:tail-slice-read-before-head", "expect": "R8.7", "edits": _derive_split("split:get-scans-prefix-plus-complement", [("in first + rest:", "in rest + first:")])},
    {"name": "split:halves-leave-a-gap", "expect": "R8.7", "edits": _derive_split("split:getitem-two-halves", [("in self.dicts[mid:]:", "in self.dicts[mid + 1:]:")])},
    {"name": "split:getlist-rest-only", "expect": "R8.7", "edits": _derive_split("split:getlist-first-result-extended-by-rest", [("        rv = list(first.getlist(key, type))  # type: ignore[arg-type]\n", "        rv = []\n")])},
    {"name": "split:keys-tail-from-two", "expect": "R8.7", "edits": _derive_split("split:keys-impl-head-slice-then-tail-update", [("self.dicts[:1], self.dicts[1:]", "self.dicts[:1], self.dicts[2:]")])},
    {"name": "split:len-first-dict-dropped", "expect": "R8.7", "edits": _derive_split("split:len-first-keys-then-union-of-rest", [("set(self.dicts[0]) if self.dicts else set()", "set()")])},
    {"name": "split:any-of-tail-only-after-last", "expect": "R8.7", "edits": _derive_split("split:contains-any-of-head-or-any-of-tail", [("dicts[:1]) or any", "dicts[-1:]) or any")])},
]
TWINS = TWINS + SPLIT_TWINS
MUTANTS = MUTANTS + SPLIT_MUTANTS
# the same, further spellings: three parts, parts joined by unpacking into a display, bound by an index local
SPLIT2_TWINS = [
    {'name': 'split:contains-unpack-first-rest', 'edits': [(S, '        for d in self.dicts:\n            if key in d:\n                return True\n        return False', '        if not self.dicts:\n            return False\n        first, *rest = self.dicts\n        if key in first:\n            return True\n        for d in rest:\n            if key in d:\n                return True\n        return False')]},
    {'name': 'split:getlist-three-parts', 'edits': [(S, '        rv = []\n        for d in self.dicts:\n            rv.extend(d.getlist(key, type))  # type: ignore[arg-type]\n        return rv', '        dicts = self.dicts\n        rv = []\n        for d in dicts[:1]:\n            rv.extend(d.getlist(key, type))\n        for d in dicts[1:2]:\n            rv.extend(d.getlist(key, type))\n        for d in dicts[2:]:\n            rv.extend(d.getlist(key, type))\n        return rv')]},
    {'name': 'split:keys-union-star-parts', 'edits': [(S, '        return set(k for d in self.dicts for k in d)', '        return set().union(*self.dicts[:1], *self.dicts[1:])')]},
    {'name': 'split:getitem-star-join', 'edits': [(S, '        for d in self.dicts:\n            if key in d:\n                return d[key]\n        raise exceptions.BadRequestKeyError(key)', '        first, rest = self.dicts[:1], self.dicts[1:]\n        for d in [*first, *rest]:\n            if key in d:\n                return d[key]\n        raise exceptions.BadRequestKeyError(key)')]},
    {'name': 'split:len-index-var', 'edits': [(S, '        return len(self._keys_impl())', '        n = 1\n        keys = set()\n        for d in self.dicts[:n]:\n            keys.update(d)\n        for d in self.dicts[n:]:\n            keys.update(d)\n        return len(keys)')]},
]
SPLIT2_MUTANTS = [
    {'name': 'split:three-parts-overlap-gap', 'expect': 'R8.7', 'edits': [(S, '        rv = []\n        for d in self.dicts:\n            rv.extend(d.getlist(key, type))  # type: ignore[arg-type]\n        return rv', '        dicts = self.dicts\n        rv = []\n        for d in dicts[:1]:\n            rv.extend(d.getlist(key, type))\n        for d in dicts[1:3]:\n            rv.extend(d.getlist(key, type))\n        for d in dicts[2:]:\n            rv.extend(d.getlist(key, type))\n        return rv')]},
    {'name': 'split:union-star-parts-gap', 'expect': 'R8.7', 'edits': [(S, '        return set(k for d in self.dicts for k in d)', '        return set().union(*self.dicts[:1], *self.dicts[2:])')]},
    {'name': 'split:star-join-swapped', 'expect': 'R8.7', 'edits': [(S, '        for d in self.dicts:\n            if key in d:\n                return d[key]\n        raise exceptions.BadRequestKeyError(key)', '        first, rest = self.dicts[:1], self.dicts[1:]\n        for d in [*rest, *first]:\n            if key in d:\n                return d[key]\n        raise exceptions.BadRequestKeyError(key)')]},
    {'name': 'split:contains-first-only-early-false', 'expect': 'R8.7', 'edits': [(S, '        for d in self.dicts:\n            if key in d:\n                return True\n        return False', '        if not self.dicts:\n            return False\n        first, *rest = self.dicts\n        if key not in first:\n            return False\n        for d in rest:\n            if key in d:\n                return True\n        return True')]},
]
TWINS = TWINS + SPLIT2_TWINS
MUTANTS = MUTANTS + SPLIT2_MUTANTS
