"""self-validation battery for C01."""
M = "sansio/multipart.py"
F = "formparser.py"

_PREAMBLE_BRANCH = '''        if self.state == State.PREAMBLE:
            match = self.preamble_re.search(self.buffer, self._search_position)
            if match is not None:
                if match.group(1).startswith(b"--"):
                    self.state = State.EPILOGUE
                else:
                    self.state = State.PART
                data = bytes(self.buffer[: match.start()])
                del self.buffer[: match.end()]
                event = Preamble(data=data)
                self._search_position = 0
            else:
                # Update the search start position to be equal to the
                # current buffer length (already searched) minus a
                # safe buffer for part of the search target.
                self._search_position = max(
                    0, len(self.buffer) - len(self.boundary) - SEARCH_EXTRA_LENGTH
                )
'''
_PREAMBLE_CALL = '''        if self.state == State.PREAMBLE:
            event = self._preamble_event()
'''
_PREAMBLE_METHOD = '''    def _preamble_event(self) -> Event:
        found = self.preamble_re.search(self.buffer, self._search_position)
        if found is None:
            keep = len(self.boundary) + SEARCH_EXTRA_LENGTH
            self._search_position = max(0, len(self.buffer) - keep)
            return NEED_DATA
        self._search_position = 0
        self.state = (
            State.EPILOGUE if found.group(1).startswith(b"--") else State.PART
        )
        head = bytes(self.buffer[: found.start()])
        del self.buffer[: found.end()]
        return Preamble(data=head)

    def _parse_headers(self, data: bytes) -> Headers:'''
_PREAMBLE_METHOD_PLAIN = '''    def _preamble_event(self) -> Event:
        found = self.preamble_re.search(self.buffer, self._search_position)
        if found is None:
            keep = len(self.boundary) + SEARCH_EXTRA_LENGTH
            self._search_position = max(0, len(self.buffer) - keep)
            return NEED_DATA
        self._search_position = 0
        if found.group(1).startswith(b"--"):
            self.state = State.EPILOGUE
        else:
            self.state = State.PART
        head = bytes(self.buffer[: found.start()])
        del self.buffer[: found.end()]
        return Preamble(data=head)

    def _parse_headers(self, data: bytes) -> Headers:'''

_FLUSH_A = '''            if (len(data) - data_end) > len(b"\\n" + boundary):
                data_end = del_index = len(data)
'''
_HOLD_B = '''            else:
                data_end = del_index = self.last_newline(data[data_start:]) + data_start
            more_data = match is None
'''

_SPLIT_TAIL = '        boundary = b"--" + self.boundary\n\n        if self.buffer.find(boundary) == -1:\n            # No complete boundary in the buffer, but there may be\n            # a partial boundary at the end. As the boundary\n            # starts with either a nl or cr find the earliest and\n            # return up to that as data.\n            data_end = del_index = self.last_newline(data[data_start:]) + data_start\n            # If amount of data after last newline is far from\n            # possible length of partial boundary, we should\n            # assume that there is no partial boundary in the buffer\n            # and return all pending data.\n            if (len(data) - data_end) > len(b"\\n" + boundary):\n                data_end = del_index = len(data)\n            more_data = True\n        else:\n            match = self.boundary_re.search(data)\n            if match is not None:\n                if match.group(1).startswith(b"--"):\n                    self.state = State.EPILOGUE\n                else:\n                    self.state = State.PART\n                data_end = match.start()\n                del_index = match.end()\n            else:\n                data_end = del_index = self.last_newline(data[data_start:]) + data_start\n            more_data = match is None\n\n        return bytes(data[data_start:data_end]), del_index, more_data\n\n\n'
_SPLIT_TAIL_EARLY_RETURNS = '        boundary = b"--" + self.boundary\n\n        if self.buffer.find(boundary) == -1:\n            hold = self.last_newline(data[data_start:]) + data_start\n            if len(data) - hold > len(b"\\n" + boundary):\n                return bytes(data[data_start:]), len(data), True\n            return bytes(data[data_start:hold]), hold, True\n        found = self.boundary_re.search(data)\n        if found is None:\n            hold = self.last_newline(data[data_start:]) + data_start\n            return bytes(data[data_start:hold]), hold, True\n        if found.group(1).startswith(b"--"):\n            self.state = State.EPILOGUE\n        else:\n            self.state = State.PART\n        return bytes(data[data_start : found.start()]), found.end(), False\n\n\n'

# a failed search stores its window through a small helper that takes the tail length
_WINDOW_PREAMBLE = """                self._search_position = max(
                    0, len(self.buffer) - len(self.boundary) - SEARCH_EXTRA_LENGTH
                )
"""
_WINDOW_PART = "                self._search_position = max(0, len(self.buffer) - SEARCH_EXTRA_LENGTH)\n"
_TAIL_HELPER = """    def _keep_tail(self, keep: int) -> None:
        self._search_position = max(0, len(self.buffer) - keep)

    def _parse_headers(self, data: bytes) -> Headers:"""
# ... or the position itself
_POS_HELPER = """    def _resume_at(self, position: int) -> None:
        self._search_position = max(0, position)

    def _parse_headers(self, data: bytes) -> Headers:"""
_ANCHOR = """        try:
            last_nl = data.rindex(b"\\n")
        except ValueError:
            last_nl = len(data)
        try:
            last_cr = data.rindex(b"\\r")
        except ValueError:
            last_cr = len(data)

        return min(last_nl, last_cr)
"""
_ANCHOR_RFIND_IFEXP = """        end = len(data)
        last_nl = at if (at := data.rfind(b"\\n")) >= 0 else end
        at = data.rfind(b"\\r")
        return min(last_nl, end if at < 0 else at)
"""
_ANCHOR_RFIND_EARLY = """        nl, cr = data.rfind(b"\\n"), data.rfind(b"\\r")
        if nl == -1:
            nl = len(data)
        if cr != -1:
            return min(cr, nl)
        return min(nl, len(data))
"""
_CHUNK_LOOP = "    while True:\n        data = read(size)\n\n        if not data:\n            break\n\n        yield data\n"
_HOLD_A = "            data_end = del_index = self.last_newline(data[data_start:]) + data_start\n            # If amount of data"

MUTANTS = [
    # R1.1 ------------------------------------------------------------------
    {"name": "search-extra-length-2", "expect": "R1.1", "edits": [(M, "SEARCH_EXTRA_LENGTH = 8", "SEARCH_EXTRA_LENGTH = 2")]},
    {"name": "preamble-window-forgets-boundary-length", "expect": "R1.1", "edits": [
        (M, "0, len(self.buffer) - len(self.boundary) - SEARCH_EXTRA_LENGTH", "0, len(self.buffer) - SEARCH_EXTRA_LENGTH")]},
    {"name": "preamble-window-parenthesis-slip", "expect": "R1.1", "edits": [
        (M, "0, len(self.buffer) - len(self.boundary) - SEARCH_EXTRA_LENGTH", "0, len(self.buffer) - (len(self.boundary) - SEARCH_EXTRA_LENGTH)")]},
    # R1.2 ------------------------------------------------------------------
    {"name": "no-reset-after-preamble", "expect": "R1.2", "edits": [
        (M, "                event = Preamble(data=data)\n                self._search_position = 0\n", "                event = Preamble(data=data)\n")]},
    {"name": "no-reset-after-headers", "expect": "R1.2", "edits": [
        (M, "                self.state = State.DATA_START\n                self._search_position = 0\n", "                self.state = State.DATA_START\n")]},
    {"name": "reset-only-when-epilogue-follows", "expect": "R1.2", "edits": [
        (M, "                    self.state = State.EPILOGUE\n                else:\n                    self.state = State.PART\n                data = bytes(self.buffer[: match.start()])",
            "                    self.state = State.EPILOGUE\n                    self._search_position = 0\n                else:\n                    self.state = State.PART\n                data = bytes(self.buffer[: match.start()])"),
        (M, "                event = Preamble(data=data)\n                self._search_position = 0\n", "                event = Preamble(data=data)\n")]},
    {"name": "data-state-records-a-window", "expect": "R1.2", "edits": [
        (M, "            del self.buffer[:del_index]\n            if data or not more_data:\n                event = Data(data=data, more_data=more_data)\n",
            "            del self.buffer[:del_index]\n            if data or not more_data:\n                event = Data(data=data, more_data=more_data)\n            else:\n                match = self.boundary_re.search(self.buffer, self._search_position)\n                self._search_position = max(0, len(self.buffer) - len(self.boundary) - SEARCH_EXTRA_LENGTH)\n")]},
    # R1.3 ------------------------------------------------------------------
    {"name": "one-event-per-chunk", "expect": "R1.3", "edits": [
        (F, "            while not isinstance(event, (Epilogue, NeedData)):", "            if not isinstance(event, (Epilogue, NeedData)):")]},
    {"name": "drain-stops-at-non-terminal-event", "expect": "R1.3", "edits": [
        (F, "            while not isinstance(event, (Epilogue, NeedData)):", "            while not isinstance(event, (Epilogue, NeedData, Preamble)):"),
        (F, "from .sansio.multipart import NeedData\n", "from .sansio.multipart import NeedData\nfrom .sansio.multipart import Preamble\n")]},
    {"name": "short-read-ends-input", "expect": "R1.3", "edits": [
        (F, "        if not data:\n            break\n\n        yield data\n", "        yield data\n\n        if len(data) < size:\n            break\n")]},
    {"name": "no-end-signal", "expect": "R1.3", "edits": [(F, "        yield data\n\n    yield None\n", "        yield data\n")]},
    {"name": "chunk-stripped-before-feeding", "expect": "R1.3", "edits": [(F, "        yield data\n\n    yield None\n", "        yield data.rstrip(b\"\\r\\n\")\n\n    yield None\n")]},
    # R1.4 ------------------------------------------------------------------
    {"name": "flush-threshold-without-line-break", "expect": "R1.4", "edits": [(M, 'if (len(data) - data_end) > len(b"\\n" + boundary):', "if (len(data) - data_end) > len(boundary):")]},
    {"name": "flush-threshold-inclusive", "expect": "R1.4", "edits": [(M, 'if (len(data) - data_end) > len(b"\\n" + boundary):', 'if (len(data) - data_end) >= len(b"\\n" + boundary):')]},
    {"name": "flush-whenever-something-is-pending", "expect": "R1.4", "edits": [(M, 'if (len(data) - data_end) > len(b"\\n" + boundary):', "if len(data) > data_end:")]},
    {"name": "flush-copied-to-lookalike-branch", "expect": "R1.4", "edits": [
        (M, _HOLD_B, '''            else:
                data_end = del_index = self.last_newline(data[data_start:]) + data_start
                if (len(data) - data_end) > len(b"\\n" + boundary):
                    data_end = del_index = len(data)
            more_data = match is None
''')]},
    {"name": "delete-whole-buffer-keep-payload-end", "expect": "R1.4", "edits": [
        (M, "            more_data = True\n", "            del_index = len(data)\n            more_data = True\n")]},
    # R1.5 ------------------------------------------------------------------
    {"name": "flush-in-lookalike-branch-wide-enough-but-same-anchor", "expect": "R1.5", "edits": [
        (M, _HOLD_B, '''            else:
                data_end = del_index = self.last_newline(data[data_start:]) + data_start
                if (len(data) - data_end) > len(b"\\r\\n" + boundary + b"--"):
                    data_end = del_index = len(data)
            more_data = match is None
''')]},
    # R1.6 ------------------------------------------------------------------
    {"name": "first-call-releases-up-to-last-line-break-without-looking", "expect": "R1.6", "edits": [
        (M, '        boundary = b"--" + self.boundary\n\n        if self.buffer.find(boundary) == -1:',
            '        if start:\n            held = self.last_newline(data[data_start:]) + data_start\n            return bytes(data[data_start:held]), held, True\n\n        boundary = b"--" + self.boundary\n\n        if self.buffer.find(boundary) == -1:')]},
    # generalised shapes still catch the defect ---------------------------------
    {"name": "window-through-helper-too-short-for-blank-line", "expect": "R1.1", "edits": [
        (M, _WINDOW_PREAMBLE, "                self._keep_tail(len(self.boundary) + SEARCH_EXTRA_LENGTH)\n"),
        (M, _WINDOW_PART, "                self._keep_tail(2)\n"),
        (M, "    def _parse_headers(self, data: bytes) -> Headers:", _TAIL_HELPER)]},
    {"name": "position-through-helper-forgets-boundary-length", "expect": "R1.1", "edits": [
        (M, _WINDOW_PREAMBLE, "                self._resume_at(len(self.buffer) - SEARCH_EXTRA_LENGTH)\n"),
        (M, _WINDOW_PART, "                self._resume_at(len(self.buffer) - SEARCH_EXTRA_LENGTH)\n"),
        (M, "    def _parse_headers(self, data: bytes) -> Headers:", _POS_HELPER)]},
    {"name": "walrus-reader-short-read-ends-input", "expect": "R1.3", "edits": [
        (F, _CHUNK_LOOP, "    while data := read(size):\n        yield data\n\n        if len(data) < size:\n            break\n")]},
    {"name": "walrus-reader-stops-on-small-chunk", "expect": "R1.3", "edits": [
        (F, _CHUNK_LOOP, "    while len(data := read(size)) > 1:\n        yield data\n")]},
    # R1.7 ------------------------------------------------------------------
    {"name": "hold-back-offset-forgotten", "expect": "R1.7", "edits": [
        (M, _HOLD_A, "            data_end = del_index = self.last_newline(data[data_start:])\n            # If amount of data")]},
    {"name": "hold-back-over-whole-buffer-in-lookalike-branch", "expect": "R1.7", "edits": [
        (M, _HOLD_B, "            else:\n                data_end = del_index = self.last_newline(data)\n            more_data = match is None\n")]},
    {"name": "hold-back-one-before-region-start", "expect": "R1.7", "edits": [
        (M, _HOLD_A, "            data_end = del_index = self.last_newline(data[data_start:]) + data_start - 1\n            # If amount of data")]},
]

TWINS = [
    {"name": "larger-search-extra-length", "edits": [(M, "SEARCH_EXTRA_LENGTH = 8", "SEARCH_EXTRA_LENGTH = 16")]},
    {"name": "tightest-sufficient-search-extra-length", "edits": [(M, "SEARCH_EXTRA_LENGTH = 8", "SEARCH_EXTRA_LENGTH = 3")]},
    {"name": "reset-before-delete", "edits": [
        (M, "                data = bytes(self.buffer[: match.start()])\n                del self.buffer[: match.end()]\n                event = Preamble(data=data)\n                self._search_position = 0\n",
            "                self._search_position = 0\n                data = bytes(self.buffer[: match.start()])\n                del self.buffer[: match.end()]\n                event = Preamble(data=data)\n")]},
    {"name": "preamble-branch-extracted-early-return-renamed", "edits": [(M, _PREAMBLE_BRANCH, _PREAMBLE_CALL), (M, "    def _parse_headers(self, data: bytes) -> Headers:", _PREAMBLE_METHOD_PLAIN)]},
    {"name": "preamble-branch-extracted-conditional-expression", "edits": [(M, _PREAMBLE_BRANCH, _PREAMBLE_CALL), (M, "    def _parse_headers(self, data: bytes) -> Headers:", _PREAMBLE_METHOD)]},
    {"name": "reset-through-helper", "edits": [
        (M, "                self.state = State.DATA_START\n                self._search_position = 0\n", "                self.state = State.DATA_START\n                self._restart_search()\n"),
        (M, "    def _parse_headers(self, data: bytes) -> Headers:", "    def _restart_search(self) -> None:\n        self._search_position = 0\n\n    def _parse_headers(self, data: bytes) -> Headers:")]},
    {"name": "anchor-locals-renamed", "edits": [
        (M, '            last_nl = data.rindex(b"\\n")', '            nl_at = data.rindex(b"\\n")'),
        (M, "            last_nl = len(data)", "            nl_at = len(data)"),
        (M, "        return min(last_nl, last_cr)", "        return min(last_cr, nl_at)")]},
    {"name": "stricter-flush-threshold", "edits": [(M, 'if (len(data) - data_end) > len(b"\\n" + boundary):', 'if (len(data) - data_end) > len(b"\\r\\n" + boundary):')]},
    {"name": "flush-threshold-through-locals", "edits": [(M, _FLUSH_A, '''            pending = len(data) - data_end
            limit = 1 + len(boundary)
            if pending >= limit + 1:
                data_end = del_index = len(data)
''')]},
    {"name": "splitter-early-return-style-renamed", "edits": [(M, _SPLIT_TAIL, _SPLIT_TAIL_EARLY_RETURNS)]},
    {"name": "presence-test-with-not-in", "edits": [
        (M, "        if self.buffer.find(boundary) == -1:", "        if boundary not in self.buffer:")]},
    {"name": "drain-loop-while-true-break", "edits": [
        (F, "            event = parser.next_event()\n            while not isinstance(event, (Epilogue, NeedData)):\n", "            while True:\n                event = parser.next_event()\n                if isinstance(event, (Epilogue, NeedData)):\n                    break\n"),
        (F, "\n                event = parser.next_event()\n\n        return self.cls(fields), self.cls(files)", "\n        return self.cls(fields), self.cls(files)")]},
    {"name": "chunk-reader-len-test", "edits": [(F, "        if not data:\n            break\n", "        if len(data) == 0:\n            break\n")]},
    {"name": "window-through-helper-taking-the-tail-length", "edits": [
        (M, _WINDOW_PREAMBLE, "                self._keep_tail(len(self.boundary) + SEARCH_EXTRA_LENGTH)\n"),
        (M, _WINDOW_PART, "                self._keep_tail(keep=SEARCH_EXTRA_LENGTH)\n"),
        (M, "    def _parse_headers(self, data: bytes) -> Headers:", _TAIL_HELPER)]},
    {"name": "window-through-helper-taking-the-position", "edits": [
        (M, _WINDOW_PREAMBLE, "                self._resume_at(len(self.buffer) - (SEARCH_EXTRA_LENGTH + len(self.boundary)))\n"),
        (M, _WINDOW_PART, "                self._resume_at(len(self.buffer) - SEARCH_EXTRA_LENGTH)\n"),
        (M, "    def _parse_headers(self, data: bytes) -> Headers:", _POS_HELPER)]},
    {"name": "anchor-rfind-conditional-expressions-walrus", "edits": [(M, _ANCHOR, _ANCHOR_RFIND_IFEXP)]},
    {"name": "anchor-rfind-tuple-assignment-early-return", "edits": [(M, _ANCHOR, _ANCHOR_RFIND_EARLY)]},
    {"name": "anchor-compares-the-two-positions-by-hand", "edits": [
        (M, "        return min(last_nl, last_cr)\n", "        if last_cr > last_nl:\n            return last_nl\n        return last_cr\n")]},
    {"name": "window-through-helper-that-clamps-with-an-if", "edits": [
        (M, _WINDOW_PREAMBLE, "                self._keep_tail(len(self.boundary) + SEARCH_EXTRA_LENGTH)\n"),
        (M, _WINDOW_PART, "                self._keep_tail(SEARCH_EXTRA_LENGTH)\n"),
        (M, "    def _parse_headers(self, data: bytes) -> Headers:",
            "    def _keep_tail(self, keep: int) -> None:\n        position = len(self.buffer) - keep\n        if position < 0:\n            position = 0\n        self._search_position = position\n\n    def _parse_headers(self, data: bytes) -> Headers:")]},
    {"name": "chunk-reader-walrus-loop", "edits": [(F, _CHUNK_LOOP, "    while data := read(size):\n        yield data\n")]},
    {"name": "chunk-reader-walrus-compare", "edits": [(F, _CHUNK_LOOP, "    while (data := read(size)) != b\"\":\n        yield data\n")]},
    {"name": "payload-start-default-then-overwritten-and-region-alias", "edits": [
        (M, "        if start:\n            match = LINE_BREAK_RE.match(data)\n            data_start = t.cast(t.Match[bytes], match).end()\n        else:\n            data_start = 0\n",
            "        data_start = 0\n        if start:\n            match = LINE_BREAK_RE.match(data)\n            data_start = t.cast(t.Match[bytes], match).end()\n"),
        (M, _HOLD_A, "            tail = data[data_start:]\n            data_end = del_index = data_start + self.last_newline(tail)\n            # If amount of data")]},
]
